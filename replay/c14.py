"""Replay / bounded stand-in for C14: one probing request per versioned
feature, evaluated on the real WSGI stack around the version that introduces
the feature (quick) or at every microversion (thorough)."""
import json
import os
import sys

sys.path.insert(0, os.path.dirname(os.path.abspath(__file__)))
from harness import Placement      # noqa: E402
import corpus                      # noqa: E402
from corpus import RP1, RP2, RPX, C1, C2, AGG, ADMIN   # noqa: E402

MAXM = 39
NEWC = 'dddddddd-dddd-4ddd-8ddd-dddddddddddd'


def _ok(r):
    return r.status_int < 300


def _get(p, m, url):
    return p.req('GET', url, version='1.%d' % m, **ADMIN)


def _alloc(m, **extra):
    b = corpus.alloc_body_static(m)
    b.update(extra)
    return b


def probes():
    """(name, first version, lowest version at which the route exists,
    probe(p, m) -> feature observed)"""
    P = []
    A = lambda name, n, lo, fn: P.append((name, n, lo, fn))
    rp = '/resource_providers/%s' % RP1
    # --- routes
    A('GET aggregates route', 1, 0, lambda p, m: _get(p, m, rp + '/aggregates').status_int != 404)
    A('GET /resource_classes route', 2, 0, lambda p, m: _get(p, m, '/resource_classes').status_int != 404)
    A('DELETE inventories method', 5, 0, lambda p, m: p.req(
        'DELETE', '/resource_providers/%s/inventories' % RP2, version='1.%d' % m, **ADMIN).status_int != 405)
    A('GET /traits route', 6, 0, lambda p, m: _get(p, m, '/traits').status_int != 404)
    A('GET provider traits route', 6, 0, lambda p, m: _get(p, m, rp + '/traits').status_int != 404)
    A('GET /usages route', 9, 0, lambda p, m: _get(p, m, '/usages?project_id=proj').status_int != 404)
    A('GET /allocation_candidates route', 10, 0, lambda p, m: _get(
        p, m, '/allocation_candidates?resources=VCPU:1').status_int != 404)
    A('POST /allocations route', 13, 0, lambda p, m: p.req(
        'POST', '/allocations', {}, version='1.%d' % m, **ADMIN).status_int != 404)
    A('POST /reshaper route', 30, 0, lambda p, m: p.req(
        'POST', '/reshaper', {}, version='1.%d' % m, **ADMIN).status_int != 404)
    # --- request fields / query parameters
    A('member_of on GET /resource_providers', 3, 0, lambda p, m: _ok(_get(
        p, m, '/resource_providers?member_of=in:' + AGG)))
    A('resources on GET /resource_providers', 4, 0, lambda p, m: _ok(_get(
        p, m, '/resource_providers?resources=VCPU:1')))
    A('PUT /resource_classes/{name} without body', 7, 2, lambda p, m: _ok(p.req(
        'PUT', '/resource_classes/CUSTOM_PROBE%d' % m, version='1.%d' % m, **ADMIN)))
    A('project_id required in PUT allocations', 8, 0, lambda p, m: not _ok(p.req(
        'PUT', '/allocations/' + NEWC, corpus.alloc_body_old_list(), version='1.%d' % m, **ADMIN)))
    A('dict format PUT allocations', 12, 0, lambda p, m: _ok(p.req(
        'PUT', '/allocations/' + NEWC, corpus.alloc_body_versioned(p, m, NEWC, fmt='dict'),
        version='1.%d' % m, **ADMIN)))
    A('in_tree on GET /resource_providers', 14, 0, lambda p, m: _ok(_get(
        p, m, '/resource_providers?in_tree=' + RP1)))
    A('parent_provider_uuid on POST /resource_providers', 14, 0, lambda p, m: _ok(p.req(
        'POST', '/resource_providers', {'name': 'probe%d' % m, 'parent_provider_uuid': RP1},
        version='1.%d' % m, **ADMIN)))
    A('limit on GET /allocation_candidates', 16, 10, lambda p, m: _ok(_get(
        p, m, '/allocation_candidates?resources=VCPU:1&limit=1')))
    A('required on GET /allocation_candidates', 17, 10, lambda p, m: _ok(_get(
        p, m, '/allocation_candidates?resources=VCPU:1&required=CUSTOM_T')))
    A('required on GET /resource_providers', 18, 0, lambda p, m: _ok(_get(
        p, m, '/resource_providers?required=CUSTOM_T')))
    A('generation in PUT aggregates body', 19, 1, lambda p, m: _ok(p.req(
        'PUT', rp + '/aggregates', {'resource_provider_generation': corpus.rp_generation(p),
                                    'aggregates': [AGG]}, version='1.%d' % m, **ADMIN)))
    A('member_of on GET /allocation_candidates', 21, 10, lambda p, m: _ok(_get(
        p, m, '/allocation_candidates?resources=VCPU:1&member_of=' + AGG)))
    A('forbidden traits', 22, 18, lambda p, m: _ok(_get(
        p, m, '/resource_providers?required=!CUSTOM_T')))
    A('repeated member_of', 24, 3, lambda p, m: _ok(_get(
        p, m, '/resource_providers?member_of=%s&member_of=%s' % (AGG, AGG))))
    A('granular groups', 25, 10, lambda p, m: _ok(_get(
        p, m, '/allocation_candidates?resources1=VCPU:1')))
    A('reserved == total', 26, 0, lambda p, m: _ok(p.req(
        'PUT', '/resource_providers/%s/inventories' % RP2,
        {'resource_provider_generation': corpus.rp_generation(p, RP2),
         'inventories': {'VCPU': {'total': 4, 'reserved': 4}}}, version='1.%d' % m, **ADMIN)))
    A('consumer_generation in PUT allocations', 28, 12, lambda p, m: _ok(p.req(
        'PUT', '/allocations/' + NEWC, dict(corpus.alloc_body_versioned(p, m, NEWC, fmt='dict'),
                                            consumer_generation=None),
        version='1.%d' % m, **ADMIN)) if m < 28 else _ok(p.req(
            'PUT', '/allocations/' + NEWC, corpus.alloc_body_versioned(p, m, NEWC, fmt='dict'),
            version='1.%d' % m, **ADMIN)) and 'consumer_generation' in
      corpus.alloc_body_versioned(p, m, NEWC, fmt='dict'))
    A('in_tree on GET /allocation_candidates', 31, 10, lambda p, m: _ok(_get(
        p, m, '/allocation_candidates?resources=VCPU:1&in_tree=' + RP1)))
    A('forbidden aggregates', 32, 3, lambda p, m: _ok(_get(
        p, m, '/resource_providers?member_of=!' + AGG)))
    A('string suffixes', 33, 25, lambda p, m: _ok(_get(
        p, m, '/allocation_candidates?resources_A=VCPU:1')))
    A('mappings accepted in PUT allocations', 34, 28, lambda p, m: _ok(p.req(
        'PUT', '/allocations/' + NEWC, dict(corpus.alloc_body_versioned(p, m, NEWC, fmt='dict'),
                                            mappings={'': [RP1]}), version='1.%d' % m, **ADMIN)))
    A('mappings accepted in POST allocations', 34, 28, lambda p, m: _ok(p.req(
        'POST', '/allocations', {NEWC: dict(corpus.alloc_body_versioned(p, m, NEWC, fmt='dict'),
                                            mappings={'': [RP1]})}, version='1.%d' % m, **ADMIN)))
    A('root_required', 35, 10, lambda p, m: _ok(_get(
        p, m, '/allocation_candidates?resources=VCPU:1&root_required=CUSTOM_T')))
    A('same_subtree', 36, 33, lambda p, m: _ok(_get(
        p, m, '/allocation_candidates?resources_A=VCPU:1&resources_B=DISK_GB:1&'
              'same_subtree=_A,_B&group_policy=none')))
    A('re-parenting', 37, 14, lambda p, m: _ok(p.req(
        'PUT', '/resource_providers/' + RP2, {'name': 'rp2', 'parent_provider_uuid': None},
        version='1.%d' % m, **ADMIN)))
    A('consumer_type required', 38, 28, lambda p, m: not _ok(p.req(
        'PUT', '/allocations/' + NEWC, corpus.alloc_body_versioned(p, 37, NEWC, fmt='dict'),
        version='1.%d' % m, **ADMIN)))
    A('required=in: any-traits', 39, 18, lambda p, m: _ok(_get(
        p, m, '/resource_providers?required=in:CUSTOM_T,HW_CPU_X86_AVX')))
    # --- response fields / status / headers
    A('links.allocations', 11, 0, lambda p, m: any(
        l['rel'] == 'allocations' for l in _get(p, m, rp).json['links']))
    A('project_id in GET allocations', 12, 0, lambda p, m: 'project_id' in _get(
        p, m, '/allocations/' + C1).json)
    A('root_provider_uuid in GET provider', 14, 0, lambda p, m: 'root_provider_uuid' in _get(p, m, rp).json)
    A('last-modified header', 15, 0, lambda p, m: 'last-modified' in {
        k.lower() for k in _get(p, m, rp).headers})
    A('cache-control header', 15, 0, lambda p, m: 'cache-control' in {
        k.lower() for k in _get(p, m, rp + '/inventories').headers})
    A('traits in provider_summaries', 17, 10, lambda p, m: all(
        'traits' in v for v in _get(p, m, '/allocation_candidates?resources=VCPU:1')
        .json['provider_summaries'].values()))
    A('generation in GET aggregates', 19, 1, lambda p, m: 'resource_provider_generation' in _get(
        p, m, rp + '/aggregates').json)
    A('POST /resource_providers returns 200 + body', 20, 0, lambda p, m: p.req(
        'POST', '/resource_providers', {'name': 'probeb%d' % m}, version='1.%d' % m,
        **ADMIN).status_int == 200)
    A('error code', 23, 0, lambda p, m: 'code' in _get(
        p, m, '/resource_providers/' + NEWC).json['errors'][0])
    A('consumer_generation in GET allocations', 28, 0, lambda p, m: 'consumer_generation' in _get(
        p, m, '/allocations/' + C1).json)
    A('parent in provider_summaries', 29, 10, lambda p, m: all(
        'root_provider_uuid' in v for v in _get(p, m, '/allocation_candidates?resources=VCPU:1')
        .json['provider_summaries'].values()))
    A('mappings in allocation_requests', 34, 12, lambda p, m: all(
        'mappings' in a for a in _get(p, m, '/allocation_candidates?resources=VCPU:1')
        .json['allocation_requests']))
    A('consumer_type in GET allocations', 38, 0, lambda p, m: 'consumer_type' in _get(
        p, m, '/allocations/' + C1).json)
    A('consumer_count in GET /usages', 38, 9, lambda p, m: 'consumer_count' in json.dumps(_get(
        p, m, '/usages?project_id=proj').json))
    return P


def versions_for(n, lo, tier):
    if tier == 'thorough':
        return list(range(lo, MAXM + 1))
    vs = {lo, n - 1, n, n + 1, MAXM}
    return sorted(v for v in vs if lo <= v <= MAXM)


def headers_check(tier):
    """openstack-api-version and vary on every response with an accepted
    version; 406 outside 1.0 .. 1.39; no header means 1.0."""
    out = []
    with Placement() as p:
        corpus.prepare(p)
        r = p.req('GET', '/resource_providers', version='1.40', **ADMIN)
        if r.status_int != 406:
            out.append('version 1.40 answered %d' % r.status_int)
        r = p.req('GET', '/resource_providers', version='0.9', **ADMIN)
        if r.status_int != 406:
            out.append('version 0.9 answered %d' % r.status_int)
        r = p.req('GET', '/resource_providers', **ADMIN)
        if r.headers.get('openstack-api-version') != 'placement 1.0':
            out.append('no version header answered as %s' %
                       r.headers.get('openstack-api-version'))
        r = p.req('GET', '/resource_providers', version='latest', **ADMIN)
        if r.headers.get('openstack-api-version') != 'placement 1.%d' % MAXM:
            out.append('latest answered as %s' % r.headers.get('openstack-api-version'))
        for m in (0, 20, MAXM):
            for method, url in (('GET', '/resource_providers'),
                                ('GET', '/resource_providers/' + RP1),
                                ('PUT', '/resource_providers/%s/inventories' % RP1)):
                r = p.req(method, url, {} if method == 'PUT' else None,
                          version='1.%d' % m, **ADMIN)
                if r.headers.get('openstack-api-version') != 'placement 1.%d' % m:
                    out.append('%s %s at 1.%d: openstack-api-version %r' % (
                        method, url, m, r.headers.get('openstack-api-version')))
                if 'openstack-api-version' not in (r.headers.get('vary') or '').lower():
                    out.append('%s %s at 1.%d (%d): no Vary' % (method, url, m, r.status_int))
    return out


def raised_exits_headers():
    """F10: answers that PlacementHandler produces by raising (404 for an
    unknown provider or route, 403) must carry the same headers."""
    out = []
    with Placement() as p:
        corpus.prepare(p)
        for method, url, cred in (
                ('GET', '/resource_providers/' + NEWC, ADMIN),
                ('GET', '/no_such_route', ADMIN),
                ('GET', '/resource_providers', dict(token='user:proj', roles=''))):
            r = p.req(method, url, version='1.30', **cred)
            if r.headers.get('openstack-api-version') != 'placement 1.30':
                out.append('%s %s (%d): openstack-api-version %r' % (
                    method, url, r.status_int, r.headers.get('openstack-api-version')))
            if 'openstack-api-version' not in (r.headers.get('vary') or '').lower():
                out.append('%s %s (%d): no Vary header' % (method, url, r.status_int))
    return out


def run(tier='quick', only=None):
    tried = 0
    for name, n, lo, fn in probes():
        if only and only not in name:
            continue
        for m in versions_for(n, lo, tier):
            with Placement() as p:
                corpus.prepare(p)
                tried += 1
                try:
                    got = bool(fn(p, m))
                except Exception as e:
                    got = 'probe error: %r' % (e,)
                want = m >= n
                if got != want:
                    return {'reproduced': True, 'tried': tried, 'witness': {
                        'feature': name, 'introduced': '1.%d' % n,
                        'microversion': '1.%d' % m,
                        'observed': 'feature %s' % (
                            got if isinstance(got, str) else
                            ('present' if got else 'absent')),
                        'expected': 'present' if want else 'absent'}}
    bad = headers_check(tier)
    if bad:
        return {'reproduced': True, 'tried': tried,
                'witness': {'feature': 'version negotiation headers',
                            'observed': bad}}
    known = []
    f10 = raised_exits_headers()
    if f10:
        if all('no Vary header' in x for x in f10):
            known.append('F10')
        else:
            return {'reproduced': True, 'tried': tried,
                    'witness': {'feature': 'headers on raised exits',
                                'observed': f10}}
    return {'reproduced': False, 'tried': tried, 'known_hits': known}


if __name__ == '__main__':
    print(json.dumps(run(sys.argv[1] if len(sys.argv) > 1 else 'quick'),
                     indent=1, default=str))
