"""Replay / bounded stand-in for C07: pairs of requests interleaved at
database-transaction granularity on the real stack.  The second request is
run, completely, just before the k-th top-level transaction of the first one
(k = 1 .. number of its transactions + 1); the requests answered with success
must be equivalent to running those same requests one after the other in
some order (same statuses, same invariant-bearing rows), failed requests must
leave nothing, and capacity / references / forest must hold afterwards."""
import importlib
import itertools
import json
import os
import pkgutil
import sys

sys.path.insert(0, os.path.dirname(os.path.abspath(__file__)))
from harness import Placement      # noqa: E402
import corpus                      # noqa: E402
from corpus import RP1, RP2, RPX, C1, C2, AGG, ADMIN   # noqa: E402
import c08                         # noqa: E402
import c09                         # noqa: E402
import c18                         # noqa: E402

V = '1.39'
RP3 = c18.RP3
C3 = 'cccccccc-3333-4ccc-8ccc-cccccccccccc'
CORE = c18.CORE + ('consumers',)


# --------------------------------------------------------------------------
# interposition before the k-th top-level transaction
class Scheduler(object):
    def __init__(self):
        self.depth = 0
        self.count = 0
        self.target = None
        self.action = None
        self.done = False
        self.result = None
        self.patched = []

    def wrap(self, fn):
        sch = self

        def wrapped(*a, **k):
            top = sch.depth == 0
            if top and sch.action is not None:
                sch.count += 1
                if sch.count == sch.target and not sch.done:
                    sch.done = True
                    act, sch.action = sch.action, None
                    sch.result = act()
                    sch.action = None
            sch.depth += 1
            try:
                return fn(*a, **k)
            finally:
                sch.depth -= 1
        wrapped.__wrapped_by_c07__ = fn
        return wrapped

    @staticmethod
    def is_txn(fn):
        return callable(fn) and hasattr(fn, '__wrapped__') and \
            getattr(getattr(fn, '__code__', None), 'co_filename', '').endswith(
                'enginefacade.py')

    def install(self):
        import placement.objects
        import placement.handlers.util
        import placement.attribute_cache
        from oslo_db.sqlalchemy import enginefacade as ef
        # functions decorated while a request runs (closures inside handlers)
        sch = self
        self._orig_call = ef._TransactionContextManager.__call__

        def patched_call(tcm, fn):
            return sch.wrap(sch._orig_call(tcm, fn))
        ef._TransactionContextManager.__call__ = patched_call
        mods = [placement.handlers.util, placement.attribute_cache]
        for m in pkgutil.iter_modules(placement.objects.__path__):
            mods.append(importlib.import_module('placement.objects.' + m.name))
        for mod in mods:
            for name, obj in list(vars(mod).items()):
                if self.is_txn(obj):
                    self.patched.append((mod, name, obj))
                    setattr(mod, name, self.wrap(obj))
                elif isinstance(obj, type) and obj.__module__ == mod.__name__:
                    for an, raw in list(vars(obj).items()):
                        fn = raw.__func__ if isinstance(
                            raw, (staticmethod, classmethod)) else raw
                        if self.is_txn(fn):
                            self.patched.append((obj, an, raw))
                            w = self.wrap(fn)
                            if isinstance(raw, staticmethod):
                                w = staticmethod(w)
                            elif isinstance(raw, classmethod):
                                w = classmethod(w)
                            setattr(obj, an, w)

    def uninstall(self):
        from oslo_db.sqlalchemy import enginefacade as ef
        if getattr(self, '_orig_call', None) is not None:
            ef._TransactionContextManager.__call__ = self._orig_call
            self._orig_call = None
        for owner, name, raw in self.patched:
            setattr(owner, name, raw)
        self.patched = []


# --------------------------------------------------------------------------
def alloc(rp_res, gen, **kw):
    b = {'allocations': {u: {'resources': r} for u, r in rp_res.items()},
         'project_id': 'proj', 'user_id': 'user', 'consumer_generation': gen,
         'consumer_type': 'INSTANCE'}
    b.update(kw)
    return b


def pairs(p):
    """(name, request 1, request 2); bodies are fixed from the initial state,
    as two clients would compute them"""
    g1 = corpus.rp_generation(p, RP1)
    g3 = corpus.rp_generation(p, RP3)
    cg = corpus.consumer_generation(p, C1)
    inv = lambda u, g, **k: ('PUT', '/resource_providers/%s/inventories' % u,
                             {'resource_provider_generation': g, 'inventories': k})
    return [
        ('two consumers compete for the last VCPUs',
         ('PUT', '/allocations/' + C2, alloc({RP1: {'VCPU': 10}}, None)),
         ('PUT', '/allocations/' + C3, alloc({RP1: {'VCPU': 10}}, None))),
        ('same consumer, same generation',
         ('PUT', '/allocations/' + C1, alloc({RP1: {'VCPU': 5}}, cg)),
         ('PUT', '/allocations/' + C1, alloc({RP3: {'VCPU': 3}}, cg))),
        ('emptying write against a growing write of the same consumer',
         ('PUT', '/allocations/' + C1, alloc({}, cg)),
         ('PUT', '/allocations/' + C1, alloc({RP1: {'VCPU': 6}}, cg))),
        ('creation race: new consumer, generation null twice',
         ('PUT', '/allocations/' + C2, alloc({RP1: {'VCPU': 1}}, None)),
         ('PUT', '/allocations/' + C2, alloc({RP3: {'VCPU': 1}}, None))),
        ('inventory shrinks while an allocation grows',
         inv(RP1, g1, VCPU={'total': 4}, DISK_GB={'total': 100}),
         ('PUT', '/allocations/' + C2, alloc({RP1: {'VCPU': 3}}, None))),
        ('allocation grows while the inventory shrinks',
         ('PUT', '/allocations/' + C2, alloc({RP1: {'VCPU': 3}}, None)),
         inv(RP1, g1, VCPU={'total': 4}, DISK_GB={'total': 100})),
        ('traits and aggregates with the same provider generation',
         ('PUT', '/resource_providers/%s/traits' % RP1,
          {'resource_provider_generation': g1, 'traits': ['HW_CPU_X86_AVX']}),
         ('PUT', '/resource_providers/%s/aggregates' % RP1,
          {'resource_provider_generation': g1, 'aggregates': [AGG]})),
        ('two inventory writers with the same generation',
         inv(RP3, g3, VCPU={'total': 8}),
         inv(RP3, g3, VCPU={'total': 16}, DISK_GB={'total': 50})),
        ('multi-consumer move against a write of one of the consumers',
         ('POST', '/allocations', {C1: alloc({}, cg),
                                   C2: alloc({RP1: {'VCPU': 2}}, None)}),
         ('PUT', '/allocations/' + C1, alloc({RP3: {'VCPU': 1}}, cg))),
        ('POST with a new and an existing consumer against a write of the latter',
         ('POST', '/allocations', {C3: alloc({RP3: {'VCPU': 1}}, None),
                                   C1: alloc({RP1: {'VCPU': 3}}, cg)}),
         ('PUT', '/allocations/' + C1, alloc({RP1: {'VCPU': 4}}, cg))),
    ]


def extended_pairs(p):
    """pairs with a request that carries no generation (DELETE of allocations
    or of an inventory, provider moves and deletions): outside the
    quantifier of C07, run in the thorough tier and reported as notes only"""
    g1 = corpus.rp_generation(p, RP1)
    g3 = corpus.rp_generation(p, RP3)
    cg = corpus.consumer_generation(p, C1)
    inv = lambda u, g, **k: ('PUT', '/resource_providers/%s/inventories' % u,
                             {'resource_provider_generation': g, 'inventories': k})
    return [
        ('delete against a write of the same consumer',
         ('DELETE', '/allocations/' + C1, None),
         ('PUT', '/allocations/' + C1, alloc({RP1: {'VCPU': 4}}, cg))),
        ('allocation against deletion of its inventory',
         ('PUT', '/allocations/' + C2, alloc({RP3: {'DISK_GB': 5}}, None)),
         ('DELETE', '/resource_providers/%s/inventories/DISK_GB' % RP3, None)),
        ('subtree move against a new child in the moved subtree',
         ('PUT', '/resource_providers/' + RP1, {'name': 'rp1',
                                                'parent_provider_uuid': RP3}),
         ('POST', '/resource_providers', {'name': 'rpx', 'uuid': RPX,
                                          'parent_provider_uuid': RP2})),
        ('subtree move against deletion of the new parent',
         ('PUT', '/resource_providers/' + RP2, {'name': 'rp2',
                                                'parent_provider_uuid': RP3}),
         ('DELETE', '/resource_providers/' + RP3, None)),
        ('inventory with a new class against deletion of that class',
         inv(RP3, g3, VCPU={'total': 8}, CUSTOM_X={'total': 1}),
         ('DELETE', '/resource_classes/CUSTOM_X', None)),
    ]


def fresh():
    p = Placement(file_db=True)
    p.__enter__()
    corpus.prepare(p)
    c18.extra_state(p)
    return p


def send(p, r):
    m, path, body = r
    return p.req(m, path, body, version=V, **ADMIN).status_int


COLS = {}


def snapshot(p):
    """the stored state up to surrogate keys: rows are identified by uuids /
    names, references resolved"""
    if not COLS:
        COLS.update(c08.names(p))
    d = p.dump()
    rows = {t: [dict(zip(COLS[t], r)) for r in d[t]] for t in d if t in COLS}
    rp = {r['id']: r for r in rows['resource_providers']}
    uu = lambda i: rp[i]['uuid'] if i in rp else ('missing', i)
    proj = {r['id']: r['external_id'] for r in rows['projects']}
    user = {r['id']: r['external_id'] for r in rows['users']}
    ctype = {r['id']: r['name'] for r in rows['consumer_types']}
    trait = {r['id']: r['name'] for r in rows['traits']}
    agg = {r['id']: r['uuid'] for r in rows['placement_aggregates']}
    rc = {r['id']: r['name'] for r in rows['resource_classes']}
    out = {
        'providers': sorted((r['uuid'], r['name'], r['generation'],
                             uu(r['parent_provider_id']) if r['parent_provider_id'] else None,
                             uu(r['root_provider_id'])) for r in rp.values()),
        'inventories': sorted(
            (uu(r['resource_provider_id']), rc.get(r['resource_class_id']),
             r['total'], r['reserved'], r['min_unit'], r['max_unit'],
             r['step_size'], r['allocation_ratio']) for r in rows['inventories']),
        'allocations': sorted(
            (r['consumer_id'], uu(r['resource_provider_id']),
             rc.get(r['resource_class_id']), r['used']) for r in rows['allocations']),
        'traits': sorted((uu(r['resource_provider_id']), trait.get(r['trait_id']))
                         for r in rows['resource_provider_traits']),
        'aggregates': sorted((uu(r['resource_provider_id']), agg.get(r['aggregate_id']))
                             for r in rows['resource_provider_aggregates']),
        'consumers': sorted((r['uuid'], r['generation'], proj.get(r['project_id']),
                             user.get(r['user_id']),
                             ctype.get(r.get('consumer_type_id')))
                            for r in rows['consumers']),
        'custom classes': sorted(n for n in rc.values() if n.startswith('CUSTOM_')),
    }
    return out


def serial(reqs):
    p = fresh()
    try:
        st = [send(p, r) for r in reqs]
        return st, snapshot(p)
    finally:
        p.__exit__(None, None, None)


def invariants(p, cols):
    return c08.dangling(p, cols) or \
        c09.check_forest(p, cols['resource_providers']) or \
        c18.capacity_ok(p, cols)


def search(r=None, tier='quick'):
    tried = 0
    p0 = fresh()
    try:
        cols = c08.names(p0)
        prs = pairs(p0)
    finally:
        p0.__exit__(None, None, None)
    serial_cache = {}
    for name, r1, r2 in prs:
        k = 0
        while True:
            k += 1
            p = fresh()
            sch = Scheduler()
            try:
                sch.install()
                sch.target = k
                sch.action = lambda: send(p, r2)
                s1 = send(p, r1)
                ran_inside = sch.done
                if not sch.done:
                    # fewer than k transactions: the second one runs afterwards
                    sch.action = None
                    s2 = send(p, r2)
                else:
                    s2 = sch.result
                sch.uninstall()
                tried += 1
                final = snapshot(p)
                bad = invariants(p, cols)
            finally:
                sch.uninstall()
                p.__exit__(None, None, None)
            ok = [x for x, s in ((r1, s1), (r2, s2)) if s < 300]
            sched = 'second request before transaction %d of the first' % k \
                if ran_inside else 'one after the other'

            def witness(obs):
                return {'reproduced': True, 'tried': tried, 'witness': {
                    'pair': name, 'first': r1, 'second': r2, 'schedule': sched,
                    'statuses': [s1, s2], 'observed': obs}}
            if s1 >= 500 or s2 >= 500:
                pass        # crash safety is C15's; equivalence still checked
            if bad:
                return witness(bad)
            match = False
            for perm in itertools.permutations(ok):
                key = json.dumps([list(x) for x in perm], sort_keys=True, default=str)
                if key not in serial_cache:
                    serial_cache[key] = serial(list(perm))
                st, snap = serial_cache[key]
                if all(s < 300 for s in st) and snap == final:
                    match = True
                    break
            if not match:
                return witness(
                    'the %d request(s) answered with success are not equivalent '
                    'to running them one after the other in any order (or a '
                    'failed request left something behind)' % len(ok))
            if not ran_inside:
                break
    return {'reproduced': False, 'tried': tried}


if __name__ == '__main__':
    print(json.dumps(search(None, sys.argv[1] if len(sys.argv) > 1 else 'quick'),
                     indent=1, default=str))
