"""Concrete search around a solver model for C01 (bounded stand-in B4).

Scenario: one provider, one class, an inventory, optional prior usage by an
earlier consumer, then ONE allocation-writing request (POST /allocations with
one or two consumers, or PUT /allocations/{c}).  The property clause is then
evaluated on the stored rows.  Runs the real code of whichever tree
`import placement` resolves to.
"""
import itertools
import json
import os
import sys
import uuid as uuidlib
from fractions import Fraction

sys.path.insert(0, os.path.dirname(os.path.abspath(__file__)))
from harness import Placement      # noqa: E402

VER = '1.38'
MAXI = 0x7FFFFFFF


def _u(n):
    return str(uuidlib.UUID(int=n))


def clause_violations(p, rp, inv, placed):
    """C01 clause on the stored state: every positive amount just placed
    respects the units and total usage is within capacity."""
    out = []
    r = p.req('GET', '/resource_providers/%s/usages' % rp, version=VER)
    used = r.json['usages'].get('VCPU', 0)
    cap = (inv['total'] - inv['reserved']) * inv['allocation_ratio']
    if placed and used > cap:
        out.append('usage %s exceeds capacity %s' % (used, cap))
    for a in placed:
        if a < inv['min_unit'] or a > inv['max_unit'] or a % inv['step_size']:
            out.append('placed amount %s violates units %s' % (a, inv))
    return out


def run_scenario(p, n, inv, prior, amounts, how):
    rp = _u(n * 100 + 1)
    r = p.req('POST', '/resource_providers', {'name': 'rp%d' % n, 'uuid': rp},
              version=VER)
    if r.status_int not in (200, 201):
        return None
    gen = 0
    if prior or how == 'reshape':
        loose = dict(total=MAXI, reserved=0, min_unit=1, max_unit=MAXI,
                     step_size=1, allocation_ratio=1.0)
        r = p.req('PUT', '/resource_providers/%s/inventories' % rp,
                  {'resource_provider_generation': gen,
                   'inventories': {'VCPU': loose}}, version=VER)
        if r.status_int != 200:
            return None
        gen = r.json['resource_provider_generation']
    if prior:
        r = p.req('PUT', '/allocations/%s' % _u(n * 100 + 2), {
            'allocations': {rp: {'resources': {'VCPU': prior}}},
            'project_id': 'p', 'user_id': 'u', 'consumer_generation': None,
            'consumer_type': 'INSTANCE'}, version=VER)
        if r.status_int != 204:
            return None
        gen += 1
    if how == 'reshape':
        # the tighter inventory and the new allocation arrive in ONE request:
        # the allocation must be checked against the inventory it will live
        # under
        allocs = {}
        if prior:
            allocs[_u(n * 100 + 2)] = {
                'allocations': {rp: {'resources': {'VCPU': prior}}},
                'project_id': 'p', 'user_id': 'u', 'consumer_generation': 1,
                'consumer_type': 'INSTANCE'}
        allocs[_u(n * 100 + 10)] = {
            'allocations': {rp: {'resources': {'VCPU': amounts[0]}}},
            'project_id': 'p', 'user_id': 'u', 'consumer_generation': None,
            'consumer_type': 'INSTANCE'}
        r = p.req('POST', '/reshaper', {
            'inventories': {rp: {'resource_provider_generation': gen,
                                 'inventories': {'VCPU': inv}}},
            'allocations': allocs}, version=VER, roles='admin,service')
        if r.status_int != 204:
            return {'accepted': False, 'status': r.status_int}
        v = clause_violations(p, rp, inv, amounts)
        return {'accepted': True, 'violations': v}
    r = p.req('PUT', '/resource_providers/%s/inventories' % rp,
              {'resource_provider_generation': gen,
               'inventories': {'VCPU': inv}}, version=VER)
    if r.status_int != 200:
        return None
    if how == 'post':
        body = {}
        for i, a in enumerate(amounts):
            body[_u(n * 100 + 10 + i)] = {
                'allocations': {rp: {'resources': {'VCPU': a}}},
                'project_id': 'p', 'user_id': 'u',
                'consumer_generation': None, 'consumer_type': 'INSTANCE'}
        r = p.req('POST', '/allocations', body, version=VER)
    else:
        r = p.req('PUT', '/allocations/%s' % _u(n * 100 + 10), {
            'allocations': {rp: {'resources': {'VCPU': amounts[0]}}},
            'project_id': 'p', 'user_id': 'u', 'consumer_generation': None,
            'consumer_type': 'INSTANCE'}, version=VER)
    if r.status_int != 204:
        return {'accepted': False, 'status': r.status_int}
    v = clause_violations(p, rp, inv, amounts)
    return {'accepted': True, 'violations': v}


def _num(s, default=None):
    try:
        s = str(s).strip()
        if s.startswith('(- '):
            return -_num(s[3:-1])
        if '/' in s:
            return float(Fraction(s.replace(' ', '')))
        return int(s)
    except Exception:
        try:
            return float(s)
        except Exception:
            return default


def seeds_from_model(model):
    """Integers occurring in the model (amounts, units, totals)."""
    vals = set()
    for k, v in (model or {}).items():
        for tok in str(v).replace('(', ' ').replace(')', ' ').replace(',', ' ').split():
            x = _num(tok)
            if isinstance(x, int) and 0 < x < 100000:
                vals.add(x)
    return vals


def probe_scenarios(model):
    """Scenarios built directly from the probe values of the solver model."""
    g = lambda n: _num((model or {}).get('probe!' + n))
    try:
        inv = dict(total=int(g('total')), reserved=int(g('reserved')),
                   allocation_ratio=float(g('allocation_ratio')),
                   min_unit=int(g('min_unit')), max_unit=int(g('max_unit')),
                   step_size=int(g('step_size')))
        amount, usage, before = int(g('amount')), int(g('usage')), \
            int(g('running_sum_before'))
    except Exception:
        return []
    if not (1 <= inv['total'] <= MAXI and 0 <= inv['reserved'] <= MAXI and
            all(1 <= inv[c] <= MAXI for c in ('min_unit', 'max_unit', 'step_size'))
            and 0 <= usage <= MAXI and 0 < amount <= MAXI):
        return []
    out = []
    if before > 0:
        out.append((inv, usage, [before, amount], 'post'))
        out.append((inv, usage, [amount, before], 'post'))
    out.append((inv, usage, [amount], 'put'))
    out.append((inv, usage, [amount], 'post'))
    return out


def search(model=None, budget=400):
    tried = 0
    with Placement() as p:
        for n, (inv, prior, amts, how) in enumerate(probe_scenarios(model)):
            tried += 1
            res = run_scenario(p, 5000 + n, inv, prior, amts, how)
            if res and res.get('accepted') and res['violations']:
                return {'reproduced': True, 'tried': tried, 'from': 'solver model',
                        'scenario': {'inventory': inv, 'prior_usage': prior,
                                     'request': how, 'amounts': amts,
                                     'microversion': VER},
                        'observed': res['violations']}
    r = grid_search(model, budget)
    r['tried'] += tried
    return r


def grid_search(model=None, budget=400):
    """Boundary scenarios: unit limits with ample capacity, capacity limits
    with loose units, fractional ratios, prior usage, two consumers whose
    amounts fit separately."""
    seeds = sorted(seeds_from_model(model))[:4]
    invs = []
    for ratio in (1.0, 1.5, 0.5):
        # ample capacity, tight units
        invs.append(dict(total=1000, reserved=0, allocation_ratio=ratio,
                         min_unit=2, max_unit=6, step_size=2))
        invs.append(dict(total=1000, reserved=10, allocation_ratio=ratio,
                         min_unit=1, max_unit=5, step_size=1))
        invs.append(dict(total=1000, reserved=0, allocation_ratio=ratio,
                         min_unit=3, max_unit=100, step_size=3))
        # tight capacity, loose units
        invs.append(dict(total=10, reserved=2, allocation_ratio=ratio,
                         min_unit=1, max_unit=100, step_size=1))
        invs.append(dict(total=7, reserved=0, allocation_ratio=ratio,
                         min_unit=1, max_unit=7, step_size=1))
    tried = 0
    n = 0
    with Placement() as p:
        for inv in invs:
            cap = int((inv['total'] - inv['reserved']) * inv['allocation_ratio'])
            for prior in (0, min(max(cap // 2, 1), 40)):
                room = cap - prior
                mn, mx, st = inv['min_unit'], inv['max_unit'], inv['step_size']
                singles = sorted(set(
                    [mn - 1, mn, mx, mx + 1, mx + st, st, st + 1, mn + 1,
                     room, room + 1, room - 1] + seeds))
                singles = [a for a in singles if 0 < a <= MAXI]
                half = max(room // 2 + 1, mn)
                half += (-half) % st
                pairs = [(half, half), (mx, mx), (room, mn), (mn, room)]
                pairs = [(a, b) for a, b in pairs if a > 0 and b > 0]
                resh = [a for a in (room, room + 1, mx + 1, mn - 1, st + 1)
                        if 0 < a <= MAXI]
                for how, amts in [('put', (a,)) for a in singles] + \
                        [('post', (a,)) for a in singles[:4]] + \
                        [('post', ab) for ab in pairs] + \
                        [('reshape', (a,)) for a in resh]:
                    if tried >= budget:
                        return {'reproduced': False, 'tried': tried}
                    n += 1
                    tried += 1
                    res = run_scenario(p, n, inv, prior, list(amts), how)
                    if res and res.get('accepted') and res['violations']:
                        return {'reproduced': True, 'tried': tried,
                                'from': 'boundary grid',
                                'scenario': {'inventory': inv, 'prior_usage': prior,
                                             'request': how, 'amounts': list(amts),
                                             'microversion': VER},
                                'observed': res['violations']}
    return {'reproduced': False, 'tried': tried}


if __name__ == '__main__':
    print(json.dumps(search(None, int(sys.argv[1]) if len(sys.argv) > 1 else 400),
                     indent=1))
