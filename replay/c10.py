"""Replay / bounded stand-in for C10: every successful change strictly
increases the provider's (consumer's) generation, reads and rejected requests
change none, and the generation a write returns is the one read afterwards."""
import json
import os
import sys

sys.path.insert(0, os.path.dirname(os.path.abspath(__file__)))
from harness import Placement      # noqa: E402
import corpus                      # noqa: E402
from corpus import RP1, RP2, C1, C2, AGG, ADMIN   # noqa: E402

AGG2 = 'dddddddd-0000-4ddd-8ddd-dddddddddddd'


def gens(p):
    d = p.dump(('resource_providers', 'consumers'))
    return ({r[1]: r[3] for r in d['resource_providers']},
            {r[1]: r[4] for r in d['consumers']})


def writes(p, minor):
    """successful provider-changing requests, including corner cases"""
    g = lambda: corpus.rp_generation(p)
    base = '/resource_providers/%s' % RP1
    inv = lambda **kw: {'resource_provider_generation': g(), 'inventories': kw}
    yield ('PUT inventories (change)', 'PUT', base + '/inventories',
           lambda: inv(VCPU={'total': 32}, DISK_GB={'total': 100}), [RP1])
    yield ('PUT inventories (add class)', 'PUT', base + '/inventories',
           lambda: inv(VCPU={'total': 32}, DISK_GB={'total': 100},
                       MEMORY_MB={'total': 64}), [RP1])
    yield ('PUT inventory', 'PUT', base + '/inventories/DISK_GB',
           lambda: {'resource_provider_generation': g(), 'total': 200}, [RP1])
    yield ('DELETE inventory', 'DELETE', base + '/inventories/MEMORY_MB',
           lambda: None, [RP1])
    yield ('POST inventory', 'POST', base + '/inventories',
           lambda: {'resource_class': 'MEMORY_MB', 'total': 128}, [RP1])
    yield ('PUT traits (remove all)', 'PUT', base + '/traits',
           lambda: {'resource_provider_generation': g(), 'traits': []}, [RP1])
    yield ('PUT traits (add)', 'PUT', base + '/traits',
           lambda: {'resource_provider_generation': g(), 'traits': ['CUSTOM_T']}, [RP1])
    yield ('DELETE traits', 'DELETE', base + '/traits', lambda: None, [RP1])
    if minor >= 19:
        yield ('PUT aggregates (add)', 'PUT', base + '/aggregates',
               lambda: {'resource_provider_generation': g(),
                        'aggregates': [AGG, AGG2]}, [RP1])
        yield ('PUT aggregates (remove some)', 'PUT', base + '/aggregates',
               lambda: {'resource_provider_generation': g(), 'aggregates': [AGG2]}, [RP1])
        yield ('PUT aggregates (remove all)', 'PUT', base + '/aggregates',
               lambda: {'resource_provider_generation': g(), 'aggregates': []}, [RP1])
    yield ('PUT allocations (grow)', 'PUT', '/allocations/' + C1,
           lambda: corpus.alloc_body(p, minor, C1, 3), [RP1])
    yield ('PUT allocations (new consumer)', 'PUT', '/allocations/' + C2,
           lambda: dict(corpus.alloc_body(p, minor, C2, 1),
                        **({'consumer_generation': None} if minor >= 28 else {})), [RP1])
    if minor >= 28:
        yield ('PUT allocations (clear)', 'PUT', '/allocations/' + C2,
               lambda: dict(corpus.alloc_body(p, minor, C2, 1), allocations={}), [])
    yield ('DELETE inventories (refused: in use)', 'DELETE', base + '/inventories',
           lambda: None, None)


def run(minors=(39, 19, 12)):
    tried = 0
    from placement import handler as handler_mod
    for minor in minors:
        with Placement() as p:
            corpus.prepare(p)
            v = '1.%d' % minor
            for name, m, url, mk, bumped in writes(p, minor):
                tried += 1
                rp0, c0 = gens(p)
                body = mk()
                r = p.req(m, url, body, version=v, **ADMIN)
                rp1, c1 = gens(p)
                bad = []
                ok = r.status_int < 300
                if bumped is None or not ok:
                    if rp1 != rp0 or {k: c1.get(k) for k in c0} != c0:
                        if not ok:
                            bad.append('rejected request (%d) changed a generation'
                                       % r.status_int)
                else:
                    for u in bumped:
                        if not rp1[u] > rp0[u]:
                            bad.append('provider generation %s -> %s after a '
                                       'successful change' % (rp0[u], rp1[u]))
                    for u in rp0:
                        if u in rp1 and rp1[u] < rp0[u]:
                            bad.append('generation decreased')
                    if 'allocations' in url:
                        cu = url.rsplit('/', 1)[1]
                        if cu in c0 and cu in c1 and not c1[cu] > c0[cu]:
                            bad.append('consumer generation %s -> %s' % (c0[cu], c1[cu]))
                    try:
                        rg = r.json.get('resource_provider_generation')
                        if rg is not None and rg != rp1[RP1]:
                            bad.append('returned generation %s but stored %s'
                                       % (rg, rp1[RP1]))
                    except Exception:
                        pass
                if bad:
                    return {'reproduced': True, 'tried': tried, 'witness': {
                        'step': name, 'request': [m, url, body],
                        'microversion': v, 'status': r.status_int,
                        'observed': bad}}
            # reads change nothing
            rp0, c0 = gens(p)
            for route, targets in handler_mod.ROUTE_DECLARATIONS.items():
                if 'GET' in targets and route not in ('', '/'):
                    path, body, q = corpus.sample(p, 'GET', route, minor)
                    p.req('GET', path + ('?' + q if q else ''), version=v, **ADMIN)
            if gens(p) != (rp0, c0):
                return {'reproduced': True, 'tried': tried,
                        'witness': {'observed': 'a GET changed a generation'}}
    return {'reproduced': False, 'tried': tried}


if __name__ == '__main__':
    print(json.dumps(run(), indent=1, default=str))
