"""Real WSGI stack of openstack/placement on in-memory SQLite.

Composition = placement.deploy.deploy() minus its last block (which crashes
under the installed oslo.policy on `conf.oslo_policy.enforce_scope`):
NoAuthMiddleware -> PlacementKeystoneContext -> FaultWrapper ->
MicroversionMiddleware -> PlacementHandler.  Nothing in /repo is touched.

Usage:
    with Placement() as p:
        r = p.req('GET', '/resource_providers', version='1.39')
        r.status_int, r.json
"""
import copy
import json
import logging
import os
import warnings

warnings.filterwarnings('ignore')
logging.disable(logging.CRITICAL)

from oslo_config import cfg                              # noqa: E402
from oslo_config import fixture as config_fixture       # noqa: E402
import webob                                            # noqa: E402
from microversion_parse import middleware as mp_middleware   # noqa: E402

from placement import auth                              # noqa: E402
from placement import conf as placement_conf            # noqa: E402
from placement.conf import paths                        # noqa: E402
from placement import fault_wrap                        # noqa: E402
from placement import handler                           # noqa: E402
from placement import microversion                      # noqa: E402
from placement import policies                          # noqa: E402
from placement import policy                            # noqa: E402
from placement.tests import fixtures as placement_fixtures   # noqa: E402
from placement import util                              # noqa: E402


class Placement(object):
    def __init__(self, randomize=False, policy_rules=None, file_db=False):
        self.randomize = randomize
        self.policy_rules = policy_rules
        self._tmp = None
        # file_db: an SQLite file with one connection per session instead of
        # the shared in-memory connection (StaticPool), on which an
        # independent transaction shares -- and ends -- the transaction state
        # of the surrounding request
        self.file_db = file_db
        self._dbdir = None

    def __enter__(self):
        self.cf = config_fixture.Config(cfg.ConfigOpts())
        self.cf.setUp()
        placement_conf.register_opts(self.cf.conf)
        self.cf.config(group='api', auth_strategy='noauth2')
        if self.file_db:
            import tempfile
            from oslo_db.sqlalchemy import test_fixtures
            self._dbdir = tempfile.mkdtemp(prefix='pyvc_db.')
            url = 'sqlite:///%s/placement.db' % self._dbdir

            class _FileDatabase(placement_fixtures.Database):
                def __init__(self_, conf_fixture, set_config=False):
                    test_fixtures.AdHocDbFixture.__init__(self_, url=url)
                    if set_config:
                        try:
                            conf_fixture.register_opt(
                                cfg.StrOpt('connection'),
                                group='placement_database')
                        except cfg.DuplicateOptError:
                            pass
                        conf_fixture.config(connection=url,
                                            group='placement_database')
                    self_.conf_fixture = conf_fixture
                    from placement import db_api as placement_db
                    self_.get_engine = placement_db.get_placement_engine
                    placement_db.configure(self_.conf_fixture.conf)
            self.db = _FileDatabase(self.cf, set_config=True)
        else:
            self.db = placement_fixtures.Database(self.cf, set_config=True)
        self.db.setUp()
        self.cf.conf([], default_config_files=[])
        pf = paths.state_path_def('etc/placement/policy.yaml')
        if self.policy_rules:
            import tempfile
            self._tmp = tempfile.NamedTemporaryFile(
                'w', suffix='.yaml', delete=False)
            for k, v in self.policy_rules.items():
                self._tmp.write('"%s": "%s"\n' % (k, v))
            self._tmp.close()
            pf = self._tmp.name
        self.cf.config(group='oslo_policy', policy_file=pf)
        if self.randomize:
            self.cf.config(group='placement',
                           randomize_allocation_candidates=True)
        policy.reset()
        policy.init(self.cf.conf, suppress_deprecation_warnings=True,
                    rules=copy.deepcopy(policies.list_rules()))
        conf = self.cf.conf
        app = handler.PlacementHandler(config=conf)
        app = mp_middleware.MicroversionMiddleware(
            app, microversion.SERVICE_TYPE, microversion.VERSIONS,
            json_error_formatter=util.json_error_formatter)
        app = fault_wrap.FaultWrapper(app)
        app = auth.PlacementKeystoneContext(app)
        app = auth.NoAuthMiddleware(app)
        self.app = app
        self.conf = conf
        return self

    def __exit__(self, *a):
        if self._tmp is not None:
            os.unlink(self._tmp.name)
        policy.reset()
        try:
            self.db.cleanUp()
        finally:
            self.cf.cleanUp()
            if self._dbdir is not None:
                import shutil
                shutil.rmtree(self._dbdir, ignore_errors=True)

    def req(self, method, path, body=None, version=None, token='admin',
            roles=None, headers=None, raw_body=None, accept='application/json',
            content_type='application/json'):
        r = webob.Request.blank(path)
        r.method = method
        if token is not None:
            r.headers['X-Auth-Token'] = token
        if roles is not None:
            r.headers['X-Roles'] = roles
        if version is not None:
            r.headers['OpenStack-API-Version'] = 'placement %s' % version
        if accept:
            r.headers['Accept'] = accept
        if body is not None:
            r.body = json.dumps(body).encode('utf-8')
            if content_type:
                r.content_type = content_type
        elif raw_body is not None:
            r.body = raw_body
            if content_type:
                r.content_type = content_type
        for k, v in (headers or {}).items():
            r.headers[k] = v
        return r.get_response(self.app)

    # direct database inspection -------------------------------------------
    def dump(self, tables=None):
        """Return {table: sorted list of row tuples} (timestamps dropped)."""
        from placement import db_api
        from placement.db.sqlalchemy import models
        import sqlalchemy as sa
        eng = db_api.get_placement_engine()
        out = {}
        with eng.connect() as conn:
            for t in models.BASE.metadata.sorted_tables:
                if tables and t.name not in tables:
                    continue
                cols = [c for c in t.c
                        if c.name not in ('created_at', 'updated_at')]
                rows = conn.execute(sa.select(*cols)).fetchall()
                out[t.name] = sorted(
                    [tuple(r) for r in rows],
                    key=lambda x: tuple(str(v) for v in x))
        return out


if __name__ == '__main__':
    with Placement() as p:
        r = p.req('POST', '/resource_providers',
                  {'name': 'rp1', 'uuid': '11111111-1111-1111-1111-111111111111'},
                  version='1.39')
        print(r.status_int, r.json)
        r = p.req('GET', '/resource_providers', version='1.39')
        print(r.status_int, len(r.json['resource_providers']))
        print({k: len(v) for k, v in p.dump().items()})
