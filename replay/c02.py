"""Replay / bounded stand-in for C02 on the real WSGI stack: every allocation
request returned by GET /allocation_candidates places exactly the requested
amounts (per class the placed amounts sum to the total requested over all
groups; a suffixed group in full on the provider its mapping names), is
accepted unchanged as the allocations of a new consumer, and every provider it
names has a summary equal to the stored inventory / usage / traits / tree
position."""
import json
import os
import re
import sys
import urllib.parse

sys.path.insert(0, os.path.dirname(os.path.abspath(__file__)))
from harness import Placement      # noqa: E402
import cands                       # noqa: E402

EXTRA_QUERIES = [
    # F1: unsuffixed + suffixed group on the same class, isolate
    ('resources=VCPU:1&resources1=VCPU:1&group_policy=isolate', 25),
    ('resources=VCPU:1,MEMORY_MB:64&resources1=VCPU:2&group_policy=isolate', 25),
    ('resources=VCPU:1&resources1=VCPU:1', 25),
    # three groups, the same class in non-adjacent groups
    ('resources1=VCPU:1&resources2=MEMORY_MB:64&resources3=VCPU:1'
     '&group_policy=none', 25),
    ('resources=VCPU:3&resources1=VCPU:3&resources2=VCPU:3&group_policy=none', 25),
    ('resources=DISK_GB:5&resources1=DISK_GB:5&group_policy=none', 25),
]


def parse_query(query):
    """-> {suffix: {class: amount}}"""
    groups = {}
    for k, v in urllib.parse.parse_qsl(query):
        m = re.match(r'^resources([A-Za-z0-9_-]*)$', k)
        if m:
            groups[m.group(1)] = {c.split(':')[0]: int(c.split(':')[1])
                                  for c in v.split(',')}
    return groups


def alloc_dict(areq):
    al = areq['allocations']
    if isinstance(al, dict):
        return {u: dict(v['resources']) for u, v in al.items()}
    return {a['resource_provider']['uuid']: dict(a['resources']) for a in al}


def stored(p):
    d = p.dump()
    rps = {r[0]: r for r in d['resource_providers']}
    return d, rps


def check_candidate(p, query, minor, areq, sums, n):
    groups = parse_query(query)
    want = {}
    for g in groups.values():
        for c, a in g.items():
            want[c] = want.get(c, 0) + a
    got = {}
    ad = alloc_dict(areq)
    for u, res in ad.items():
        for c, a in res.items():
            got[c] = got.get(c, 0) + a
    if got != want:
        return 'placed amounts per class %s differ from the requested totals %s' % (got, want)
    maps = areq.get('mappings')
    if maps is not None:
        if set(maps) != set(groups):
            return 'mappings name groups %s, query has %s' % (sorted(maps), sorted(groups))
        for sfx, provs in maps.items():
            for u in provs:
                if u not in ad:
                    return 'mapping of group %r names %s which holds no allocation' % (sfx, u)
            if sfx != '':
                if len(provs) != 1:
                    return 'suffixed group %r mapped to %d providers' % (sfx, len(provs))
                for c, a in groups[sfx].items():
                    if ad[provs[0]].get(c, 0) < a:
                        return ('group %r asks %s:%d but only %s placed on its '
                                'mapped provider' % (sfx, c, a, ad[provs[0]].get(c, 0)))
    for u in ad:
        if u not in sums:
            return 'provider %s named by the request has no summary' % u
        r = p.req('GET', '/resource_providers/' + u, version='1.39')
        if r.status_int != 200:
            return 'provider %s named by the request does not exist' % u
    # claim it
    cu = cands.u(0xD000 + n)
    if minor >= 12:
        body = {'allocations': areq['allocations'], 'project_id': 'p',
                'user_id': 'u'}
        if minor >= 28:
            body['consumer_generation'] = None
        if minor >= 34 and 'mappings' in areq:
            body['mappings'] = areq['mappings']
        if minor >= 38:
            body['consumer_type'] = 'INSTANCE'
    else:
        body = {'allocations': areq['allocations']}
    if minor >= 8 and 'project_id' not in body:
        body.update(project_id='p', user_id='u')
    r = p.req('PUT', '/allocations/' + cu, body, version='1.%d' % minor)
    if r.status_int != 204:
        return 'claiming the request unchanged is refused: %d %s' % (
            r.status_int, r.text[:200])
    r = p.req('DELETE', '/allocations/' + cu, version='1.%d' % minor)
    if r.status_int != 204:
        return 'cleanup failed %d' % r.status_int
    return None


def check_summaries(p, minor, body):
    for u, s in body['provider_summaries'].items():
        inv = p.req('GET', '/resource_providers/%s/inventories' % u, version='1.39').json['inventories']
        use = p.req('GET', '/resource_providers/%s/usages' % u, version='1.39').json['usages']
        for c, r in s['resources'].items():
            if c not in inv:
                return 'summary of %s lists %s which it has no inventory of' % (u, c)
            cap = int((inv[c]['total'] - inv[c]['reserved']) * inv[c]['allocation_ratio'])
            if r['capacity'] != cap or r['used'] != use.get(c, 0):
                return 'summary of %s/%s says capacity=%s used=%s, stored: %s / %s' % (
                    u, c, r['capacity'], r['used'], cap, use.get(c, 0))
        if minor >= 17:
            tr = p.req('GET', '/resource_providers/%s/traits' % u, version='1.39').json['traits']
            if sorted(s.get('traits', [])) != sorted(tr):
                return 'summary of %s lists traits %s, stored %s' % (u, s.get('traits'), tr)
        if minor >= 29:
            rp = p.req('GET', '/resource_providers/' + u, version='1.39').json
            if s.get('parent_provider_uuid') != rp['parent_provider_uuid'] or \
                    s.get('root_provider_uuid') != rp['root_provider_uuid']:
                return 'summary of %s has parent/root %s/%s, stored %s/%s' % (
                    u, s.get('parent_provider_uuid'), s.get('root_provider_uuid'),
                    rp['parent_provider_uuid'], rp['root_provider_uuid'])
    return None


def search(model=None, tier='quick'):
    minors = (39, 28, 12) if tier == 'quick' else (39, 36, 34, 33, 29, 28, 25, 17, 12, 10)
    tried = 0
    n = 0
    for tname, topo in cands.TOPOLOGIES:
        with Placement() as p:
            b = cands.Builder(p)
            topo(b)
            for query, minq in cands.QUERIES + EXTRA_QUERIES:
                for minor in minors:
                    if minor < minq:
                        continue
                    r = cands.get(p, query, minor)
                    tried += 1
                    if r.status_int != 200:
                        continue
                    body = r.json
                    w = check_summaries(p, minor, body)
                    if not w:
                        for areq in body['allocation_requests']:
                            n += 1
                            tried += 1
                            w = check_candidate(p, query, minor, areq,
                                                body['provider_summaries'], n)
                            if w:
                                w = dict(observed=w, request=areq)
                                break
                    else:
                        w = dict(observed=w)
                    if w:
                        w.update(topology=tname, query=query,
                                 microversion='1.%d' % minor)
                        return {'reproduced': True, 'tried': tried, 'witness': w}
    return {'reproduced': False, 'tried': tried}


if __name__ == '__main__':
    print(json.dumps(search(None, sys.argv[1] if len(sys.argv) > 1 else 'quick'),
                     indent=1, default=str))
