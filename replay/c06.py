"""Replay / bounded stand-in for C06 (and the consumer side of C10 / C12):
writes of a consumer's allocations racing at transaction granularity."""
import json
import os
import sys

sys.path.insert(0, os.path.dirname(os.path.abspath(__file__)))
from harness import Placement      # noqa: E402
import corpus                      # noqa: E402
from corpus import RP1, RP2, C1, C2, AGG, ADMIN   # noqa: E402

V = '1.38'
NEWC = 'dddddddd-dddd-4ddd-8ddd-dddddddddddd'


def body(amount, gen, rp=RP1, klass='VCPU'):
    return {'allocations': {rp: {'resources': {klass: amount}}} if amount else {},
            'project_id': 'proj', 'user_id': 'user',
            'consumer_generation': gen, 'consumer_type': 'INSTANCE'}


def allocs_of(p, c):
    r = p.req('GET', '/allocations/%s' % c, version=V, **ADMIN)
    return r.json


def _interpose(owner, name, action, when='before', is_classmethod=False):
    raw = owner.__dict__[name] if isinstance(owner, type) else getattr(owner, name)
    fn = raw.__func__ if isinstance(raw, (classmethod, staticmethod)) else raw
    state = {'done': False}

    def wrapped(*a, **k):
        if not state['done'] and when == 'before':
            state['done'] = True
            state['result'] = action()
        try:
            return fn(*a, **k)
        except Exception:
            if not state['done'] and when == 'on_error':
                state['done'] = True
                state['result'] = action()
            raise
    new = classmethod(wrapped) if isinstance(raw, classmethod) else (
        staticmethod(wrapped) if isinstance(raw, staticmethod) else wrapped)
    setattr(owner, name, new)
    return raw, state


def scenarios():
    from placement.handlers import allocation as ah
    from placement.objects import consumer as consumer_obj
    out = []

    # S1: two writers carrying the same generation for an existing consumer;
    # the second commits between the first one's consumer check and its write
    def s1(p):
        g = corpus.consumer_generation(p)
        other = lambda: p.req('PUT', '/allocations/' + C1, body(4, g),
                              version=V, **ADMIN).status_int
        raw, st = _interpose(ah, '_resource_providers_by_uuid', other)
        try:
            r = p.req('PUT', '/allocations/' + C1, body(1, g), version=V, **ADMIN)
        finally:
            ah._resource_providers_by_uuid = raw
        a = allocs_of(p, C1)
        bad = []
        if st.get('result') == 204:
            if r.status_int != 409:
                bad.append('second writer with the same generation answered %d'
                           % r.status_int)
            if a['allocations'][RP1]['resources'].get('VCPU') != 4:
                bad.append('allocations of the committed writer were replaced')
            if a['consumer_generation'] != g + 1:
                bad.append('consumer generation is %s, expected %s'
                           % (a['consumer_generation'], g + 1))
        return bad, 'PUT(g) checks the consumer; PUT(g) commits; first PUT writes'
    out.append(('same generation, existing consumer', s1))

    # S2: both create the consumer (generation null); loser must get 409
    def s2(p):
        other = lambda: p.req('PUT', '/allocations/' + NEWC, body(4, None),
                              version=V, **ADMIN).status_int
        raw, st = _interpose(consumer_obj.Consumer, 'get_by_uuid', other,
                             when='on_error')
        try:
            r = p.req('PUT', '/allocations/' + NEWC, body(1, None),
                      version=V, **ADMIN)
        finally:
            consumer_obj.Consumer.get_by_uuid = raw
        a = allocs_of(p, NEWC)
        bad = []
        if st.get('result') == 204:
            if r.status_int != 409:
                bad.append('writer carrying null for a consumer created in the '
                           'meantime answered %d' % r.status_int)
            if a['allocations'].get(RP1, {}).get('resources', {}).get('VCPU') != 4:
                bad.append('allocations of the committed writer were replaced')
        return bad, ('PUT(null) finds no consumer; PUT(null) creates it and '
                     'commits; first PUT continues')
    out.append(('creation race, null generation', s2))

    # S3: a stale emptying write (PUT {} / POST entry) after another commit
    def s3(p):
        g = corpus.consumer_generation(p)
        other = lambda: p.req('PUT', '/allocations/' + C1,
                              body(3, g, klass='DISK_GB'), version=V,
                              **ADMIN).status_int
        from placement.objects import allocation as alloc_obj
        raw, st = _interpose(alloc_obj, 'get_all_by_consumer_id', other)
        try:
            r = p.req('PUT', '/allocations/' + C1, body(0, g), version=V, **ADMIN)
        finally:
            alloc_obj.get_all_by_consumer_id = raw
        a = allocs_of(p, C1)
        bad = []
        if st.get('result') == 204:
            if r.status_int != 409:
                bad.append('stale emptying write answered %d' % r.status_int)
            if not a['allocations']:
                bad.append('allocations committed by the other writer were wiped')
        return bad, 'PUT {} (g) checks the consumer; PUT(g) commits; the emptying write runs'
    out.append(('stale emptying write', s3))

    # S4: sequential stale generation
    def s4(p):
        g = corpus.consumer_generation(p)
        bad = []
        for stale in (None, g - 1, g + 1):
            r = p.req('PUT', '/allocations/' + C1, body(1, stale), version=V, **ADMIN)
            if r.status_int != 409:
                bad.append('generation %r accepted (%d) for a consumer at %d'
                           % (stale, r.status_int, g))
        r = p.req('PUT', '/allocations/' + NEWC, body(1, 0), version=V, **ADMIN)
        if r.status_int != 409:
            bad.append('generation 0 accepted for a consumer that does not exist')
        return bad, 'sequential'
    out.append(('stale generations, sequential', s4))

    # S5: two intervening writes; the generation must not go down
    def s5(p):
        g = corpus.consumer_generation(p)

        def other():
            a = p.req('PUT', '/allocations/' + C1, body(4, g), version=V, **ADMIN)
            b = p.req('PUT', '/allocations/' + C1, body(5, g + 1), version=V, **ADMIN)
            return (a.status_int, b.status_int)
        raw, st = _interpose(ah, '_resource_providers_by_uuid', other)
        try:
            r = p.req('PUT', '/allocations/' + C1, body(1, g), version=V, **ADMIN)
        finally:
            ah._resource_providers_by_uuid = raw
        a = allocs_of(p, C1)
        bad = []
        if st.get('result') == (204, 204):
            if r.status_int != 409:
                bad.append('writer two generations behind answered %d' % r.status_int)
            if a['consumer_generation'] < g + 2:
                bad.append('consumer generation went from %d to %d'
                           % (g + 2, a['consumer_generation']))
        return bad, 'PUT(g) checks; PUT(g) and PUT(g+1) commit; first PUT writes'
    out.append(('two generations behind', s5))
    return out


def run():
    tried = 0
    for name, fn in scenarios():
        with Placement() as p:
            corpus.prepare(p)
            tried += 1
            bad, schedule = fn(p)
            if bad:
                return {'reproduced': True, 'tried': tried, 'witness': {
                    'scenario': name, 'schedule': schedule, 'observed': bad}}
    return {'reproduced': False, 'tried': tried}


if __name__ == '__main__':
    print(json.dumps(run(), indent=1, default=str))
