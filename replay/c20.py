"""Replay / bounded stand-in for C20 on the real WSGI stack: for every
topology, query, microversion, randomisation setting and limit 1 .. M+1 the
limited answer has min(N, M) distinct allocation requests, all members of the
unlimited answer, with summaries for every provider they name; without
randomisation the answer is a stable prefix-ordered list, with it the
unlimited answer is a permutation."""
import json
import os
import sys

sys.path.insert(0, os.path.dirname(os.path.abspath(__file__)))
from harness import Placement      # noqa: E402
import cands                       # noqa: E402


def check_one(p_det, p_rnd, query, minor, seeds):
    """-> (tried, witness or None)"""
    tried = 0
    r = cands.get(p_det, query, minor)
    if r.status_int != 200:
        return 0, None
    full = [cands.canon(a) for a in r.json['allocation_requests']]
    m = len(full)
    fullset = set(full)

    def bad(what, **kw):
        return dict(kw, query=query, microversion='1.%d' % minor, M=m,
                    observed=what)
    # below 1.34 the mappings are not rendered: two distinct (allocations,
    # mappings) combinations may then look alike, so answers are compared as
    # multisets there and as sets from 1.34
    import collections
    fullbag = collections.Counter(full)
    if minor >= 34 and len(fullset) != m:
        return 1, bad('the unlimited answer contains duplicates')
    r2 = cands.get(p_det, query, minor)
    tried += 2
    if [cands.canon(a) for a in r2.json['allocation_requests']] != full:
        return tried, bad('two identical requests (randomisation off) differ')
    if minor < 16:
        return tried, None
    for randomize, p in ((False, p_det), (True, p_rnd)):
        for rep in range(seeds if randomize else 1):
            ru = cands.get(p, query, minor)
            tried += 1
            got = [cands.canon(a) for a in ru.json['allocation_requests']]
            if sorted(got) != sorted(full):
                return tried, bad('unlimited answer is not a permutation of '
                                  'the full set', randomize=randomize,
                                  got=len(got))
            for n in range(1, m + 2):
                rl = cands.get(p, query, minor, limit=n)
                tried += 1
                if rl.status_int != 200:
                    return tried, bad('status %d' % rl.status_int, limit=n)
                areqs = rl.json['allocation_requests']
                got = [cands.canon(a) for a in areqs]
                want = min(n, m)
                distinct = len(set(got)) if minor >= 34 else len(got)
                if collections.Counter(got) - fullbag:
                    return tried, bad('limit=%d returned a request more often '
                                      'than the unlimited answer' % n,
                                      limit=n, randomize=randomize)
                if len(got) != want or distinct != want:
                    return tried, bad(
                        'limit=%d returned %d requests (%d distinct), expected'
                        ' %d' % (n, len(got), len(set(got)), want),
                        limit=n, randomize=randomize)
                extra = [g for g in got if g not in fullset]
                if extra:
                    return tried, bad('limit=%d returned a request that is '
                                      'not in the unlimited answer' % n,
                                      limit=n, randomize=randomize,
                                      request=extra[0])
                if not randomize and got != full[:want]:
                    return tried, bad('limited answer is not the prefix of the'
                                      ' unlimited one (randomisation off)',
                                      limit=n)
                sums = set(rl.json['provider_summaries'])
                for a in areqs:
                    missing = cands.providers_named(a) - sums
                    if missing:
                        return tried, bad(
                            'limit=%d: no provider summary for %s named by a '
                            'returned request' % (n, sorted(missing)),
                            limit=n, randomize=randomize)
    return tried, None


def search(model=None, seeds=5, minors=(10, 16, 28, 29, 39)):
    tried = 0
    for tname, topo in cands.TOPOLOGIES:
        with Placement() as p_det:
            cands.Builder(p_det).__class__  # noqa
            b = cands.Builder(p_det)
            topo(b)
            # the randomising service shares the database: only the option
            # differs
            p_det.cf.config(group='placement',
                            randomize_allocation_candidates=False)
            for query, minq in cands.QUERIES:
                for minor in minors:
                    if minor < minq:
                        continue
                    t, w = check_one(p_det, _Rnd(p_det), query, minor, seeds)
                    tried += t
                    if w:
                        w['topology'] = tname
                        return {'reproduced': True, 'tried': tried,
                                'witness': w}
    return {'reproduced': False, 'tried': tried}


class _Rnd(object):
    """the same service with randomize_allocation_candidates switched on for
    the duration of each request"""

    def __init__(self, p):
        self.p = p

    def req(self, *a, **k):
        self.p.cf.config(group='placement',
                         randomize_allocation_candidates=True)
        try:
            return self.p.req(*a, **k)
        finally:
            self.p.cf.config(group='placement',
                             randomize_allocation_candidates=False)


if __name__ == '__main__':
    print(json.dumps(search(), indent=1, default=str))
