"""Valid sample requests for every operation of the real route table, with
the state they need.  prepare(p) builds the state as admin/service; sample(op,
minor) returns (method, path, body or None, query string) valid at 1.<minor>.
"""
import uuid as uuidlib

RP1 = '11111111-1111-4111-8111-111111111111'
RP2 = '22222222-2222-4222-8222-222222222222'
RPX = '33333333-3333-4333-8333-333333333333'     # created by POST samples
C1 = 'aaaaaaaa-aaaa-4aaa-8aaa-aaaaaaaaaaaa'
C2 = 'bbbbbbbb-bbbb-4bbb-8bbb-bbbbbbbbbbbb'
AGG = 'cccccccc-cccc-4ccc-8ccc-cccccccccccc'
ADMIN = dict(token='admin', roles='admin,service')


def prepare(p):
    """State: RP1 (VCPU 16, DISK_GB 100, trait, aggregate, generation g),
    RP2 child of RP1 (empty), consumer C1 holding 2 VCPU on RP1, custom class
    CUSTOM_X and trait CUSTOM_T."""
    v = '1.39'
    r = p.req('POST', '/resource_providers', {'name': 'rp1', 'uuid': RP1}, version=v, **ADMIN)
    assert r.status_int == 200, r.text
    r = p.req('POST', '/resource_providers', {'name': 'rp2', 'uuid': RP2, 'parent_provider_uuid': RP1}, version=v, **ADMIN)
    assert r.status_int == 200, r.text
    r = p.req('PUT', '/resource_classes/CUSTOM_X', version=v, **ADMIN)
    r = p.req('PUT', '/traits/CUSTOM_T', version=v, **ADMIN)
    r = p.req('PUT', '/resource_providers/%s/inventories' % RP1, {
        'resource_provider_generation': 0,
        'inventories': {'VCPU': {'total': 16}, 'DISK_GB': {'total': 100}}}, version=v, **ADMIN)
    assert r.status_int == 200, r.text
    r = p.req('PUT', '/resource_providers/%s/traits' % RP1, {
        'resource_provider_generation': 1, 'traits': ['CUSTOM_T']}, version=v, **ADMIN)
    assert r.status_int == 200, r.text
    r = p.req('PUT', '/resource_providers/%s/aggregates' % RP1, {
        'resource_provider_generation': 2, 'aggregates': [AGG]}, version=v, **ADMIN)
    assert r.status_int == 200, r.text
    r = p.req('PUT', '/allocations/%s' % C1, {
        'allocations': {RP1: {'resources': {'VCPU': 2}}}, 'project_id': 'proj',
        'user_id': 'user', 'consumer_generation': None,
        'consumer_type': 'INSTANCE'}, version=v, **ADMIN)
    assert r.status_int == 204, r.text


def rp_generation(p, rp=RP1):
    r = p.req('GET', '/resource_providers/%s' % rp, version='1.39', **ADMIN)
    return r.json['generation']


def consumer_generation(p, c=C1):
    r = p.req('GET', '/allocations/%s' % c, version='1.39', **ADMIN)
    return r.json.get('consumer_generation')


def alloc_body(p, minor, consumer, amount=1):
    if minor < 12:
        b = {'allocations': [{'resource_provider': {'uuid': RP1},
                              'resources': {'VCPU': amount}}]}
        if minor >= 8:
            b.update(project_id='proj', user_id='user')
        return b
    b = {'allocations': {RP1: {'resources': {'VCPU': amount}}},
         'project_id': 'proj', 'user_id': 'user'}
    if minor >= 28:
        b['consumer_generation'] = consumer_generation(p, consumer)
    if minor >= 38:
        b['consumer_type'] = 'INSTANCE'
    return b


def sample(p, method, route, minor):
    """(path, body, query) for a request that an authorised caller could
    successfully make at microversion 1.<minor> in the prepared state."""
    g = rp_generation(p)
    path = route.replace('{uuid}', RP1).replace('{consumer_uuid}', C1)
    body, query = None, ''
    key = (method, route)
    if key == ('POST', '/resource_classes'):
        body = {'name': 'CUSTOM_NEW'}
    elif route == '/resource_classes/{name}':
        path = route.replace('{name}', 'CUSTOM_X')
        if method == 'PUT' and minor < 7:
            body = {'name': 'CUSTOM_Y'}
    elif key == ('POST', '/resource_providers'):
        body = {'name': 'rpx', 'uuid': RPX}
    elif key == ('PUT', '/resource_providers/{uuid}'):
        body = {'name': 'rp1-renamed'}
    elif key == ('DELETE', '/resource_providers/{uuid}'):
        path = route.replace('{uuid}', RP2)
    elif key == ('POST', '/resource_providers/{uuid}/inventories'):
        body = {'resource_class': 'MEMORY_MB', 'total': 1024}
    elif key == ('PUT', '/resource_providers/{uuid}/inventories'):
        body = {'resource_provider_generation': g,
                'inventories': {'VCPU': {'total': 32}, 'DISK_GB': {'total': 100}}}
    elif route == '/resource_providers/{uuid}/inventories/{resource_class}':
        path = path.replace('{resource_class}', 'DISK_GB')
        if method == 'PUT':
            body = {'resource_provider_generation': g, 'total': 200}
    elif key == ('PUT', '/resource_providers/{uuid}/aggregates'):
        body = {'resource_provider_generation': g, 'aggregates': [AGG]} \
            if minor >= 19 else [AGG]
    elif key == ('POST', '/allocations'):
        body = {C2: alloc_body(p, max(minor, 13), C2)}
        body[C2].pop('consumer_generation', None)
        if minor >= 28:
            body[C2]['consumer_generation'] = None
    elif key == ('PUT', '/allocations/{consumer_uuid}'):
        body = alloc_body(p, minor, C1, 3)
    elif key == ('GET', '/allocation_candidates'):
        query = 'resources=VCPU:1'
    elif route == '/traits/{name}':
        path = route.replace('{name}', 'CUSTOM_T2' if method == 'PUT' else 'CUSTOM_T')
        if method == 'DELETE':
            path = route.replace('{name}', 'CUSTOM_UNUSED')
    elif key == ('PUT', '/resource_providers/{uuid}/traits'):
        body = {'resource_provider_generation': g, 'traits': ['CUSTOM_T']}
    elif key == ('GET', '/usages'):
        query = 'project_id=proj'
    elif key == ('POST', '/reshaper'):
        body = {'inventories': {RP1: {'resource_provider_generation': g,
                                      'inventories': {'VCPU': {'total': 16},
                                                      'DISK_GB': {'total': 100}}}},
                'allocations': {C1: dict(alloc_body(p, max(minor, 28), C1, 2))}}
        body['allocations'][C1].pop('consumer_type', None)
        if minor >= 38:
            body['allocations'][C1]['consumer_type'] = 'INSTANCE'
    return path, body, query


def min_minor(p, method, route):
    """Smallest minor version at which the sample request succeeds for an
    authorised caller (None if it never does) -- measured, not assumed."""
    return None


def alloc_body_old_list():
    return {'allocations': [{'resource_provider': {'uuid': RP1},
                             'resources': {'VCPU': 1}}]}


def alloc_body_versioned(p, minor, consumer, fmt='dict'):
    """A PUT /allocations body in the dict format with exactly the fields
    version 1.<minor> requires (dict format is accepted from 1.12)."""
    b = {'allocations': {RP1: {'resources': {'VCPU': 1}}},
         'project_id': 'proj', 'user_id': 'user'}
    if minor >= 28:
        b['consumer_generation'] = consumer_generation(p, consumer)
    if minor >= 38:
        b['consumer_type'] = 'INSTANCE'
    return b
