"""Replay / bounded stand-in for C05: stale provider generations, sequentially
and under transaction-granularity races emulated by interposing requests at
the point where the request under test opens its write transaction."""
import json
import os
import sys

sys.path.insert(0, os.path.dirname(os.path.abspath(__file__)))
from harness import Placement      # noqa: E402
import corpus                      # noqa: E402
from corpus import RP1, RP2, C1, C2, AGG, ADMIN   # noqa: E402

V = '1.39'
CORE = ('resource_providers', 'inventories', 'allocations', 'consumers',
        'resource_provider_traits', 'resource_provider_aggregates')


def guarded_requests(g):
    """(name, method, url, body) carrying provider generation g."""
    base = '/resource_providers/%s' % RP1
    return [
        ('PUT inventories', 'PUT', base + '/inventories',
         {'resource_provider_generation': g,
          'inventories': {'VCPU': {'total': 32}, 'DISK_GB': {'total': 100}}}),
        ('PUT inventory', 'PUT', base + '/inventories/DISK_GB',
         {'resource_provider_generation': g, 'total': 200}),
        ('PUT traits', 'PUT', base + '/traits',
         {'resource_provider_generation': g, 'traits': []}),
        ('PUT aggregates', 'PUT', base + '/aggregates',
         {'resource_provider_generation': g, 'aggregates': []}),
        ('POST reshaper', 'POST', '/reshaper',
         {'inventories': {RP1: {'resource_provider_generation': g,
                                'inventories': {'VCPU': {'total': 16},
                                                'DISK_GB': {'total': 50}}}},
          'allocations': {}}),
    ]


def bump(p):
    g = corpus.rp_generation(p)
    r = p.req('PUT', '/resource_providers/%s/traits' % RP1,
              {'resource_provider_generation': g,
               'traits': [] if g % 2 == 0 else ['CUSTOM_T']},
              version=V, **ADMIN)
    return r.status_int


def fresh_provider(p, name, uuid):
    r = p.req('POST', '/resource_providers', {'name': name, 'uuid': uuid},
              version=V, **ADMIN)
    assert r.status_int == 200


def stale_sequential():
    """Every guarded operation with every stale generation 0 .. g-1."""
    tried = 0
    with Placement() as p:
        corpus.prepare(p)
        g = corpus.rp_generation(p)
        for stale in range(0, g):
            for name, m, url, body in guarded_requests(stale):
                tried += 1
                before = p.dump(CORE)
                r = p.req(m, url, body, version=V, **ADMIN)
                after = p.dump(CORE)
                code = None
                try:
                    code = r.json['errors'][0].get('code')
                except Exception:
                    pass
                bad = []
                if r.status_int != 409 or code != 'placement.concurrent_update':
                    bad.append('answered %s %s' % (r.status_int, code))
                if before != after:
                    bad.append('state changed')
                if bad:
                    return {'reproduced': True, 'tried': tried, 'witness': {
                        'request': [m, url, body], 'provider_generation': g,
                        'observed': bad}}
        # a provider still at generation 0 with a stale... nothing stale there
    return {'reproduced': False, 'tried': tried}


def _interpose(target_mod, target_name, action):
    orig = getattr(target_mod, target_name)
    state = {'done': False}

    def wrapped(*a, **k):
        if not state['done']:
            state['done'] = True
            state['result'] = action()
        return orig(*a, **k)
    setattr(target_mod, target_name, wrapped)
    return orig, state


def races():
    """For each guarded operation R carrying generation g: another guarded
    write with g commits after R read the provider and before R's write
    transaction; R must be refused with 409 and change nothing.  A rename of
    the provider interposed after that must not make R succeed either."""
    from placement.objects import resource_provider as rp_obj
    tried = 0
    hooks = {'PUT inventories': '_set_inventory', 'PUT inventory': '_update_inventory',
             'PUT traits': '_set_traits', 'PUT aggregates': '_set_aggregates'}
    for variant in ('plain', 'rename-after'):
        for idx in range(4):
            with Placement() as p:
                corpus.prepare(p)
                g = corpus.rp_generation(p)
                name, m, url, body = guarded_requests(g)[idx]
                other = guarded_requests(g)[(idx + 1) % 4]

                def action():
                    r2 = p.req(other[1], other[2], other[3], version=V, **ADMIN)
                    out = [r2.status_int]
                    if variant == 'rename-after':
                        r3 = p.req('PUT', '/resource_providers/%s' % RP1,
                                   {'name': 'renamed'}, version=V, **ADMIN)
                        out.append(r3.status_int)
                    return out
                if variant == 'rename-after':
                    # the rename reads the provider before the competing write
                    # commits: interpose the competing write inside the rename
                    def action():       # noqa: F811
                        def inner():
                            r2 = p.req(other[1], other[2], other[3], version=V, **ADMIN)
                            return r2.status_int
                        o2, st2 = _interpose(rp_obj.ResourceProvider, '_update_in_db', inner)
                        # _update_in_db is reached through the class attribute
                        try:
                            r3 = p.req('PUT', '/resource_providers/%s' % RP1,
                                       {'name': 'renamed'}, version=V, **ADMIN)
                        finally:
                            rp_obj.ResourceProvider._update_in_db = o2
                        return [st2.get('result'), r3.status_int]
                orig, state = _interpose(rp_obj, hooks[name], action)
                try:
                    tried += 1
                    r = p.req(m, url, body, version=V, **ADMIN)
                finally:
                    setattr(rp_obj, hooks[name], orig)
                inter = state.get('result')
                if not inter or inter[0] not in (200, 204):
                    continue
                if r.status_int != 409:
                    return {'reproduced': True, 'tried': tried, 'witness': {
                        'request': [m, url, body], 'schedule':
                        '%s (generation %d) read the provider; then %s with the '
                        'same generation committed%s; then the write transaction '
                        'of the first request ran' % (
                            name, g, other[0], ' and a rename of the provider '
                            'that had read it earlier committed'
                            if variant == 'rename-after' else ''),
                        'interposed_status': inter,
                        'observed': 'answered %d instead of 409' % r.status_int}}
    return {'reproduced': False, 'tried': tried}


def replay(info, model):
    r = stale_sequential()
    if r['reproduced']:
        return r
    r2 = races()
    r2['tried'] += r['tried']
    return r2


if __name__ == '__main__':
    print(json.dumps(replay({}, {}), indent=1, default=str))
