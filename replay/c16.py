"""Replay for C16: the operation named by a failed obligation is issued on
the real WSGI stack by callers that the documented policy refuses; any answer
other than 403 / 404 / 405 / 406 / 415, or any change of stored state, is a
reproduced violation.  For rule mismatches the documented rule is overridden
to deny everybody and the authorised caller must then be refused."""
import json
import os
import sys

sys.path.insert(0, os.path.dirname(os.path.abspath(__file__)))
from harness import Placement      # noqa: E402
import corpus                      # noqa: E402

OK_REFUSALS = (403, 404, 405, 406, 415)
CALLERS = [('no roles', dict(token='user:proj', roles='')),
           ('reader other project', dict(token='user:other', roles='reader')),
           ('member', dict(token='user:proj', roles='member,reader'))]


def unauthorised(method, route, minors):
    found = []
    for minor in minors:
        with Placement() as p:
            corpus.prepare(p)
            path, body, query = corpus.sample(p, method, route, minor)
            url = path + ('?' + query if query else '')
            for who, cred in CALLERS:
                if route == '/usages' and who.startswith('reader'):
                    continue
                before = p.dump()
                r = p.req(method, url, body, version='1.%d' % minor, **cred)
                after = p.dump()
                bad = []
                if r.status_int not in OK_REFUSALS:
                    bad.append('status %d' % r.status_int)
                if before != after:
                    bad.append('stored state changed: %s' % [
                        t for t in before if before[t] != after[t]])
                if bad:
                    found.append({'caller': who, 'method': method, 'url': url,
                                  'microversion': '1.%d' % minor, 'body': body,
                                  'observed': bad})
                    return found
    return found


def rule_override(method, route, documented, minors):
    """Deny the documented rule for everybody: the operation must then be
    refused for admin/service."""
    found = []
    for minor in minors:
        with Placement(policy_rules={documented: '!'}) as p:
            # state is prepared with the service/admin token; operations whose
            # own rule is denied are skipped by prepare's asserts -> tolerate
            try:
                corpus.prepare(p)
            except AssertionError:
                pass
            path, body, query = corpus.sample(p, method, route, minor)
            url = path + ('?' + query if query else '')
            r = p.req(method, url, body, version='1.%d' % minor, **corpus.ADMIN)
            if r.status_int not in OK_REFUSALS:
                found.append({'override': {documented: '!'}, 'method': method,
                              'url': url, 'microversion': '1.%d' % minor,
                              'observed': 'admin+service answered %d although '
                                          'the documented rule denies everyone'
                                          % r.status_int})
                return found
    return found


def replay(info, model):
    method, route = info['operation'].split(' ', 1)
    minors = []
    try:
        minors.append(int((model or {}).get('microversion.minor')))
    except Exception:
        pass
    minors += [m for m in (39, 28, 12, 1) if m not in minors]
    if info.get('documented'):
        f = rule_override(method, route, info['documented'][0], minors[:2])
        if f:
            return {'reproduced': True, 'witness': f[0]}
    f = unauthorised(method, route, minors)
    if f:
        return {'reproduced': True, 'witness': f[0]}
    return {'reproduced': False, 'tried_minors': minors}


if __name__ == '__main__':
    print(json.dumps(replay({'operation': sys.argv[1]}, {}), indent=1))
