"""Shared state builders and helpers for the allocation-candidate replays
(C02, C03, C20): provider topologies built through the real API, a list of
queries, and canonical forms of allocation requests."""
import json

V = '1.39'
SHARE = 'MISC_SHARES_VIA_AGGREGATE'


def u(n):
    return '%08x-0000-4000-8000-%012x' % (n, n)


class Builder(object):
    def __init__(self, p):
        self.p = p
        self.names = {}

    def rp(self, name, parent=None, inv=None, traits=None, aggs=None):
        n = len(self.names) + 1
        uu = u(n)
        body = {'name': name, 'uuid': uu}
        if parent:
            body['parent_provider_uuid'] = self.names[parent]
        r = self.p.req('POST', '/resource_providers', body, version=V)
        assert r.status_int == 200, r.text
        self.names[name] = uu
        gen = 0
        if inv:
            invs = {}
            for rc, spec in inv.items():
                invs[rc] = spec if isinstance(spec, dict) else {'total': spec}
            r = self.p.req('PUT', '/resource_providers/%s/inventories' % uu,
                           {'resource_provider_generation': gen,
                            'inventories': invs}, version=V)
            assert r.status_int == 200, r.text
            gen += 1
        if traits:
            for t in traits:
                if t.startswith('CUSTOM_'):
                    self.p.req('PUT', '/traits/' + t, version=V)
            r = self.p.req('PUT', '/resource_providers/%s/traits' % uu,
                           {'resource_provider_generation': gen,
                            'traits': list(traits)}, version=V)
            assert r.status_int == 200, r.text
            gen += 1
        if aggs:
            r = self.p.req('PUT', '/resource_providers/%s/aggregates' % uu,
                           {'resource_provider_generation': gen,
                            'aggregates': [u(0xA00 + a) for a in aggs]},
                           version=V)
            assert r.status_int == 200, r.text
        return uu

    def use(self, consumer_no, allocs):
        """allocs: {provider name: {class: amount}}"""
        body = {'allocations': {self.names[k]: {'resources': v}
                                for k, v in allocs.items()},
                'project_id': 'p', 'user_id': 'u', 'consumer_generation': None,
                'consumer_type': 'INSTANCE'}
        r = self.p.req('PUT', '/allocations/' + u(0xC00 + consumer_no), body,
                       version=V)
        assert r.status_int == 204, r.text


def topo_flat(b):
    b.rp('cn0', inv={'VCPU': 8, 'MEMORY_MB': 1024, 'DISK_GB': 100})
    b.rp('cn1', inv={'VCPU': {'total': 8, 'reserved': 2, 'allocation_ratio': 1.5},
                     'MEMORY_MB': {'total': 1024, 'reserved': 100,
                                   'step_size': 32, 'min_unit': 64},
                     'DISK_GB': {'total': 100, 'reserved': 10,
                                 'allocation_ratio': 0.75}})
    b.rp('cn2', inv={'VCPU': {'total': 4, 'max_unit': 2, 'allocation_ratio': 16.0},
                     'MEMORY_MB': 1024, 'DISK_GB': {'total': 100, 'max_unit': 12}})
    b.use(1, {'cn0': {'VCPU': 7}})
    b.use(2, {'cn1': {'VCPU': 3, 'DISK_GB': 50}})


def topo_nested(b):
    for i in range(2):
        cn = 'cn%d' % i
        b.rp(cn, inv={'MEMORY_MB': 2048, 'DISK_GB': 100})
        for k in range(2):
            b.rp('%s_numa%d' % (cn, k), parent=cn, inv={'VCPU': 4})
            b.rp('%s_pf%d' % (cn, k), parent='%s_numa%d' % (cn, k),
                 inv={'SRIOV_NET_VF': 2}, traits=['CUSTOM_T%d' % k])
    b.rp('flat', inv={'VCPU': 8, 'MEMORY_MB': 1024, 'DISK_GB': 50})


def topo_sharing(b):
    for i in range(2):
        b.rp('cn%d' % i, inv={'VCPU': 8, 'MEMORY_MB': 1024}, aggs=[1])
    b.rp('cn_local', inv={'VCPU': 8, 'MEMORY_MB': 1024, 'DISK_GB': 20},
         aggs=[1])
    b.rp('ss', inv={'DISK_GB': 1000}, traits=[SHARE], aggs=[1])


def topo_mixed(b):
    b.rp('cn0', inv={'MEMORY_MB': 2048}, aggs=[1])
    b.rp('cn0_numa0', parent='cn0', inv={'VCPU': 4})
    b.rp('cn0_numa1', parent='cn0', inv={'VCPU': 4, 'DISK_GB': 10})
    b.rp('cn1', inv={'VCPU': {'total': 8, 'reserved': 1, 'allocation_ratio': 2.5},
                     'MEMORY_MB': 1024, 'DISK_GB': 40}, aggs=[1, 2])
    b.rp('cn2', inv={'VCPU': 2, 'MEMORY_MB': 512}, aggs=[2])
    b.rp('ss1', inv={'DISK_GB': 500}, traits=[SHARE], aggs=[1])
    b.rp('ss2', inv={'DISK_GB': 500}, traits=[SHARE, 'CUSTOM_T0'], aggs=[2])
    b.use(1, {'cn1': {'VCPU': 6}})


TOPOLOGIES = [('flat', topo_flat), ('nested', topo_nested),
              ('sharing', topo_sharing), ('mixed', topo_mixed)]

# (query string, minimal minor)
QUERIES = [
    ('resources=VCPU:1', 10),
    ('resources=VCPU:1,MEMORY_MB:64', 10),
    ('resources=VCPU:2,MEMORY_MB:64,DISK_GB:10', 10),
    ('resources=VCPU:1&resources1=DISK_GB:5&group_policy=none', 25),
    ('resources1=VCPU:1&resources2=VCPU:1&group_policy=none', 25),
    ('resources1=VCPU:1&resources2=VCPU:1&group_policy=isolate', 25),
    ('resources=MEMORY_MB:64&resources1=VCPU:1&resources2=SRIOV_NET_VF:1'
     '&group_policy=none', 25),
    ('resources=VCPU:1,DISK_GB:5&required=!CUSTOM_T0', 22),
]


def canon(areq):
    return json.dumps(areq, sort_keys=True)


def providers_named(areq):
    out = set()
    al = areq['allocations']
    if isinstance(al, dict):
        out |= set(al)
    else:
        out |= {a['resource_provider']['uuid'] for a in al}
    for v in (areq.get('mappings') or {}).values():
        out |= set(v)
    return out


def get(p, query, minor, limit=None):
    q = '/allocation_candidates?' + query
    if limit is not None:
        q += '&limit=%d' % limit
    return p.req('GET', q, version='1.%d' % minor)
