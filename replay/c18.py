"""Replay / bounded stand-in for C18: every request of a write corpus is cut
before each SQL statement it executes (the transaction in flight rolls back,
as when the process dies); the surviving state must satisfy capacity safety,
referential integrity and the forest property, and its invariant-bearing
tables must equal either the state before the request or the state after the
complete request."""
import json
import os
import sys

sys.path.insert(0, os.path.dirname(os.path.abspath(__file__)))
from harness import Placement      # noqa: E402
import corpus                      # noqa: E402
from corpus import RP1, RP2, RPX, C1, C2, AGG, ADMIN   # noqa: E402
import c08                         # noqa: E402
import c09                         # noqa: E402

V = '1.39'
CORE = ('resource_providers', 'inventories', 'allocations',
        'resource_provider_traits', 'resource_provider_aggregates')
RP3 = '44444444-4444-4444-8444-444444444444'


class Crash(BaseException):
    pass


def extra_state(p):
    """a second tree and a second consumer so that multi-provider / multi-
    consumer writes and subtree moves have something to act on"""
    r = p.req('POST', '/resource_providers', {'name': 'rp3', 'uuid': RP3}, version=V)
    assert r.status_int == 200, r.text
    r = p.req('PUT', '/resource_providers/%s/inventories' % RP3, {
        'resource_provider_generation': 0,
        'inventories': {'VCPU': {'total': 8}, 'DISK_GB': {'total': 50}}}, version=V)
    assert r.status_int == 200, r.text
    r = p.req('PUT', '/resource_providers/%s/inventories' % RP2, {
        'resource_provider_generation': 0,
        'inventories': {'VCPU': {'total': 4}}}, version=V)
    assert r.status_int == 200, r.text


def requests(p):
    g = lambda u=RP1: corpus.rp_generation(p, u)
    cg = lambda c=C1: corpus.consumer_generation(p, c)
    alloc = lambda rp_res, gen: {
        'allocations': {u: {'resources': r} for u, r in rp_res.items()},
        'project_id': 'proj', 'user_id': 'user', 'consumer_generation': gen,
        'consumer_type': 'INSTANCE'}
    return [
        ('multi-provider PUT allocations (new consumer, new project)', 'PUT',
         '/allocations/' + C2, lambda: dict(alloc(
             {RP1: {'VCPU': 1, 'DISK_GB': 5}, RP3: {'VCPU': 2}}, None),
             project_id='newproj', user_id='newuser', consumer_type='NEWTYPE')),
        ('PUT allocations replacing existing ones', 'PUT', '/allocations/' + C1,
         lambda: alloc({RP3: {'VCPU': 1}, RP2: {'VCPU': 1}}, cg())),
        ('multi-consumer POST allocations (move)', 'POST', '/allocations',
         lambda: {C1: alloc({}, cg()), C2: alloc({RP1: {'VCPU': 2}}, None)}),
        ('DELETE allocations', 'DELETE', '/allocations/' + C1, lambda: None),
        ('PUT inventories (replace set)', 'PUT',
         '/resource_providers/%s/inventories' % RP3,
         lambda: {'resource_provider_generation': g(RP3),
                  'inventories': {'VCPU': {'total': 16}, 'MEMORY_MB': {'total': 64}}}),
        ('DELETE inventories', 'DELETE',
         '/resource_providers/%s/inventories' % RP3, lambda: None),
        ('PUT traits (replace set)', 'PUT', '/resource_providers/%s/traits' % RP1,
         lambda: {'resource_provider_generation': g(),
                  'traits': ['HW_CPU_X86_AVX', 'HW_CPU_X86_AVX2']}),
        ('PUT aggregates (replace set, new aggregate)', 'PUT',
         '/resource_providers/%s/aggregates' % RP1,
         lambda: {'resource_provider_generation': g(), 'aggregates': [
             'dddddddd-0000-4ddd-8ddd-dddddddddddd',
             'eeeeeeee-0000-4eee-8eee-eeeeeeeeeeee']}),
        ('POST reshaper (move inventory and allocations to the child)', 'POST',
         '/reshaper', lambda: {
             'inventories': {
                 RP1: {'resource_provider_generation': g(),
                       'inventories': {'DISK_GB': {'total': 100}}},
                 RP2: {'resource_provider_generation': g(RP2),
                       'inventories': {'VCPU': {'total': 16}}}},
             'allocations': {C1: alloc({RP2: {'VCPU': 2}}, cg())}}),
        ('POST reshaper without allocations', 'POST', '/reshaper', lambda: {
            'inventories': {
                RP3: {'resource_provider_generation': g(RP3),
                      'inventories': {'VCPU': {'total': 8}}},
                RP2: {'resource_provider_generation': g(RP2),
                      'inventories': {'VCPU': {'total': 4},
                                      'DISK_GB': {'total': 50}}}},
            'allocations': {}}),
        ('PUT provider: move a subtree to another tree', 'PUT',
         '/resource_providers/' + RP1,
         lambda: {'name': 'rp1', 'parent_provider_uuid': RP3}),
        ('PUT provider: detach a child', 'PUT', '/resource_providers/' + RP2,
         lambda: {'name': 'rp2', 'parent_provider_uuid': None}),
        ('POST provider under a parent', 'POST', '/resource_providers',
         lambda: {'name': 'rpx', 'uuid': RPX, 'parent_provider_uuid': RP2}),
        ('DELETE provider with inventory', 'DELETE', '/resource_providers/' + RP3,
         lambda: None),
        ('PUT resource class', 'PUT', '/resource_classes/CUSTOM_NEW', lambda: None),
        ('PUT trait', 'PUT', '/traits/CUSTOM_NEW', lambda: None),
    ]


def core(p):
    return p.dump(CORE)


def capacity_ok(p, cols):
    d = p.dump(('inventories', 'allocations'))
    inv = [dict(zip(cols['inventories'], r)) for r in d['inventories']]
    al = [dict(zip(cols['allocations'], r)) for r in d['allocations']]
    used = {}
    for a in al:
        k = (a['resource_provider_id'], a['resource_class_id'])
        used[k] = used.get(k, 0) + a['used']
    for i in inv:
        k = (i['resource_provider_id'], i['resource_class_id'])
        if used.get(k, 0) > (i['total'] - i['reserved']) * i['allocation_ratio']:
            return 'inventory %s over-committed: used %s' % (k, used[k])
    return None


def run_one(name, method, path, mk, crash_at, cols):
    """-> (core before, core after, statements executed, problem)"""
    import sqlalchemy as sa
    from placement import db_api
    with Placement() as p:
        corpus.prepare(p)
        extra_state(p)
        body = mk()
        before = core(p)
        eng = db_api.get_placement_engine()
        count = [0]

        def hook(conn, cursor, statement, parameters, context, executemany):
            count[0] += 1
            if crash_at is not None and count[0] == crash_at:
                raise Crash()
        sa.event.listen(eng, 'before_cursor_execute', hook)
        crashed = False
        try:
            r = p.req(method, path, body, version=V, **ADMIN)
            status = r.status_int
        except Crash:
            crashed = True
            status = None
        finally:
            sa.event.remove(eng, 'before_cursor_execute', hook)
        # whatever the dying process left open is rolled back
        try:
            from placement import db_api as _d
        except Exception:
            pass
        after = core(p)
        problem = None
        if crashed:
            problem = c08.dangling(p, cols) or \
                c09.check_forest(p, cols['resource_providers']) or \
                capacity_ok(p, cols)
        return before, after, count[0], status, problem


def search(r=None, tier='quick'):
    tried = 0
    with Placement() as p0:
        cols = c08.names(p0)
        corpus.prepare(p0)
        extra_state(p0)
        reqs = requests(p0)
    for name, method, path, mk in reqs:
        before, post, n, status, _ = run_one(name, method, path, mk, None, cols)
        tried += 1
        if status is None or status >= 300:
            return {'reproduced': True, 'tried': tried, 'witness': {
                'request': name, 'observed': 'the corpus request itself is '
                'refused (%s): corpus out of date' % status}}
        step = 1 if tier != 'quick' or n <= 40 else 2
        for k in range(1, n + 1, step):
            b2, after, _, st, problem = run_one(name, method, path, mk, k, cols)
            tried += 1
            if problem:
                return {'reproduced': True, 'tried': tried, 'witness': {
                    'request': name, 'crash_before_statement': k, 'of': n,
                    'observed': problem}}
            if after != before and after != post:
                diff = [t for t in CORE if after[t] != before[t] and
                        after[t] != post[t]]
                return {'reproduced': True, 'tried': tried, 'witness': {
                    'request': name, 'crash_before_statement': k, 'of': n,
                    'observed': 'the surviving rows of %s are neither those '
                                'before the request nor those after it'
                                % (diff or list(CORE))}}
    return {'reproduced': False, 'tried': tried}


if __name__ == '__main__':
    print(json.dumps(search(None, sys.argv[1] if len(sys.argv) > 1 else 'quick'),
                     indent=1, default=str))
