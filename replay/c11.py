"""Replay / bounded stand-in for C11: random and directed request histories
against a reference model of the documented meaning of every write; after
every request all read views must report exactly the model's state."""
import json
import os
import random
import sys

sys.path.insert(0, os.path.dirname(os.path.abspath(__file__)))
from harness import Placement      # noqa: E402

V = '1.39'
RPS = ['%08x-0000-4000-8000-%012x' % (0xB00 + i, i) for i in range(3)]
CONS = ['%08x-0000-4000-8000-%012x' % (0xCB0 + i, i) for i in range(3)]
AGGS = ['%08x-0000-4000-8000-%012x' % (0xAB0 + i, i) for i in range(2)]
CLASSES = ['VCPU', 'DISK_GB', 'MEMORY_MB']
TRAITS = ['HW_CPU_X86_AVX', 'CUSTOM_M1', 'CUSTOM_M2']
PROJECTS = ['p1', 'p2']
USERS = ['u1', 'u2']
TYPES = ['INSTANCE', 'MIGRATION']
INV_DEFAULTS = {'reserved': 0, 'min_unit': 1, 'max_unit': 2147483647,
                'step_size': 1, 'allocation_ratio': 1.0}


class Model(object):
    def __init__(self):
        self.rp = {}       # uuid -> {'name', 'parent'}
        self.inv = {}      # uuid -> {rc: fields}
        self.traits = {}   # uuid -> set
        self.aggs = {}     # uuid -> set
        self.alloc = {}    # consumer -> {uuid: {rc: amount}}
        self.cons = {}     # consumer -> {'project', 'user', 'type'}

    def root(self, u):
        while self.rp[u]['parent'] is not None:
            u = self.rp[u]['parent']
        return u

    def usage(self, u):
        out = {}
        for c, per in self.alloc.items():
            for rc, a in per.get(u, {}).items():
                out[rc] = out.get(rc, 0) + a
        return out


def inv_full(d):
    out = dict(INV_DEFAULTS)
    out.update(d)
    return out


def gen(p, u):
    r = p.req('GET', '/resource_providers/' + u, version=V)
    return r.json['generation'] if r.status_int == 200 else 0


def cgen(p, c):
    r = p.req('GET', '/allocations/' + c, version=V)
    return r.json.get('consumer_generation')


def inv_body(rnd):
    d = {'total': rnd.choice([8, 16, 64])}
    if rnd.random() < 0.5:
        d['reserved'] = rnd.choice([0, 1, 2])
    if rnd.random() < 0.4:
        d['allocation_ratio'] = rnd.choice([1.0, 2.0, 1.5])
    if rnd.random() < 0.3:
        d['max_unit'] = rnd.choice([4, 8])
    if rnd.random() < 0.3:
        d['min_unit'] = rnd.choice([1, 2])
    if rnd.random() < 0.3:
        d['step_size'] = rnd.choice([1, 2])
    return d


def step(p, m, rnd, minor):
    """-> (request description, effect to apply to the model on success)"""
    v = '1.%d' % minor
    u = rnd.choice(RPS)
    c = rnd.choice(CONS)
    base = '/resource_providers/' + u
    k = rnd.randrange(12)
    if k == 0:
        parent = rnd.choice(RPS + [None, None])
        body = {'name': 'n' + u[:8], 'uuid': u, 'parent_provider_uuid': parent}

        def eff():
            m.rp[u] = {'name': body['name'], 'parent': parent}
            m.inv[u], m.traits[u], m.aggs[u] = {}, set(), set()
        return ('POST', '/resource_providers', body, v), eff
    if k == 1:
        name = 'r' + str(rnd.randrange(100))
        body = {'name': name, 'parent_provider_uuid': m.rp.get(u, {}).get('parent')}
        return ('PUT', base, body, v), lambda: m.rp[u].update(name=name)
    if k == 2:
        def eff():
            for x in (m.rp, m.inv, m.traits, m.aggs):
                x.pop(u, None)
        return ('DELETE', base, None, v), eff
    if k == 3:
        invs = {rc: inv_body(rnd) for rc in rnd.sample(CLASSES, rnd.randint(0, 3))}
        body = {'resource_provider_generation': gen(p, u), 'inventories': invs}
        return ('PUT', base + '/inventories', body, v), \
            lambda: m.inv.__setitem__(u, {rc: inv_full(d) for rc, d in invs.items()})
    if k == 4:
        rc = rnd.choice(CLASSES)
        d = inv_body(rnd)
        body = dict(d, resource_provider_generation=gen(p, u))
        return ('PUT', base + '/inventories/' + rc, body, v), \
            lambda: m.inv[u].__setitem__(rc, inv_full(d))
    if k == 5:
        rc = rnd.choice(CLASSES)
        return ('DELETE', base + '/inventories/' + rc, None, v), \
            lambda: m.inv[u].pop(rc)
    if k == 6:
        ts = rnd.sample(TRAITS, rnd.randint(0, 3))
        body = {'resource_provider_generation': gen(p, u), 'traits': ts}
        return ('PUT', base + '/traits', body, v), \
            lambda: m.traits.__setitem__(u, set(ts))
    if k == 7:
        ag = rnd.sample(AGGS, rnd.randint(0, 2))
        body = {'resource_provider_generation': gen(p, u), 'aggregates': ag}
        return ('PUT', base + '/aggregates', body, v), \
            lambda: m.aggs.__setitem__(u, set(ag))
    if k in (8, 9):
        alloc = {}
        for x in rnd.sample(RPS, rnd.randint(0, 2)):
            alloc[x] = {'resources': {rc: rnd.choice([1, 2, 4])
                                      for rc in rnd.sample(CLASSES, rnd.randint(1, 2))}}
        proj, user, typ = rnd.choice(PROJECTS), rnd.choice(USERS), rnd.choice(TYPES)
        body = {'allocations': alloc, 'project_id': proj, 'user_id': user,
                'consumer_generation': cgen(p, c)}
        if minor >= 38:
            body['consumer_type'] = typ

        def eff():
            if alloc:
                m.alloc[c] = {x: dict(d['resources']) for x, d in alloc.items()}
                old = m.cons.get(c, {})
                m.cons[c] = {'project': proj, 'user': user,
                             'type': typ if minor >= 38 else old.get('type')}
            else:
                m.alloc.pop(c, None)
                m.cons.pop(c, None)
        return ('PUT', '/allocations/' + c, body, v), eff
    if k == 10:
        def eff():
            m.alloc.pop(c, None)
            m.cons.pop(c, None)
        return ('DELETE', '/allocations/' + c, None, v), eff
    # reshaper: replace one provider's inventory, keep allocations
    invs = {rc: inv_body(rnd) for rc in rnd.sample(CLASSES, rnd.randint(1, 3))}
    allocs = {}
    for cc, per in m.alloc.items():
        allocs[cc] = {
            'allocations': {x: {'resources': r} for x, r in per.items()},
            'project_id': m.cons[cc]['project'], 'user_id': m.cons[cc]['user'],
            'consumer_generation': cgen(p, cc)}
        if m.cons[cc].get('type'):
            allocs[cc]['consumer_type'] = m.cons[cc]['type']
    body = {'inventories': {u: {'resource_provider_generation': gen(p, u),
                                'inventories': invs}},
            'allocations': allocs}
    return ('POST', '/reshaper', body, V), \
        lambda: m.inv.__setitem__(u, {rc: inv_full(d) for rc, d in invs.items()})


def compare(p, m):
    for u, pr in m.rp.items():
        base = '/resource_providers/' + u
        r = p.req('GET', base, version=V)
        if r.status_int != 200:
            return 'GET %s -> %d, the provider was created' % (base, r.status_int)
        j = r.json
        if (j['name'], j['parent_provider_uuid'], j['root_provider_uuid']) != \
                (pr['name'], pr['parent'], m.root(u)):
            return 'provider %s reported as %s, written %s (root %s)' % (
                u, (j['name'], j['parent_provider_uuid'], j['root_provider_uuid']),
                pr, m.root(u))
        got = p.req('GET', base + '/inventories', version=V).json['inventories']
        want = m.inv[u]
        g2 = {rc: {k: d[k] for k in d if k != 'resource_provider_generation'}
              for rc, d in got.items()}
        w2 = {rc: dict(d) for rc, d in want.items()}
        if g2 != w2:
            return 'inventories of %s reported as %s, written %s' % (u, g2, w2)
        got = set(p.req('GET', base + '/traits', version=V).json['traits'])
        if got != m.traits[u]:
            return 'traits of %s reported as %s, written %s' % (u, got, m.traits[u])
        got = set(p.req('GET', base + '/aggregates', version=V).json['aggregates'])
        if got != m.aggs[u]:
            return 'aggregates of %s reported as %s, written %s' % (u, got, m.aggs[u])
        got = p.req('GET', base + '/usages', version=V).json['usages']
        want = {rc: m.usage(u).get(rc, 0) for rc in m.inv[u]}
        if got != want:
            return 'usages of %s reported as %s, allocations add up to %s' % (u, got, want)
        got = p.req('GET', base + '/allocations', version=V).json['allocations']
        want = {c: {'resources': per[u]} for c, per in m.alloc.items() if u in per}
        g2 = {c: {'resources': d['resources']} for c, d in got.items()}
        if g2 != want:
            return 'allocations on %s reported as %s, written %s' % (u, g2, want)
    for u in RPS:
        if u not in m.rp and p.req('GET', '/resource_providers/' + u,
                                   version=V).status_int != 404:
            return 'provider %s still reported after its deletion' % u
    for c in CONS:
        j = p.req('GET', '/allocations/' + c, version=V).json
        want = m.alloc.get(c, {})
        got = {x: d['resources'] for x, d in j['allocations'].items()}
        if got != want:
            return 'allocations of %s reported as %s, written %s' % (c, got, want)
        if c in m.cons:
            w = m.cons[c]
            if (j.get('project_id'), j.get('user_id')) != (w['project'], w['user']):
                return 'consumer %s reported with project/user %s/%s, written %s/%s' % (
                    c, j.get('project_id'), j.get('user_id'), w['project'], w['user'])
            if w.get('type') and j.get('consumer_type') != w['type']:
                return 'consumer %s reported with type %s, written %s' % (
                    c, j.get('consumer_type'), w['type'])
    for proj in PROJECTS:
        for user in USERS + [None]:
            q = '/usages?project_id=' + proj + ('&user_id=' + user if user else '')
            got = p.req('GET', q, version='1.37').json['usages']
            want = {}
            for c, per in m.alloc.items():
                if m.cons[c]['project'] == proj and user in (None, m.cons[c]['user']):
                    for x, res in per.items():
                        for rc, a in res.items():
                            want[rc] = want.get(rc, 0) + a
            if got != want:
                return 'GET %s reports %s, allocations add up to %s' % (q, got, want)
        got = p.req('GET', '/usages?project_id=' + proj, version=V).json['usages']
        want = {}
        for c, per in m.alloc.items():
            if m.cons[c]['project'] == proj:
                t = m.cons[c].get('type') or 'unknown'
                d = want.setdefault(t, {'consumer_count': 0})
                d['consumer_count'] += 1
                for x, res in per.items():
                    for rc, a in res.items():
                        d[rc] = d.get(rc, 0) + a
        if got != want:
            return 'GET /usages?project_id=%s (by type) reports %s, expected %s' % (
                proj, got, want)
    return None


def directed():
    """scripted history: consumer attributes changed one at a time and all at
    once, allocation moved between providers, inventory fields omitted after
    having been set"""
    u0, u1, c = RPS[0], RPS[1], CONS[0]

    def put_alloc(m, p, alloc, proj, user, typ):
        body = {'allocations': {x: {'resources': r} for x, r in alloc.items()},
                'project_id': proj, 'user_id': user, 'consumer_type': typ,
                'consumer_generation': cgen(p, c)}

        def eff():
            m.alloc[c] = {x: dict(r) for x, r in alloc.items()}
            m.cons[c] = {'project': proj, 'user': user, 'type': typ}
        return ('PUT', '/allocations/' + c, body, V), eff

    def mk_rp(m, p, u):
        def eff():
            m.rp[u] = {'name': 'n' + u[:8], 'parent': None}
            m.inv[u], m.traits[u], m.aggs[u] = {}, set(), set()
        return ('POST', '/resource_providers',
                {'name': 'n' + u[:8], 'uuid': u}, V), eff

    def put_inv(m, p, u, invs):
        return ('PUT', '/resource_providers/%s/inventories' % u,
                {'resource_provider_generation': gen(p, u), 'inventories': invs},
                V), lambda: m.inv.__setitem__(
                    u, {rc: inv_full(d) for rc, d in invs.items()})
    return [
        lambda m, p: mk_rp(m, p, u0), lambda m, p: mk_rp(m, p, u1),
        lambda m, p: put_inv(m, p, u0, {'VCPU': {'total': 16, 'reserved': 2,
                                                 'max_unit': 8},
                                        'DISK_GB': {'total': 64}}),
        lambda m, p: put_inv(m, p, u1, {'VCPU': {'total': 16}}),
        lambda m, p: put_alloc(m, p, {u0: {'VCPU': 2}}, 'p1', 'u1', 'INSTANCE'),
        lambda m, p: put_alloc(m, p, {u0: {'VCPU': 2}}, 'p1', 'u1', 'MIGRATION'),
        lambda m, p: put_alloc(m, p, {u0: {'VCPU': 2}}, 'p2', 'u1', 'MIGRATION'),
        lambda m, p: put_alloc(m, p, {u0: {'VCPU': 2}}, 'p1', 'u2', 'INSTANCE'),
        lambda m, p: put_alloc(m, p, {u1: {'VCPU': 4}, u0: {'DISK_GB': 8}},
                               'p2', 'u1', 'MIGRATION'),
        lambda m, p: put_inv(m, p, u0, {'VCPU': {'total': 16},
                                        'DISK_GB': {'total': 64, 'reserved': 1}}),
        # a class (and with it a provider) dropped from the consumer's
        # allocations: nothing of the old rows may survive (seed C11c)
        lambda m, p: put_alloc(m, p, {u1: {'VCPU': 4}}, 'p2', 'u1', 'MIGRATION'),
        lambda m, p: put_alloc(m, p, {u0: {'VCPU': 1, 'DISK_GB': 8}},
                               'p2', 'u1', 'MIGRATION'),
        lambda m, p: put_alloc(m, p, {u0: {'DISK_GB': 8}}, 'p2', 'u1',
                               'MIGRATION'),
    ]


def search(r=None, tier='quick', seed=11):
    n_hist, n_steps = (12, 40) if tier == 'quick' else (120, 60)
    rnd = random.Random(seed)
    tried = 0
    with Placement() as p:
        m = Model()
        hist = []
        for mk in directed():
            (method, path, body, ver), eff = mk(m, p)
            resp = p.req(method, path, body, version=ver)
            hist.append([method, path, body, ver, resp.status_int])
            tried += 1
            if resp.status_int >= 300:
                return {'reproduced': True, 'tried': tried, 'witness': {
                    'history': hist, 'observed': 'scripted request refused '
                    '(%d)' % resp.status_int}}
            eff()
            bad = compare(p, m)
            if bad:
                return {'reproduced': True, 'tried': tried, 'witness': {
                    'history': hist[-4:], 'observed': bad}}
    for h in range(n_hist):
        minor = rnd.choice([39, 39, 38, 37])
        with Placement() as p:
            m = Model()
            for t in TRAITS:
                if t.startswith('CUSTOM_'):
                    p.req('PUT', '/traits/' + t, version=V)
            hist = []
            for s in range(n_steps):
                (method, path, body, ver), eff = step(p, m, rnd, minor)
                resp = p.req(method, path, body, version=ver,
                             roles='admin,service')
                hist.append([method, path, body, ver, resp.status_int])
                tried += 1
                if resp.status_int >= 500:
                    continue
                if resp.status_int < 300:
                    try:
                        eff()
                    except KeyError:
                        return {'reproduced': True, 'tried': tried, 'witness': {
                            'history': hist[-6:], 'observed':
                            'request answered %d although the entity it names '
                            'does not exist' % resp.status_int}}
                bad = compare(p, m)
                if bad:
                    return {'reproduced': True, 'tried': tried, 'witness': {
                        'history': hist[-8:], 'observed': bad}}
    return {'reproduced': False, 'tried': tried}


if __name__ == '__main__':
    print(json.dumps(search(None, sys.argv[1] if len(sys.argv) > 1 else 'quick'),
                     indent=1, default=str))
