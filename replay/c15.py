"""Replays and bounded stand-in (B1-style corpus mutation) for C15."""
import json
import os
import sys

sys.path.insert(0, os.path.dirname(os.path.abspath(__file__)))
from harness import Placement      # noqa: E402
import corpus                      # noqa: E402
from corpus import RP1, RP2, C1, C2, AGG, ADMIN   # noqa: E402

V = '1.39'


def _is_5xx(r):
    return r.status_int >= 500


def race_put_traits():
    """F3-style: PUT traits loses the provider generation race."""
    from placement.objects import trait as trait_obj
    with Placement() as p:
        corpus.prepare(p)
        g = corpus.rp_generation(p)
        orig = trait_obj.get_all
        state = {'done': False}

        def wrapped(*a, **k):
            if not state['done']:
                state['done'] = True
                r2 = p.req('PUT', '/resource_providers/%s/aggregates' % RP1,
                           {'resource_provider_generation': g, 'aggregates': []},
                           version=V, **ADMIN)
                state['other'] = r2.status_int
            return orig(*a, **k)
        trait_obj.get_all = wrapped
        try:
            r = p.req('PUT', '/resource_providers/%s/traits' % RP1,
                      {'resource_provider_generation': g, 'traits': []},
                      version=V, **ADMIN)
        finally:
            trait_obj.get_all = orig
        return {'reproduced': _is_5xx(r), 'status': r.status_int,
                'schedule': 'PUT aggregates (same generation) commits between '
                            'the read and the write transaction of PUT traits',
                'interposed_status': state.get('other')}


def nonfinite(method, route):
    with Placement() as p:
        corpus.prepare(p)
        for lit in ('NaN', 'Infinity', '-Infinity'):
            g = corpus.rp_generation(p)
            if (method, route) == ('POST', '/resource_providers/{uuid}/inventories'):
                path = '/resource_providers/%s/inventories' % RP1
                raw = '{"resource_class": "MEMORY_MB", "total": 8, "allocation_ratio": %s}' % lit
            elif route.endswith('{resource_class}'):
                path = '/resource_providers/%s/inventories/VCPU' % RP1
                raw = '{"resource_provider_generation": %d, "total": 8, "allocation_ratio": %s}' % (g, lit)
            else:
                path = '/resource_providers/%s/inventories' % RP1
                raw = ('{"resource_provider_generation": %d, "inventories": {"VCPU": '
                       '{"total": 8, "allocation_ratio": %s}}}' % (g, lit))
            r = p.req(method, path, raw_body=raw.encode(), version=V, **ADMIN)
            if _is_5xx(r):
                return {'reproduced': True, 'status': r.status_int,
                        'request': [method, path, raw]}
    return {'reproduced': False}


def rc_id_collisions():
    """F13-style: every generated id collides (as under a sustained creation
    race): MaxDBRetriesExceeded."""
    from placement.objects import resource_class as rc_obj
    with Placement() as p:
        corpus.prepare(p)
        orig = rc_obj.ResourceClass._get_next_id
        rc_obj.ResourceClass._get_next_id = staticmethod(lambda ctx: 10000)
        try:
            r = p.req('PUT', '/resource_classes/CUSTOM_COLLIDE', version=V, **ADMIN)
        finally:
            rc_obj.ResourceClass._get_next_id = orig
        return {'reproduced': _is_5xx(r), 'status': r.status_int,
                'schedule': '_get_next_id keeps returning an id taken by a '
                            'concurrently created class'}


def creation_races():
    """A competing request creates the project / user / consumer between the
    failed lookup and the create of the request under test."""
    from placement.objects import project as project_obj
    from placement.objects import user as user_obj
    from placement.objects import consumer as consumer_obj
    from placement import exception
    targets = [(project_obj.Project, 'get_by_external_id', 'project'),
               (user_obj.User, 'get_by_external_id', 'user'),
               (consumer_obj.Consumer, 'get_by_uuid', 'consumer')]
    for cls, meth, what in targets:
        for how in ('put', 'post'):
            with Placement() as p:
                corpus.prepare(p)
                body = {'allocations': {RP1: {'resources': {'VCPU': 1}}},
                        'project_id': 'fresh-project', 'user_id': 'fresh-user',
                        'consumer_generation': None, 'consumer_type': 'INSTANCE'}
                other = dict(body)
                orig = cls.__dict__[meth]
                state = {'done': False}

                def wrapped(klass, ctx, key, _orig=orig.__func__, _state=state):
                    try:
                        return _orig(klass, ctx, key)
                    except exception.NotFound:
                        if not _state['done']:
                            _state['done'] = True
                            r2 = p.req('PUT', '/allocations/%s' % (
                                C2 if what != 'consumer' else
                                'dddddddd-dddd-4ddd-8ddd-dddddddddddd'), other,
                                version=V, **ADMIN)
                            _state['other'] = r2.status_int
                        raise
                setattr(cls, meth, classmethod(wrapped))
                try:
                    cu = 'dddddddd-dddd-4ddd-8ddd-dddddddddddd'
                    if how == 'put':
                        r = p.req('PUT', '/allocations/%s' % cu, body,
                                  version=V, **ADMIN)
                    else:
                        r = p.req('POST', '/allocations', {cu: body},
                                  version=V, **ADMIN)
                finally:
                    setattr(cls, meth, orig)
                if _is_5xx(r):
                    return {'reproduced': True, 'status': r.status_int,
                            'schedule': 'a second write creating the same %s '
                                        'commits between the lookup and the '
                                        'create of a %s /allocations request'
                                        % (what, how.upper()),
                            'interposed_status': state.get('other'),
                            'detail': (r.text or '')[:200]}
    return {'reproduced': False}


PARSER_PROBES = [
    'resources=VCPU:abc', 'resources=VCPU', 'resources=VCPU:', 'resources=:1',
    'resources=VCPU:1:2', 'resources=VCPU:1,', 'resources=VCPU:-1',
    'resources=VCPU:1.5', 'resources=', 'member_of=in:', 'member_of=!',
    'member_of=in:abc', 'member_of=!in:', 'member_of=', 'in_tree=xyz',
    'in_tree=', 'member_of=in:,', 'member_of=abc&member_of=!abc',
]


def parser_probes():
    """malformed values for the parameters the string-level parsers handle"""
    tried = 0
    with Placement() as p:
        corpus.prepare(p)
        for q in PARSER_PROBES:
            for path in ('/resource_providers', '/allocation_candidates'):
                qq = q if 'resources=' in q or path == '/resource_providers' \
                    else 'resources=VCPU:1&' + q
                r = p.req('GET', '%s?%s' % (path, qq), version='1.39', **ADMIN)
                tried += 1
                if r.status_int >= 500:
                    return {'reproduced': True, 'tried': tried, 'witness': {
                        'request': ['GET', path, qq], 'status': r.status_int,
                        'observed': 'a malformed query parameter is answered '
                                    '%d' % r.status_int}}
    return {'reproduced': False, 'tried': tried}


def replay(info, model):
    sig = info.get('signature', '')
    if info.get('parser'):
        return parser_probes()
    if sig.startswith('ensure_consumer raises'):
        return creation_races()
    op = info.get('operation', '')
    method, _, route = op.partition(' ')
    if 'ConcurrentUpdateDetected' in sig and route.endswith('/traits'):
        return race_put_traits()
    if 'MaxDBRetriesExceeded' in sig:
        return rc_id_collisions()
    if 'OverflowError' in sig or ('ValueError' in sig and 'inventories' in route):
        return nonfinite(method, route)
    return {'reproduced': False, 'note': 'no targeted replay for ' + sig}


# --------------------------------------------------------------------------
# bounded stand-in: mutate every corpus request; any 5xx is a violation

def mutations(body):
    """Structure-level mutants of a JSON body."""
    out = [None, [], {}, 'x', 0]
    if isinstance(body, dict):
        for k in list(body):
            b = dict(body)
            del b[k]
            out.append(b)
            if isinstance(body[k], dict):
                b = dict(body)
                b[k] = dict(body[k])
                b[k]['bad key'] = 5
                out.append(b)
            for bad in (None, -1, 2 ** 63, 'x', [], {}, 1.5, '\n', True):
                b = dict(body)
                b[k] = bad
                out.append(b)
            if isinstance(body[k], dict):
                for sub in mutations(body[k])[:12]:
                    b = dict(body)
                    b[k] = sub
                    out.append(b)
        b = dict(body)
        b['unexpected key'] = 1
        out.append(b)
    return out


QUERIES = ['', 'limit=0', 'limit=abc', 'resources=VCPU:9223372036854775808',
           'resources=VCPU:1,', 'resources=:', 'required=', 'required=!',
           'member_of=in:', 'member_of=x', 'in_tree=x', 'uuid=x', 'name=',
           'resources=VCPU:1&required=in:', 'same_subtree=_X&resources_Y=VCPU:1',
           'group_policy=x&resources1=VCPU:1&resources2=VCPU:1',
           'root_required=!', 'project_id=', 'consumer_type=?',
           'resources=VCPU:1&limit=1&limit=2', 'name=in:', 'associated=x',
           'resources=VCPU:1&limit=abc&limit=5']


def fuzz(known=(), budget=1500, minors=(39, 12, 1)):
    """Round-robin over operations: query-string cases first, then body
    mutants in slices, so that a small budget still touches every route."""
    from placement import handler as handler_mod
    tried = 0
    known_hits = set()
    for minor in minors:
        with Placement() as p:
            corpus.prepare(p)
            ops_ = []
            for route, targets in handler_mod.ROUTE_DECLARATIONS.items():
                for method in targets:
                    if route in ('', '/'):
                        continue
                    try:
                        path, body, query = corpus.sample(p, method, route, minor)
                    except Exception:
                        continue
                    qcases = [(path, None, q) for q in QUERIES] \
                        if method == 'GET' else []
                    bcases = [(path, m, query) for m in mutations(body)] \
                        if body is not None else []
                    bcases.append((path + '/x', body, query))
                    ops_.append((method, route, qcases, bcases))
            rounds = [[(m, r, c) for (m, r, qc, bc) in ops_ for c in qc]]
            for lo in range(0, 60, 6):
                rounds.append([(m, r, c) for (m, r, qc, bc) in ops_
                               for c in bc[lo:lo + 6]])
            for rnd in rounds:
                for method, route, (pth, b, q) in rnd:
                    if tried >= budget:
                        return {'reproduced': False, 'tried': tried,
                                'known_hits': sorted(known_hits)}
                    tried += 1
                    url = pth + ('?' + q if q else '')
                    r = p.req(method, url, b, version='1.%d' % minor, **ADMIN)
                    if _is_5xx(r):
                        hit = [k(method, route, b, q, r) for k in known]
                        hit = [h for h in hit if h]
                        if hit:
                            known_hits.update(hit)
                            continue
                        return {'reproduced': True, 'tried': tried,
                                'known_hits': sorted(known_hits),
                                'witness': {'method': method, 'url': url,
                                            'body': b,
                                            'microversion': '1.%d' % minor,
                                            'status': r.status_int,
                                            'detail': (r.text or '')[:200]}}
    return {'reproduced': False, 'tried': tried,
            'known_hits': sorted(known_hits)}


if __name__ == '__main__':
    if len(sys.argv) > 1 and sys.argv[1] == 'fuzz':
        print(json.dumps(fuzz(), indent=1, default=str))
    else:
        print(race_put_traits(), nonfinite('PUT', '/resource_providers/{uuid}/inventories'), rc_id_collisions())
