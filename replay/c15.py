"""Replays and bounded stand-in (B1-style corpus mutation) for C15."""
import json
import os
import sys

sys.path.insert(0, os.path.dirname(os.path.abspath(__file__)))
from harness import Placement      # noqa: E402
import corpus                      # noqa: E402
from corpus import RP1, RP2, C1, C2, AGG, ADMIN   # noqa: E402

V = '1.39'


def _is_5xx(r):
    return r.status_int >= 500


def race_put_traits():
    """F3-style: PUT traits loses the provider generation race."""
    from placement.objects import trait as trait_obj
    with Placement() as p:
        corpus.prepare(p)
        g = corpus.rp_generation(p)
        orig = trait_obj.get_all
        state = {'done': False}

        def wrapped(*a, **k):
            if not state['done']:
                state['done'] = True
                r2 = p.req('PUT', '/resource_providers/%s/aggregates' % RP1,
                           {'resource_provider_generation': g, 'aggregates': []},
                           version=V, **ADMIN)
                state['other'] = r2.status_int
            return orig(*a, **k)
        trait_obj.get_all = wrapped
        try:
            r = p.req('PUT', '/resource_providers/%s/traits' % RP1,
                      {'resource_provider_generation': g, 'traits': []},
                      version=V, **ADMIN)
        finally:
            trait_obj.get_all = orig
        return {'reproduced': _is_5xx(r), 'status': r.status_int,
                'schedule': 'PUT aggregates (same generation) commits between '
                            'the read and the write transaction of PUT traits',
                'interposed_status': state.get('other')}


def nonfinite(method, route):
    with Placement() as p:
        corpus.prepare(p)
        for lit in ('NaN', 'Infinity', '-Infinity'):
            g = corpus.rp_generation(p)
            if (method, route) == ('POST', '/resource_providers/{uuid}/inventories'):
                path = '/resource_providers/%s/inventories' % RP1
                raw = '{"resource_class": "MEMORY_MB", "total": 8, "allocation_ratio": %s}' % lit
            elif route.endswith('{resource_class}'):
                path = '/resource_providers/%s/inventories/VCPU' % RP1
                raw = '{"resource_provider_generation": %d, "total": 8, "allocation_ratio": %s}' % (g, lit)
            else:
                path = '/resource_providers/%s/inventories' % RP1
                raw = ('{"resource_provider_generation": %d, "inventories": {"VCPU": '
                       '{"total": 8, "allocation_ratio": %s}}}' % (g, lit))
            r = p.req(method, path, raw_body=raw.encode(), version=V, **ADMIN)
            if _is_5xx(r):
                return {'reproduced': True, 'status': r.status_int,
                        'request': [method, path, raw]}
    return {'reproduced': False}


def rc_id_collisions():
    """F13-style: every generated id collides (as under a sustained creation
    race): MaxDBRetriesExceeded."""
    from placement.objects import resource_class as rc_obj
    with Placement() as p:
        corpus.prepare(p)
        orig = rc_obj.ResourceClass._get_next_id
        rc_obj.ResourceClass._get_next_id = staticmethod(lambda ctx: 10000)
        try:
            r = p.req('PUT', '/resource_classes/CUSTOM_COLLIDE', version=V, **ADMIN)
        finally:
            rc_obj.ResourceClass._get_next_id = orig
        return {'reproduced': _is_5xx(r), 'status': r.status_int,
                'schedule': '_get_next_id keeps returning an id taken by a '
                            'concurrently created class'}


def replay(info, model):
    sig = info.get('signature', '')
    op = info.get('operation', '')
    method, _, route = op.partition(' ')
    if 'ConcurrentUpdateDetected' in sig and route.endswith('/traits'):
        return race_put_traits()
    if 'MaxDBRetriesExceeded' in sig:
        return rc_id_collisions()
    if 'OverflowError' in sig or ('ValueError' in sig and 'inventories' in route):
        return nonfinite(method, route)
    return {'reproduced': False, 'note': 'no targeted replay for ' + sig}


# --------------------------------------------------------------------------
# bounded stand-in: mutate every corpus request; any 5xx is a violation

def mutations(body):
    """Structure-level mutants of a JSON body."""
    out = [None, [], {}, 'x', 0]
    if isinstance(body, dict):
        for k in list(body):
            b = dict(body)
            del b[k]
            out.append(b)
            for bad in (None, -1, 2 ** 63, 'x', [], {}, 1.5, '\n', True):
                b = dict(body)
                b[k] = bad
                out.append(b)
            if isinstance(body[k], dict):
                for sub in mutations(body[k])[:12]:
                    b = dict(body)
                    b[k] = sub
                    out.append(b)
        b = dict(body)
        b['unexpected key'] = 1
        out.append(b)
    return out


QUERIES = ['', 'limit=0', 'limit=abc', 'resources=VCPU:9223372036854775808',
           'resources=VCPU:1,', 'resources=:', 'required=', 'required=!',
           'member_of=in:', 'member_of=x', 'in_tree=x', 'uuid=x', 'name=',
           'resources=VCPU:1&required=in:', 'same_subtree=_X&resources_Y=VCPU:1',
           'group_policy=x&resources1=VCPU:1&resources2=VCPU:1',
           'root_required=!', 'project_id=', 'consumer_type=?',
           'resources=VCPU:1&limit=1&limit=2', 'name=in:', 'associated=x']


def fuzz(known=(), budget=1500, minors=(39, 12, 1)):
    import itertools
    from placement import handler as handler_mod
    tried = 0
    findings = []
    for minor in minors:
        with Placement() as p:
            corpus.prepare(p)
            for route, targets in handler_mod.ROUTE_DECLARATIONS.items():
                for method in targets:
                    if route in ('', '/'):
                        continue
                    try:
                        path, body, query = corpus.sample(p, method, route, minor)
                    except Exception:
                        continue
                    cases = []
                    if body is not None:
                        cases += [(path, m, query) for m in mutations(body)[:40]]
                    if method == 'GET':
                        cases += [(path, None, q) for q in QUERIES]
                    cases.append((path + '/x', body, query))
                    for (pth, b, q) in cases:
                        if tried >= budget:
                            return {'reproduced': bool(findings), 'tried': tried,
                                    'witness': findings[:1], 'all': findings[:5]}
                        tried += 1
                        url = pth + ('?' + q if q else '')
                        r = p.req(method, url, b, version='1.%d' % minor, **ADMIN)
                        if _is_5xx(r):
                            desc = '%s %s' % (method, route)
                            sigs = [k for k in known if k in (r.text or '')]
                            if any(k(method, route, b, q, r) for k in known):
                                continue
                            findings.append({'method': method, 'url': url,
                                             'body': b, 'microversion': '1.%d' % minor,
                                             'status': r.status_int,
                                             'detail': (r.text or '')[:200]})
                            return {'reproduced': True, 'tried': tried,
                                    'witness': findings[0]}
    return {'reproduced': False, 'tried': tried}


if __name__ == '__main__':
    if len(sys.argv) > 1 and sys.argv[1] == 'fuzz':
        print(json.dumps(fuzz(), indent=1, default=str))
    else:
        print(race_put_traits(), nonfinite('PUT', '/resource_providers/{uuid}/inventories'), rc_id_collisions())
