"""Replay / bounded stand-in for C12: after every completed request a consumer
record exists iff the consumer holds at least one allocation; attributes are
those of the last successful write; a removed / never-created consumer can be
created again with consumer_generation null."""
import json
import os
import sys

sys.path.insert(0, os.path.dirname(os.path.abspath(__file__)))
from harness import Placement      # noqa: E402
import corpus                      # noqa: E402
from corpus import RP1, RP2, C1, C2, AGG, ADMIN   # noqa: E402

NEWC = 'dddddddd-dddd-4ddd-8ddd-dddddddddddd'
NEWC2 = 'eeeeeeee-eeee-4eee-8eee-eeeeeeeeeeee'
GHOST = '99999999-9999-4999-8999-999999999999'


def invariant(p):
    d = p.dump(('consumers', 'allocations'))
    have = set(r[1] for r in d['consumers'])
    hold = set(r[2] for r in d['allocations'])
    bad = []
    if have - hold:
        bad.append('consumer record without allocations: %s' % sorted(have - hold))
    if hold - have:
        bad.append('allocations without consumer record: %s' % sorted(hold - have))
    return bad


def body(minor, amount, gen=None, project='proj', user='user', ctype='INSTANCE',
         rp=RP1):
    if minor < 12:
        b = {'allocations': [{'resource_provider': {'uuid': rp},
                              'resources': {'VCPU': amount}}]}
        if minor >= 8:
            b.update(project_id=project, user_id=user)
        return b
    b = {'allocations': {rp: {'resources': {'VCPU': amount}}} if amount else {},
         'project_id': project, 'user_id': user}
    if minor >= 28:
        b['consumer_generation'] = gen
    if minor >= 38:
        b['consumer_type'] = ctype
    return b


def attrs(p, c):
    r = p.req('GET', '/allocations/%s' % c, version='1.39', **ADMIN)
    return r.json


def steps(minor):
    v = '1.%d' % minor
    S = []
    A = lambda name, m, url, b, expect=None, after=None: S.append(
        (name, m, url, b, expect, after))
    A('create', 'PUT', '/allocations/' + NEWC, lambda p: body(minor, 1))
    if minor >= 28:
        A('empty write for an unknown consumer', 'PUT', '/allocations/' + NEWC2,
          lambda p: body(minor, 0))
        A('create after the empty write (null generation)', 'PUT',
          '/allocations/' + NEWC2, lambda p: body(minor, 1), 204)
        A('clear by empty PUT', 'PUT', '/allocations/' + NEWC2,
          lambda p: body(minor, 0, gen=corpus.consumer_generation(p, NEWC2)), 204)
        A('re-create after clear (null generation)', 'PUT', '/allocations/' + NEWC2,
          lambda p: body(minor, 2), 204)
        A('rejected first write (capacity)', 'PUT', '/allocations/' + GHOST.replace('9', '7'),
          lambda p: body(minor, 10000), 409)
        A('first write after a rejected one (null generation)', 'PUT',
          '/allocations/' + GHOST.replace('9', '7'), lambda p: body(minor, 1), 204)
        A('POST: move + clear', 'POST', '/allocations', lambda p: {
            NEWC: dict(body(minor, 0, gen=corpus.consumer_generation(p, NEWC))),
            NEWC2: dict(body(minor, 3, gen=corpus.consumer_generation(p, NEWC2)))}, 204)
        A('POST: empty entry for an unknown consumer', 'POST', '/allocations',
          lambda p: {GHOST.replace('9', '6'): body(minor, 0),
                     NEWC2: body(minor, 1, gen=corpus.consumer_generation(p, NEWC2))})
    A('change project / user%s' % (' / type' if minor >= 38 else ''), 'PUT',
      '/allocations/' + C1,
      lambda p: body(minor, 2, gen=corpus.consumer_generation(p, C1),
                     project='proj2', user='user2', ctype='RESERVED'), 204,
      lambda p: ('proj2', 'user2', 'RESERVED' if minor >= 38 else None))
    A('DELETE', 'DELETE', '/allocations/' + C1, lambda p: None, 204)
    A('create again after DELETE', 'PUT', '/allocations/' + C1,
      lambda p: body(minor, 1), 204)
    return v, S


def creation_race(minor):
    """Two requests create the same consumer; the loser's own write is then
    rejected (capacity).  The winner's consumer record must survive."""
    from placement.objects import consumer as consumer_obj
    from placement import exception
    v = '1.%d' % minor
    with Placement() as p:
        corpus.prepare(p)
        raw = consumer_obj.Consumer.__dict__['get_by_uuid']
        state = {'done': False}

        def wrapped(klass, ctx, uuid, _orig=raw.__func__):
            try:
                return _orig(klass, ctx, uuid)
            except exception.NotFound:
                if not state['done'] and uuid == NEWC:
                    state['done'] = True
                    r2 = p.req('PUT', '/allocations/' + NEWC, body(minor, 1),
                               version=v, **ADMIN)
                    state['other'] = r2.status_int
                raise
        consumer_obj.Consumer.get_by_uuid = classmethod(wrapped)
        try:
            r = p.req('PUT', '/allocations/' + NEWC, body(minor, 10000),
                      version=v, **ADMIN)
        finally:
            consumer_obj.Consumer.get_by_uuid = raw
        bad = invariant(p)
        if bad and state.get('other') == 204:
            return {'reproduced': True, 'witness': {
                'schedule': 'PUT (over capacity) finds no consumer; another PUT '
                            'creates the consumer and commits (204); the first '
                            'PUT continues and is answered %d' % r.status_int,
                'microversion': v, 'observed': bad}}
    return None


def run(minors=(39, 28, 12, 8, 1)):
    tried = 0
    for minor in (12, 27, 39):
        tried += 1
        w = creation_race(minor)
        if w:
            w['tried'] = tried
            return w
    for minor in minors:
        v, S = steps(minor)
        with Placement() as p:
            corpus.prepare(p)
            for name, m, url, mk, expect, after in S:
                tried += 1
                b = mk(p)
                r = p.req(m, url, b, version=v, **ADMIN)
                bad = invariant(p)
                if expect is not None and r.status_int != expect:
                    bad.append('answered %d, expected %d' % (r.status_int, expect))
                if after is not None and r.status_int < 300:
                    want = after(p)
                    a = attrs(p, url.rsplit('/', 1)[1])
                    got = (a.get('project_id'), a.get('user_id'),
                           a.get('consumer_type') if want[2] else None)
                    if minor >= 12 and got != want:
                        bad.append('consumer attributes %s, expected %s' % (got, want))
                if bad:
                    return {'reproduced': True, 'tried': tried, 'witness': {
                        'step': name, 'request': [m, url, b], 'microversion': v,
                        'status': r.status_int, 'observed': bad}}
    return {'reproduced': False, 'tried': tried}


if __name__ == '__main__':
    print(json.dumps(run(), indent=1, default=str))
