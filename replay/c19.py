"""Replay / bounded stand-in for C19 on the real stack."""
import json
import os
import re
import sys
import urllib.parse

sys.path.insert(0, os.path.dirname(os.path.abspath(__file__)))
from harness import Placement      # noqa: E402

V = '1.39'
SPEC = re.compile(r'\ACUSTOM_[A-Z0-9_]*\Z')

NAMES = ['CUSTOM_A', 'CUSTOM_A\n', 'CUSTOM_A\r', 'CUSTOM_', 'CUSTOM_a', 'CUSTOM',
         'custom_A', ' CUSTOM_A', 'CUSTOM_A ', 'CUSTOM_A\n\n', '\nCUSTOM_A',
         'CUSTOM_\\u0041', 'CUSTOM_\\n', 'CUSTOM_A"', 'CUSTOM_A\\', 'CUSTOM_Ä',
         'CUSTOM_' + 'A' * 248, 'CUSTOM_' + 'A' * 249, 'VCPU', 'HW_CPU_X86_AVX',
         'XCUSTOM_A', 'CUSTOM_A-B', 'CUSTOM_A.B', 'CUSTOM_0_9', 'CUSTOM__',
         'CUSTOM_A/B', 'CUSTOM_A%0A', '']


def custom_names(p):
    from placement import db_api
    import sqlalchemy as sa
    from placement.db.sqlalchemy import models
    eng = db_api.get_placement_engine()
    out = {}
    with eng.connect() as c:
        for m, key in ((models.ResourceClass, 'classes'), (models.Trait, 'traits')):
            t = m.__table__
            out[key] = [(r[0], r[1]) for r in c.execute(sa.select(t.c.id, t.c.name))]
    return out


def check_names(p, what):
    import os_traits
    import os_resource_classes as orc
    d = custom_names(p)
    std_t = set(os_traits.get_traits())
    std_c = set(orc.STANDARDS)
    for i, n in d['classes']:
        if n in std_c:
            if i != orc.STANDARDS.index(n):
                return '%s: standard class %s has id %s' % (what, n, i)
        else:
            if not SPEC.match(n) or len(n) > 255:
                return '%s: resource class named %r exists' % (what, n)
            if i < 10000:
                return '%s: custom class %s has id %s' % (what, n, i)
    ids = [i for i, n in d['classes']]
    if len(ids) != len(set(ids)) or len(set(n for i, n in d['classes'])) != len(ids):
        return '%s: duplicate class id or name' % what
    for i, n in d['traits']:
        if n not in std_t and (not SPEC.match(n) or len(n) > 255):
            return '%s: trait named %r exists' % (what, n)
    if len(set(n for i, n in d['traits'])) != len(d['traits']):
        return '%s: duplicate trait name' % what
    missing = std_c - set(n for i, n in d['classes'])
    if missing:
        return '%s: standard classes missing: %s' % (what, sorted(missing)[:3])
    missing = std_t - set(n for i, n in d['traits'])
    if missing:
        return '%s: standard traits missing: %s' % (what, sorted(missing)[:3])
    return None


def resync(p):
    from placement.objects import trait as trait_obj
    from placement.objects import resource_class as rc_obj
    from placement import context as pctx
    trait_obj._TRAITS_SYNCED = False
    rc_obj._RESOURCE_CLASSES_SYNCED = False
    ctx = pctx.RequestContext(config=p.conf)
    from placement import deploy
    deploy.update_database(p.conf)
    return ctx


def search(r=None, tier='quick'):
    tried = 0

    def bad(what):
        return {'reproduced': True, 'tried': tried, 'witness': {'observed': what}}
    with Placement() as p:
        # the fixture synchronised once: again (idempotent), then from a
        # partially emptied and from an empty table
        from placement import db_api
        import sqlalchemy as sa
        from placement.db.sqlalchemy import models
        eng = db_api.get_placement_engine()
        for phase in ('full', 'partial', 'empty', 'with custom',
                      'custom and partial'):
            with eng.begin() as c:
                if phase == 'partial':
                    c.execute(models.Trait.__table__.delete().where(
                        models.Trait.__table__.c.name.like('HW_%')))
                    c.execute(models.ResourceClass.__table__.delete().where(
                        models.ResourceClass.__table__.c.id.in_([0, 3, 7])))
                elif phase == 'empty':
                    c.execute(models.Trait.__table__.delete())
                    c.execute(models.ResourceClass.__table__.delete())
            if phase == 'custom and partial':
                # more custom entries than standard ones missing
                for i in range(6):
                    p.req('PUT', '/resource_classes/CUSTOM_P%d' % i, version=V)
                    p.req('PUT', '/traits/CUSTOM_P%d' % i, version=V)
                with eng.begin() as c:
                    c.execute(models.Trait.__table__.delete().where(
                        models.Trait.__table__.c.name.in_(
                            ['HW_CPU_X86_AVX', 'COMPUTE_NODE', 'STORAGE_DISK_SSD'])))
                    c.execute(models.ResourceClass.__table__.delete().where(
                        models.ResourceClass.__table__.c.id.in_([1, 2])))
            if phase == 'with custom':
                p.req('PUT', '/resource_classes/CUSTOM_SYNC', version=V)
                p.req('PUT', '/traits/CUSTOM_SYNC', version=V)
            for rep in range(2):
                before = custom_names(p) if rep else None
                resync(p)
                tried += 1
                w = check_names(p, 'after sync (%s, run %d)' % (phase, rep + 1))
                if w:
                    return bad(w)
                if rep and custom_names(p) != before:
                    return bad('second synchronisation (%s) changed the tables' % phase)
        # name probes
        for n in NAMES:
            q = urllib.parse.quote(n, safe='')
            reqs = [('PUT', '/traits/' + q, None),
                    ('PUT', '/resource_classes/' + q, None),
                    ('POST', '/resource_classes', {'name': n})]
            for m, path, body in reqs:
                if not q and m == 'PUT':
                    continue
                r1 = p.req(m, path, body, version=V)
                r2 = p.req(m, path, body, version=V)
                tried += 2
                w = check_names(p, '%s %s %r -> %d' % (m, path, body, r1.status_int))
                if w:
                    return bad(w)
                if r1.status_int >= 500 or r2.status_int >= 500:
                    continue        # C15's business
                if r1.status_int < 300 and r2.status_int not in (204, 409):
                    return bad('%s %s twice: %d then %d' % (m, path, r1.status_int,
                                                            r2.status_int))
            if SPEC.match(n) and len(n) <= 255 and len(n) > 7:
                # rename at 1.2 .. 1.6
                r1 = p.req('PUT', '/resource_classes/' + n, {'name': n + '_R'}, version='1.6')
                tried += 1
        for n in NAMES:
            r1 = p.req('PUT', '/resource_classes/CUSTOM_RENAME', version=V)
            r1 = p.req('PUT', '/resource_classes/CUSTOM_RENAME', {'name': n}, version='1.6')
            tried += 1
            w = check_names(p, 'rename to %r -> %d' % (n, r1.status_int))
            if w:
                return bad(w)
            p.req('DELETE', '/resource_classes/' + urllib.parse.quote(n, safe=''), version=V)
        # standard entries are immutable
        for m, path, body, ver in (
                ('DELETE', '/resource_classes/VCPU', None, V),
                ('DELETE', '/traits/HW_CPU_X86_AVX', None, V),
                ('PUT', '/resource_classes/VCPU', {'name': 'CUSTOM_VCPU'}, '1.6'),
                ('PUT', '/resource_classes/MEMORY_MB', {'name': 'VCPU'}, '1.6')):
            r1 = p.req(m, path, body, version=ver)
            tried += 1
            if r1.status_int != 400:
                return bad('%s %s -> %d (standard entries are immutable: 400)'
                           % (m, path, r1.status_int))
            w = check_names(p, '%s %s' % (m, path))
            if w:
                return bad(w)
        # ids: create, delete the highest, create again
        seen = {}
        for i in range(6):
            p.req('PUT', '/resource_classes/CUSTOM_ID%d' % i, version=V)
        p.req('DELETE', '/resource_classes/CUSTOM_ID5', version=V)
        p.req('DELETE', '/resource_classes/CUSTOM_ID2', version=V)
        resync(p)
        for i in range(6, 9):
            p.req('PUT', '/resource_classes/CUSTOM_ID%d' % i, version=V)
        tried += 12
        w = check_names(p, 'id history')
        if w:
            return bad(w)
    return {'reproduced': False, 'tried': tried}


if __name__ == '__main__':
    print(json.dumps(search(None, sys.argv[1] if len(sys.argv) > 1 else 'quick'),
                     indent=1, default=str))
