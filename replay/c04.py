"""Replay / bounded stand-in for C04: requests that the service rejects, for
every write operation, issued on the real WSGI stack; a rejected request
must leave providers, inventories, traits/aggregates associations,
allocations, consumers and all generations exactly as they were."""
import json
import os
import sys

sys.path.insert(0, os.path.dirname(os.path.abspath(__file__)))
from harness import Placement      # noqa: E402
import corpus                      # noqa: E402
from corpus import RP1, RP2, RPX, C1, C2, AGG, ADMIN   # noqa: E402

V = '1.39'
CORE = ('resource_providers', 'inventories', 'allocations', 'consumers',
        'resource_provider_traits', 'resource_provider_aggregates')
NEWC = 'dddddddd-dddd-4ddd-8ddd-dddddddddddd'
NEWC2 = 'eeeeeeee-eeee-4eee-8eee-eeeeeeeeeeee'
GHOST = '99999999-9999-4999-8999-999999999999'


def alloc(rp, amount, gen=None, klass='VCPU'):
    return {'allocations': {rp: {'resources': {klass: amount}}},
            'project_id': 'proj', 'user_id': 'user',
            'consumer_generation': gen, 'consumer_type': 'INSTANCE'}


def rejected_requests(p):
    """(operation, method, url, body, minor) expected to be rejected."""
    g = corpus.rp_generation(p)
    cg = corpus.consumer_generation(p)
    inv = '/resource_providers/%s/inventories' % RP1
    out = []
    A = lambda op, m, u, b, minor=39: out.append((op, m, u, b, minor))
    put = 'PUT /allocations/{consumer_uuid}'
    A(put, 'PUT', '/allocations/' + NEWC, alloc(GHOST, 1))             # unknown provider
    A(put, 'PUT', '/allocations/' + NEWC, alloc(RP1, 1000))            # capacity
    A(put, 'PUT', '/allocations/' + NEWC, alloc(RP1, 1, klass='MEMORY_MB'))  # no inventory
    A(put, 'PUT', '/allocations/' + NEWC, alloc(RP1, 1, klass='CUSTOM_NOPE'))
    A(put, 'PUT', '/allocations/' + C1, alloc(RP1, 1, gen=cg + 5))     # stale consumer gen
    A(put, 'PUT', '/allocations/' + NEWC, alloc(RP1, 1, gen=3))        # gen for new consumer
    A(put, 'PUT', '/allocations/' + NEWC, dict(alloc(RP1, 1), allocations={
        RP1: {'resources': {'VCPU': 1}}, GHOST: {'resources': {'VCPU': 1}}}))
    b12 = {'allocations': {GHOST: {'resources': {'VCPU': 1}}},
           'project_id': 'proj', 'user_id': 'user'}
    A(put, 'PUT', '/allocations/' + NEWC, b12, 12)
    b1 = {'allocations': [{'resource_provider': {'uuid': GHOST},
                           'resources': {'VCPU': 1}}]}
    A(put, 'PUT', '/allocations/' + NEWC, b1, 1)
    post = 'POST /allocations'
    A(post, 'POST', '/allocations', {NEWC: alloc(RP1, 1), NEWC2: alloc(GHOST, 1)})
    A(post, 'POST', '/allocations', {NEWC: alloc(RP1, 1), NEWC2: alloc(RP1, 1000)})
    A(post, 'POST', '/allocations', {NEWC: alloc(RP1, 1), C1: alloc(RP1, 1, gen=cg + 7)})
    A(post, 'POST', '/allocations', {NEWC: alloc(RP1, 10), NEWC2: alloc(RP1, 10)})
    rs = 'POST /reshaper'
    invs = {RP1: {'resource_provider_generation': g,
                  'inventories': {'VCPU': {'total': 16}, 'DISK_GB': {'total': 100}}}}
    A(rs, 'POST', '/reshaper', {'inventories': invs,
                                'allocations': {NEWC: alloc(GHOST, 1)}})
    A(rs, 'POST', '/reshaper', {'inventories': invs,
                                'allocations': {NEWC: alloc(RP1, 1000)}})
    A(rs, 'POST', '/reshaper', {'inventories': {RP1: {
        'resource_provider_generation': g, 'inventories': {'DISK_GB': {'total': 100}}}},
        'allocations': {NEWC: alloc(RP1, 1)}})                         # VCPU dropped, in use
    A(rs, 'POST', '/reshaper', {'inventories': {RP1: dict(invs[RP1],
                                                           resource_provider_generation=g + 3)},
                                'allocations': {}})
    A('PUT /resource_providers/{uuid}/inventories', 'PUT', inv,
      {'resource_provider_generation': g + 1, 'inventories': {'VCPU': {'total': 4}}})
    A('PUT /resource_providers/{uuid}/inventories', 'PUT', inv,
      {'resource_provider_generation': g, 'inventories': {'DISK_GB': {'total': 1}}})  # VCPU in use
    A('PUT /resource_providers/{uuid}/inventories', 'PUT', inv,
      {'resource_provider_generation': g, 'inventories': {
          'DISK_GB': {'total': 5}, 'VCPU': {'total': 16}, 'CUSTOM_NOPE': {'total': 1}}})
    A('PUT /resource_providers/{uuid}/inventories', 'PUT', inv,
      {'resource_provider_generation': g, 'inventories': {
          'DISK_GB': {'total': 5, 'reserved': 6}, 'VCPU': {'total': 16}}})
    A('POST /resource_providers/{uuid}/inventories', 'POST', inv,
      {'resource_class': 'VCPU', 'total': 4})                          # duplicate
    A('POST /resource_providers/{uuid}/inventories', 'POST', inv,
      {'resource_class': 'CUSTOM_NOPE', 'total': 4})
    A('DELETE /resource_providers/{uuid}/inventories', 'DELETE', inv, None)   # in use
    A('PUT /resource_providers/{uuid}/inventories/{resource_class}', 'PUT',
      inv + '/VCPU', {'resource_provider_generation': g + 2, 'total': 8})
    A('PUT /resource_providers/{uuid}/inventories/{resource_class}', 'PUT',
      inv + '/MEMORY_MB', {'resource_provider_generation': g, 'total': 8})
    A('DELETE /resource_providers/{uuid}/inventories/{resource_class}', 'DELETE',
      inv + '/VCPU', None)                                             # in use
    tr = '/resource_providers/%s/traits' % RP1
    A('PUT /resource_providers/{uuid}/traits', 'PUT', tr,
      {'resource_provider_generation': g + 1, 'traits': []})
    A('PUT /resource_providers/{uuid}/traits', 'PUT', tr,
      {'resource_provider_generation': g, 'traits': ['CUSTOM_NOPE']})
    ag = '/resource_providers/%s/aggregates' % RP1
    A('PUT /resource_providers/{uuid}/aggregates', 'PUT', ag,
      {'resource_provider_generation': g + 1, 'aggregates': []})
    A('POST /resource_providers', 'POST', '/resource_providers',
      {'name': 'rp1', 'uuid': RPX})                                    # duplicate name
    A('POST /resource_providers', 'POST', '/resource_providers',
      {'name': 'rpx', 'uuid': RPX, 'parent_provider_uuid': GHOST})
    A('PUT /resource_providers/{uuid}', 'PUT', '/resource_providers/' + RP1,
      {'name': 'rp2'})
    A('PUT /resource_providers/{uuid}', 'PUT', '/resource_providers/' + RP1,
      {'name': 'rp1', 'parent_provider_uuid': RP2})                    # loop
    A('DELETE /resource_providers/{uuid}', 'DELETE', '/resource_providers/' + RP1, None)
    A('DELETE /allocations/{consumer_uuid}', 'DELETE', '/allocations/' + NEWC, None)
    return out


def run(only_op=None, budget=200):
    tried = 0
    n = None
    with Placement() as p:
        corpus.prepare(p)
        n = len(rejected_requests(p))
    for i in range(n):
        with Placement() as p:
            corpus.prepare(p)
            op, m, url, body, minor = rejected_requests(p)[i]
            if only_op and op != only_op:
                continue
            if tried >= budget:
                break
            tried += 1
            before = p.dump(CORE)
            r = p.req(m, url, body, version='1.%d' % minor,
                      token='admin', roles='admin,service')
            after = p.dump(CORE)
            if r.status_int >= 400 and before != after:
                changed = {t: {'added': [x for x in after[t] if x not in before[t]],
                               'removed': [x for x in before[t] if x not in after[t]]}
                           for t in before if before[t] != after[t]}
                return {'reproduced': True, 'tried': tried,
                        'witness': {'operation': op, 'method': m, 'url': url,
                                    'body': body, 'microversion': '1.%d' % minor,
                                    'status': r.status_int, 'changed': changed}}
    return {'reproduced': False, 'tried': tried}


def replay(info, model):
    return run(info.get('operation'))


if __name__ == '__main__':
    print(json.dumps(run(sys.argv[1] if len(sys.argv) > 1 else None), indent=1,
                     default=str))
