"""Replay / bounded stand-in for C08: histories mixing creation, replacement
and deletion of providers, inventories, classes, traits, aggregates and
allocations; after every request every stored reference must resolve in the
raw tables, and refused deletions must change nothing."""
import json
import os
import random
import sys

sys.path.insert(0, os.path.dirname(os.path.abspath(__file__)))
from harness import Placement      # noqa: E402

V = '1.39'
RPS = ['%08x-0000-4000-8000-%012x' % (0x800 + i, i) for i in range(4)]
CONS = ['%08x-0000-4000-8000-%012x' % (0xC80 + i, i) for i in range(3)]
AGGS = ['%08x-0000-4000-8000-%012x' % (0xA80 + i, i) for i in range(2)]
CLASSES = ['VCPU', 'DISK_GB', 'CUSTOM_C1', 'CUSTOM_C2']
TRAITS = ['HW_CPU_X86_AVX', 'CUSTOM_T1', 'CUSTOM_T2']
CORE = ('resource_providers', 'inventories', 'allocations',
        'resource_provider_traits', 'resource_provider_aggregates',
        'resource_classes', 'traits', 'placement_aggregates', 'consumers')


def tables(p):
    return p.dump(CORE)


def names(p):
    from placement.db.sqlalchemy import models
    out = {}
    for t in models.BASE.metadata.sorted_tables:
        out[t.name] = [c.name for c in t.columns
                       if c.name not in ('created_at', 'updated_at')]
    return out


def dangling(p, cols):
    d = tables(p)
    rows = {t: [dict(zip(cols[t], r)) for r in d[t]] for t in d}
    rp_ids = {r['id'] for r in rows['resource_providers']}
    rc_ids = {r['id'] for r in rows['resource_classes']}
    tr_ids = {r['id'] for r in rows['traits']}
    ag_ids = {r['id'] for r in rows['placement_aggregates']}
    con = {r['uuid'] for r in rows['consumers']}
    inv = {(r['resource_provider_id'], r['resource_class_id'])
           for r in rows['inventories']}
    for a in rows['allocations']:
        if a['resource_provider_id'] not in rp_ids:
            return 'allocation %s names a missing provider' % a['id']
        if (a['resource_provider_id'], a['resource_class_id']) not in inv:
            return 'allocation %s has no inventory of its class on its provider' % a['id']
        if a['consumer_id'] not in con:
            return 'allocation %s names an unrecorded consumer' % a['id']
    for i in rows['inventories']:
        if i['resource_provider_id'] not in rp_ids:
            return 'inventory %s names a missing provider' % i['id']
        if i['resource_class_id'] not in rc_ids:
            return 'inventory %s names a missing resource class' % i['id']
    for t in rows['resource_provider_traits']:
        if t['resource_provider_id'] not in rp_ids or t['trait_id'] not in tr_ids:
            return 'trait association %s dangles' % (t,)
    for g in rows['resource_provider_aggregates']:
        if g['resource_provider_id'] not in rp_ids or g['aggregate_id'] not in ag_ids:
            return 'aggregate association %s dangles' % (g,)
    for r in rows['resource_providers']:
        if r['parent_provider_id'] is not None and r['parent_provider_id'] not in rp_ids:
            return 'provider %s has a missing parent' % r['uuid']
    return None


def gen(p, u):
    r = p.req('GET', '/resource_providers/' + u, version=V)
    return r.json['generation'] if r.status_int == 200 else 0


def ops(p, rnd):
    u = rnd.choice(RPS)
    c = rnd.choice(CONS)
    rc = rnd.choice(CLASSES)
    tr = rnd.choice(TRAITS)
    base = '/resource_providers/' + u
    return rnd.choice([
        lambda: ('POST', '/resource_providers', {
            'name': 'n' + u[:8], 'uuid': u,
            'parent_provider_uuid': rnd.choice(RPS + [None, None])}),
        lambda: ('DELETE', base, None),
        lambda: ('PUT', base + '/inventories', {
            'resource_provider_generation': gen(p, u),
            'inventories': {k: {'total': rnd.choice([4, 8])}
                            for k in rnd.sample(CLASSES, rnd.randint(0, 3))}}),
        lambda: ('DELETE', base + '/inventories', None),
        lambda: ('DELETE', base + '/inventories/' + rc, None),
        lambda: ('PUT', base + '/inventories/' + rc, {
            'resource_provider_generation': gen(p, u), 'total': 6}),
        lambda: ('PUT', '/resource_classes/' + rc, None),
        lambda: ('DELETE', '/resource_classes/' + rc, None),
        lambda: ('PUT', '/traits/' + tr, None),
        lambda: ('DELETE', '/traits/' + tr, None),
        lambda: ('PUT', base + '/traits', {
            'resource_provider_generation': gen(p, u),
            'traits': rnd.sample(TRAITS, rnd.randint(0, 2))}),
        lambda: ('DELETE', base + '/traits', None),
        lambda: ('PUT', base + '/aggregates', {
            'resource_provider_generation': gen(p, u),
            'aggregates': rnd.sample(AGGS, rnd.randint(0, 2))}),
        lambda: ('PUT', '/allocations/' + c, {
            'allocations': {u: {'resources': {rc: rnd.choice([1, 2])}}},
            'project_id': 'p', 'user_id': 'u',
            'consumer_generation': cgen(p, c), 'consumer_type': 'INSTANCE'}),
        lambda: ('PUT', '/allocations/' + c, {
            'allocations': {u: {'resources': {rc: 1}},
                            rnd.choice(RPS): {'resources': {rnd.choice(CLASSES): 1}}},
            'project_id': 'p', 'user_id': 'u',
            'consumer_generation': cgen(p, c), 'consumer_type': 'INSTANCE'}),
        lambda: ('DELETE', '/allocations/' + c, None),
        lambda: ('PUT', '/allocations/' + c, {
            'allocations': {}, 'project_id': 'p', 'user_id': 'u',
            'consumer_generation': cgen(p, c), 'consumer_type': 'INSTANCE'}),
    ])()


def cgen(p, c):
    r = p.req('GET', '/allocations/' + c, version=V)
    return r.json.get('consumer_generation')


DIRECTED = [
    # inventory in use, class in use, trait in use, provider in use / parent
    [('POST', '/resource_providers', {'name': 'a', 'uuid': RPS[0]}),
     ('POST', '/resource_providers', {'name': 'b', 'uuid': RPS[1],
                                      'parent_provider_uuid': RPS[0]}),
     ('PUT', '/resource_classes/CUSTOM_C1', None),
     ('PUT', '/traits/CUSTOM_T1', None),
     ('PUT', '/resource_providers/%s/inventories' % RPS[0],
      {'resource_provider_generation': 0,
       'inventories': {'VCPU': {'total': 8}, 'CUSTOM_C1': {'total': 4}}}),
     ('PUT', '/resource_providers/%s/traits' % RPS[0],
      {'resource_provider_generation': 1, 'traits': ['CUSTOM_T1']}),
     ('PUT', '/resource_providers/%s/aggregates' % RPS[0],
      {'resource_provider_generation': 2, 'aggregates': [AGGS[0]]}),
     ('PUT', '/allocations/' + CONS[0],
      {'allocations': {RPS[0]: {'resources': {'VCPU': 1, 'CUSTOM_C1': 1}}},
       'project_id': 'p', 'user_id': 'u', 'consumer_generation': None,
       'consumer_type': 'INSTANCE'}),
     # a class the provider has no inventory of, next to one it has
     ('PUT', '/resource_providers/%s/inventories' % RPS[1],
      {'resource_provider_generation': 0,
       'inventories': {'VCPU': {'total': 8}}}),
     ('PUT', '/allocations/' + CONS[1],
      {'allocations': {RPS[0]: {'resources': {'VCPU': 1}},
                       RPS[1]: {'resources': {'VCPU': 1, 'CUSTOM_C1': 1}}},
       'project_id': 'p', 'user_id': 'u', 'consumer_generation': None,
       'consumer_type': 'INSTANCE'}, 409),
     ('PUT', '/allocations/' + CONS[1],
      {'allocations': {RPS[1]: {'resources': {'VCPU': 1, 'DISK_GB': 1}}},
       'project_id': 'p', 'user_id': 'u', 'consumer_generation': None,
       'consumer_type': 'INSTANCE'}, 409),
     ('PUT', '/resource_providers/%s/inventories' % RPS[1],
      {'resource_provider_generation': 1, 'inventories': {}}),
     ('DELETE', '/resource_providers/%s/inventories' % RPS[0], None, 409),
     ('DELETE', '/resource_providers/%s/inventories/VCPU' % RPS[0], None, 409),
     ('PUT', '/resource_providers/%s/inventories' % RPS[0],
      {'resource_provider_generation': 3,
       'inventories': {'VCPU': {'total': 8}}}, 409),
     ('DELETE', '/resource_classes/CUSTOM_C1', None, 409),
     ('DELETE', '/resource_classes/VCPU', None, 400),
     ('DELETE', '/traits/CUSTOM_T1', None, 409),
     ('DELETE', '/traits/HW_CPU_X86_AVX', None, 400),
     ('DELETE', '/resource_providers/' + RPS[0], None, 409),
     ('DELETE', '/allocations/' + CONS[0], None, 204),
     ('DELETE', '/resource_providers/' + RPS[0], None, 409),   # still a parent
     ('DELETE', '/resource_providers/' + RPS[1], None, 204),
     ('DELETE', '/resource_providers/' + RPS[0], None, 204),
     ('DELETE', '/traits/CUSTOM_T1', None, 204),
     ('DELETE', '/resource_classes/CUSTOM_C1', None, 204)],
]


def run_step(p, cols, m, path, body, want=None):
    before = tables(p)
    r = p.req(m, path, body, version=V)
    if want is not None and r.status_int != want:
        return 'status %d, expected %d' % (r.status_int, want)
    if m == 'DELETE' and 400 <= r.status_int < 500 and tables(p) != before:
        return 'refused deletion (%d) changed the tables' % r.status_int
    if m == 'DELETE' and path.startswith('/resource_providers/') and \
            path.count('/') == 2 and r.status_int == 204:
        d = tables(p)
        uu = path.rsplit('/', 1)[1]
        gone = [x for x in before['resource_providers'] if x[cols['resource_providers'].index('uuid')] == uu]
        if gone:
            rid = gone[0][cols['resource_providers'].index('id')]
            for t in ('inventories', 'resource_provider_traits',
                      'resource_provider_aggregates'):
                ix = cols[t].index('resource_provider_id')
                if any(x[ix] == rid for x in d[t]):
                    return 'deleted provider left rows behind in %s' % t
    return dangling(p, cols)


def search(r=None, tier='quick', seed=3):
    n_hist, n_steps = (30, 40) if tier == 'quick' else (300, 60)
    rnd = random.Random(seed)
    tried = 0
    with Placement() as p:
        cols = names(p)
        for sc in DIRECTED:
            hist = []
            for st in sc:
                m, path, body = st[:3]
                want = st[3] if len(st) > 3 else None
                hist.append([m, path, body])
                tried += 1
                bad = run_step(p, cols, m, path, body, want)
                if bad:
                    return {'reproduced': True, 'tried': tried,
                            'witness': {'history': hist, 'observed': bad}}
    for h in range(n_hist):
        with Placement() as p:
            cols = names(p)
            hist = []
            for s in range(n_steps):
                m, path, body = ops(p, rnd)
                hist.append([m, path, body])
                tried += 1
                bad = run_step(p, cols, m, path, body)
                if bad:
                    return {'reproduced': True, 'tried': tried,
                            'witness': {'history': hist, 'observed': bad}}
    return {'reproduced': False, 'tried': tried}


if __name__ == '__main__':
    print(json.dumps(search(None, sys.argv[1] if len(sys.argv) > 1 else 'quick'),
                     indent=1, default=str))
