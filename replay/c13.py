"""Replay / bounded stand-in for C13: GET /resource_providers with every
combination of filters against a reference evaluation over the raw rows."""
import itertools
import json
import os
import random
import sys

sys.path.insert(0, os.path.dirname(os.path.abspath(__file__)))
from harness import Placement      # noqa: E402
import cands                       # noqa: E402

V = '1.39'
UNKNOWN_AGG = cands.u(0xAFF)
UNKNOWN_RP = cands.u(0xFFF)


def state(p):
    d = p.dump()
    from placement.db.sqlalchemy import models
    cols = {t.name: [c.name for c in t.columns
                     if c.name not in ('created_at', 'updated_at')]
            for t in models.BASE.metadata.sorted_tables}
    rows = {t: [dict(zip(cols[t], r)) for r in d[t]] for t in d}
    rps = {r['id']: r for r in rows['resource_providers']}
    traits = {r['id']: r['name'] for r in rows['traits']}
    aggs = {r['id']: r['uuid'] for r in rows['placement_aggregates']}
    rcs = {r['id']: r['name'] for r in rows['resource_classes']}
    out = {}
    for i, r in rps.items():
        out[r['uuid']] = dict(
            name=r['name'], root=rps[r['root_provider_id']]['uuid'],
            traits={traits[t['trait_id']] for t in rows['resource_provider_traits']
                    if t['resource_provider_id'] == i},
            aggs={aggs[a['aggregate_id']] for a in rows['resource_provider_aggregates']
                  if a['resource_provider_id'] == i},
            inv={rcs[v['resource_class_id']]: v for v in rows['inventories']
                 if v['resource_provider_id'] == i},
            used={})
        for a in rows['allocations']:
            if a['resource_provider_id'] == i:
                k = rcs[a['resource_class_id']]
                out[r['uuid']]['used'][k] = out[r['uuid']]['used'].get(k, 0) + a['used']
    return out, set(traits.values()), set(rcs.values()), set(aggs.values())


def room(pr, rc, amount):
    v = pr['inv'].get(rc)
    if v is None:
        return False
    used = pr['used'].get(rc, 0)
    return (used + amount <= (v['total'] - v['reserved']) * v['allocation_ratio']
            and v['min_unit'] <= amount <= v['max_unit']
            and amount % v['step_size'] == 0)


def oracle(st, f):
    """f: dict of parsed filters -> set of uuids, or 400"""
    provs, traits, rcs, aggs = st
    for g in f.get('required', []):
        for t in g['any']:
            if t not in traits:
                return 400
    for t in f.get('forbidden', []):
        if t not in traits:
            return 400
    for rc in f.get('resources', {}):
        if rc not in rcs:
            return 400
    out = set()
    for u, pr in provs.items():
        ok = True
        if 'name' in f and pr['name'] != f['name']:
            ok = False
        if 'uuid' in f and u != f['uuid']:
            ok = False
        if 'in_tree' in f:
            t = provs.get(f['in_tree'])
            if t is None or pr['root'] != t['root']:
                ok = False
        for g in f.get('member_of', []):
            if not (pr['aggs'] & set(g)):
                ok = False
        if pr['aggs'] & set(f.get('forbidden_aggs', [])):
            ok = False
        for g in f.get('required', []):
            if not (pr['traits'] & set(g['any'])):
                ok = False
        if pr['traits'] & set(f.get('forbidden', [])):
            ok = False
        for rc, amount in f.get('resources', {}).items():
            if not room(pr, rc, amount):
                ok = False
        if ok:
            out.add(u)
    return out


def to_query(f):
    q = []
    for k in ('name', 'uuid', 'in_tree'):
        if k in f:
            q.append('%s=%s' % (k, f[k]))
    for g in f.get('member_of', []):
        q.append('member_of=' + ('in:' + ','.join(g) if len(g) > 1 else g[0]))
    fa = f.get('forbidden_aggs', [])
    if fa:
        q.append('member_of=' + ('!in:' + ','.join(fa) if len(fa) > 1 else '!' + fa[0]))
    for g in f.get('required', []):
        q.append('required=' + ('in:' + ','.join(g['any']) if len(g['any']) > 1
                                else g['any'][0]))
    if f.get('forbidden'):
        q.append('required=' + ','.join('!' + t for t in f['forbidden']))
    if f.get('resources'):
        q.append('resources=' + ','.join('%s:%d' % kv for kv in sorted(f['resources'].items())))
    return '&'.join(q)


def filters_for(b, st, rnd, exhaustive):
    provs, traits, rcs, aggs = st
    names = sorted(b.names)
    uuids = [b.names[n] for n in names]
    agg = [cands.u(0xA00 + a) for a in (1, 2)]
    atoms = {
        'name': [{'name': names[0]}, {'name': 'nope'}, {'name': ''}],
        'uuid': [{'uuid': uuids[0]}, {'uuid': UNKNOWN_RP}],
        'in_tree': [{'in_tree': uuids[-1]}, {'in_tree': uuids[1 % len(uuids)]},
                    {'in_tree': UNKNOWN_RP}],
        'member_of': [{'member_of': [[agg[0]]]}, {'member_of': [[agg[0], agg[1]]]},
                      {'member_of': [[agg[0]], [agg[1]]]},
                      {'member_of': [[UNKNOWN_AGG]]},
                      {'member_of': [[agg[0]], [UNKNOWN_AGG]]},
                      {'member_of': [[agg[0], UNKNOWN_AGG]]},
                      {'forbidden_aggs': [agg[1]]},
                      {'member_of': [[agg[0]]], 'forbidden_aggs': [agg[1], UNKNOWN_AGG]}],
        'required': [{'required': [{'any': ['CUSTOM_T0']}]},
                     {'required': [{'any': ['CUSTOM_T0', cands.SHARE]}]},
                     {'required': [{'any': ['CUSTOM_T0']}, {'any': [cands.SHARE]}]},
                     {'forbidden': ['CUSTOM_T0']},
                     {'required': [{'any': [cands.SHARE]}], 'forbidden': ['CUSTOM_T0']},
                     {'required': [{'any': ['CUSTOM_NOPE']}]}],
        'resources': [{'resources': {'VCPU': 1}}, {'resources': {'VCPU': 2, 'MEMORY_MB': 64}},
                      {'resources': {'VCPU': 1, 'DISK_GB': 30}},
                      {'resources': {'DISK_GB': 11}}, {'resources': {'MEMORY_MB': 48}},
                      {'resources': {'VCPU': 8}}, {'resources': {'CUSTOM_NOPE': 1}}],
    }
    keys = sorted(atoms)
    singles = [a for k in keys for a in atoms[k]]
    for a in singles:
        yield a
    pairs = []
    for k1, k2 in itertools.combinations(keys, 2):
        for a in atoms[k1]:
            for c in atoms[k2]:
                pairs.append(dict(a, **c))
    if not exhaustive:
        rnd.shuffle(pairs)
        pairs = pairs[:60]
    for x in pairs:
        yield x
    for _ in range(200 if exhaustive else 30):
        f = {}
        for k in rnd.sample(keys, rnd.randint(3, 5)):
            f.update(rnd.choice(atoms[k]))
        yield f


def search(r=None, tier='quick', seed=5):
    rnd = random.Random(seed)
    tried = 0
    for tname, topo in cands.TOPOLOGIES:
        with Placement() as p:
            b = cands.Builder(p)
            topo(b)
            p.req('PUT', '/traits/CUSTOM_T0', version=V)
            st = state(p)
            for f in filters_for(b, st, rnd, tier != 'quick'):
                q = to_query(f)
                want = oracle(st, f)
                resp = p.req('GET', '/resource_providers?' + q, version=V)
                tried += 1
                if want == 400:
                    ok = resp.status_int == 400
                    got = resp.status_int
                else:
                    got = (set(x['uuid'] for x in resp.json['resource_providers'])
                           if resp.status_int == 200 else resp.status_int)
                    ok = got == want
                if not ok:
                    inv = {v: k for k, v in b.names.items()}
                    nm = lambda s: sorted(inv.get(x, x) for x in s) \
                        if isinstance(s, set) else s
                    return {'reproduced': True, 'tried': tried, 'witness': {
                        'topology': tname, 'query': q, 'returned': nm(got),
                        'matching': nm(want),
                        'observed': 'GET /resource_providers?%s returned %s, the '
                                    'providers satisfying the filters are %s'
                                    % (q, nm(got), nm(want))}}
    return {'reproduced': False, 'tried': tried}


if __name__ == '__main__':
    print(json.dumps(search(None, sys.argv[1] if len(sys.argv) > 1 else 'quick'),
                     indent=1, default=str))
