"""Replay / bounded stand-in for C09: random histories of POST / PUT / DELETE
/resource_providers over a pool of 8 providers; after every request the raw
rows must form a forest with correct root pointers, rejected requests change
nothing, and the statuses follow a reference model of the hierarchy."""
import json
import os
import random
import sys

sys.path.insert(0, os.path.dirname(os.path.abspath(__file__)))
from harness import Placement      # noqa: E402

POOL = ['%08x-0000-4000-8000-%012x' % (0x900 + i, i) for i in range(8)]


def rows(p):
    d = p.dump(('resource_providers',))['resource_providers']
    return d


def cols(p):
    from placement.db.sqlalchemy import models
    return [c.name for c in models.ResourceProvider.__table__.columns
            if c.name not in ('created_at', 'updated_at')]


def check_forest(p, names):
    rs = [dict(zip(names, r)) for r in rows(p)]
    by_id = {r['id']: r for r in rs}
    for r in rs:
        seen = set()
        cur = r
        while cur['parent_provider_id'] is not None:
            if cur['id'] in seen:
                return 'provider %s is its own ancestor' % r['uuid']
            seen.add(cur['id'])
            nxt = by_id.get(cur['parent_provider_id'])
            if nxt is None:
                return 'parent %s of %s does not exist' % (
                    cur['parent_provider_id'], cur['uuid'])
            cur = nxt
        if r['root_provider_id'] != cur['id']:
            return ('root_provider_id of %s is %s but its parent chain ends at %s'
                    % (r['uuid'], r['root_provider_id'], cur['id']))
    return None


class Model(object):
    """reference semantics of the hierarchy"""

    def __init__(self):
        self.parent = {}      # uuid -> parent uuid or None

    def ancestors(self, u):
        out = []
        while self.parent.get(u) is not None:
            u = self.parent[u]
            out.append(u)
        return out

    def children(self, u):
        return [c for c, q in self.parent.items() if q == u]


def step(p, model, rnd, minor, names):
    op = rnd.choice(['post', 'post', 'put', 'put', 'put', 'delete'])
    u = rnd.choice(POOL)
    parent = rnd.choice(POOL + [None, None])
    return apply(p, model, op, u, parent, minor, names)


def apply(p, model, op, u, parent, minor, names):
    v = '1.%d' % minor
    before = rows(p)
    expect = None
    if op == 'post':
        body = {'name': 'n-' + u[:8], 'uuid': u}
        if minor >= 14:
            body['parent_provider_uuid'] = parent
        else:
            parent = None
        r = p.req('POST', '/resource_providers', body, version=v)
        rej = ()
        if u in model.parent:
            rej += (409,)
        if parent is not None and (parent not in model.parent or parent == u):
            rej += (400,)
        if rej:
            # several reasons to refuse: either status is a correct refusal
            expect = rej
        else:
            expect = (200, 201)
            ok_effect = lambda: model.parent.__setitem__(u, parent)
    elif op == 'put':
        body = {'name': 'n-' + u[:8]}
        if minor >= 14:
            body['parent_provider_uuid'] = parent
        r = p.req('PUT', '/resource_providers/' + u, body, version=v)
        if u not in model.parent:
            expect = (404,)
        elif minor < 14:
            expect = (200,)
            ok_effect = lambda: None
        else:
            cur = model.parent[u]
            if parent is not None:
                if parent not in model.parent:
                    expect = (400,)
                elif cur is not None and cur != parent and minor < 37:
                    expect = (400,)
                elif parent == u or u in model.ancestors(parent):
                    expect = (400,)
                else:
                    expect = (200,)
                    ok_effect = lambda: model.parent.__setitem__(u, parent)
            else:
                if cur is not None and minor < 37:
                    expect = (400,)
                else:
                    expect = (200,)
                    ok_effect = lambda: model.parent.__setitem__(u, None)
    else:
        r = p.req('DELETE', '/resource_providers/' + u, version=v)
        if u not in model.parent:
            expect = (404,)
        elif model.children(u):
            expect = (409,)
        else:
            expect = (204,)
            ok_effect = lambda: model.parent.pop(u)
    req = [op.upper(), u, parent, v]
    if r.status_int not in expect:
        return req, 'status %d, the hierarchy semantics prescribe %s' % (
            r.status_int, '/'.join(map(str, expect)))
    if r.status_int >= 400:
        if rows(p) != before:
            return req, 'rejected request (%d) changed the providers table' % r.status_int
    else:
        ok_effect()
    bad = check_forest(p, names)
    if bad:
        return req, bad
    # stored parents equal the model's
    rs = [dict(zip(names, x)) for x in rows(p)]
    by_id = {x['id']: x['uuid'] for x in rs}
    got = {x['uuid']: by_id.get(x['parent_provider_id']) for x in rs}
    if got != model.parent:
        return req, 'stored parent links %s differ from the requested ones %s' % (got, model.parent)
    # the API reports the same root
    if op != 'delete' and r.status_int < 300 and minor >= 14:
        g = p.req('GET', '/resource_providers/' + u, version=v).json
        top = ([u] + model.ancestors(u))[-1]
        if g.get('root_provider_uuid') != top:
            return req, 'reported root %s, parent links lead to %s' % (
                g.get('root_provider_uuid'), top)
    return req, None


A, B, C, D, E, G = POOL[:6]
# (op, provider, parent): a -> b -> c chain, d -> e, g alone; then the moves
# the property names, each history at one microversion
SETUP = [('post', A, None), ('post', B, A), ('post', C, B), ('post', D, None),
         ('post', E, D), ('post', G, None)]
SCENARIOS = [
    [('put', D, A)],                       # first parent for a root with a child
    [('put', C, A)],                       # move inside the tree
    [('put', C, D)],                       # move to another tree
    [('put', B, None)],                    # detach a subtree
    [('put', A, C)], [('put', A, A)],      # loops
    [('put', B, D), ('put', D, C)],        # move, then loop through the move
    [('put', G, E), ('put', E, None), ('put', E, C)],
    [('delete', A, None)], [('delete', D, None)],
    [('delete', C, None), ('delete', B, None), ('put', D, A), ('delete', A, None)],
    [('put', B, POOL[7])],                 # missing parent
    [('put', D, C), ('put', C, G), ('put', G, None)],
]


def empty(p):
    for _ in range(len(POOL) + 1):
        for u in POOL:
            p.req('DELETE', '/resource_providers/' + u, version='1.39')


def check_subtrees(p, names):
    """A-subtree, bounded: on the current table ResourceProvider.get_subtree
    returns exactly the descendants (self included), each once"""
    from placement import context as pctx
    from placement.objects import resource_provider as rp_obj
    rs = [dict(zip(names, r)) for r in rows(p)]
    by_id = {r['id']: r for r in rs}
    kids = {}
    for r in rs:
        kids.setdefault(r['parent_provider_id'], []).append(r['id'])
    ctx = pctx.RequestContext(config=p.conf)
    for r in rs:
        want, stack = set(), [r['id']]
        while stack:
            x = stack.pop()
            want.add(x)
            stack.extend(kids.get(x, []))
        got = [x.id for x in rp_obj.ResourceProvider.get_by_uuid(
            ctx, r['uuid']).get_subtree(ctx)]
        if sorted(got) != sorted(want):
            return ('get_subtree of %s returns ids %s, its descendants are %s'
                    % (r['uuid'], sorted(got), sorted(want)))
    return None


def search(model=None, tier='quick', seed=1):
    n_hist, n_steps = (40, 25) if tier == 'quick' else (400, 40)
    rnd = random.Random(seed)
    tried = 0
    with Placement() as p:
        names = cols(p)
        for minor in (14, 36, 37, 39):
            for sc in SCENARIOS:
                empty(p)
                mdl = Model()
                hist = []
                for op, u, parent in SETUP + sc:
                    req, bad = apply(p, mdl, op, u, parent, minor, names)
                    hist.append(req)
                    tried += 1
                    if bad:
                        return {'reproduced': True, 'tried': tried, 'witness': {
                            'history': hist, 'observed': bad}}
                bad = check_subtrees(p, names)
                if bad:
                    return {'reproduced': True, 'tried': tried, 'witness': {
                        'history': hist, 'observed': bad}}
        for h in range(n_hist):
            minor = rnd.choice([13, 14, 36, 37, 39, 39])
            empty(p)
            mdl = Model()
            hist = []
            for s in range(n_steps):
                req, bad = step(p, mdl, rnd, minor, names)
                hist.append(req)
                tried += 1
                if bad:
                    return {'reproduced': True, 'tried': tried, 'witness': {
                        'history': hist, 'observed': bad}}
                if s % 5 == 4:
                    bad = check_subtrees(p, names)
                    if bad:
                        return {'reproduced': True, 'tried': tried, 'witness': {
                            'history': hist, 'observed': bad}}
    return {'reproduced': False, 'tried': tried}


if __name__ == '__main__':
    print(json.dumps(search(None, sys.argv[1] if len(sys.argv) > 1 else 'quick'),
                     indent=1, default=str))
