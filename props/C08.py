"""C08 -- stored records never dangle; entities in use cannot be removed.

Referential invariant RI over the ghost tables:
  every allocation row names an existing provider and an inventory of its
  class on that provider; every inventory row an existing provider; every
  trait / aggregate association an existing provider.
Each statement sequence that removes a referenced row is proved to refuse
(and change nothing) while it is referenced:
  _delete_inventory_from_provider (inventory with allocations),
  ResourceProvider.destroy (allocations, children; removes its inventories and
  associations -- script shared with C09), ResourceClass.destroy (inventory of
  that class) and Trait.destroy (associated) -- scripts shared with C19;
each statement sequence that adds a referencing row is proved to run in a
transaction that ends with the generation compare-and-swap on the provider
row, which fails unless that row exists (mutator scripts shared with C05);
allocation rows are only written after _check_capacity_exceeded found the
inventory row (C01.set.post.capacity).  The handlers map the refusals to the
statuses the property names."""
import sys
import os
sys.path.insert(0, os.path.dirname(os.path.dirname(os.path.abspath(__file__))))

import z3

from pyvc.core import Undecided
from pyvc.interp import Interp, PyRaise
from pyvc.values import Sym, Obj, VDict, VList, SSet, Native, BoundMethod, \
    sort_of
from pyvc.ghostdb import GhostDB, PAIR
from pyvc import runner, ops, sqltext
from pyvc.ops import to_term
from contracts import lib, classes, orm, handlers as H
from props import common, mutators
import C01
import C09
import C19

from placement import exception
from placement.db.sqlalchemy import models
from placement.objects import resource_provider as rp_obj


class _Rows(Native):
    def __init__(self, rows):
        self.rows = rows

    def getattr(self, I, name):
        if name == 'fetchall':
            return BoundMethod(self, _FetchAll())
        raise Undecided('result.%s' % name)


class _FetchAll(Native):
    def call(self, I, args, kwargs):
        return args[0].rows


INUSE_TEXT = (
    "SELECT allocations.resource_class_id AS resource_class FROM allocations "
    "WHERE allocations.resource_provider_id = ?0 AND "
    "allocations.resource_class_id IN (?1) GROUP BY "
    "allocations.resource_class_id")


def inuse_select(I, stmt, binds):
    """the classes among ?1 of which provider ?0 has allocation rows"""
    text, values = sqltext.normal_form(stmt, binds)
    I.ex.oblige('C08.sql.inventory_in_use', text == INUSE_TEXT, 'A',
                {'built': text})
    if text != INUSE_TEXT or len(values) != 2:
        raise Undecided('in-use SELECT differs from its spec')
    rp = to_term(values[0], 'int')
    rcs = values[1]
    if not isinstance(rcs, SSet):
        raise Undecided('to_delete is %r' % (rcs,))
    al = I.db.tables['allocations']

    def hit(k):
        return z3.And(z3.Select(al.exists, k),
                      z3.Select(al.data['resource_provider_id'], k) == rp,
                      z3.Select(rcs.arr, z3.Select(
                          al.data['resource_class_id'], k)))
    if I.ex.branch(z3.Bool(I.ex.fresh_name('in_use'))):
        w = z3.Int(I.ex.fresh_name('alloc'))
        I.ex.assume(hit(w))
        I.ghost['c08.in_use_witness'] = w
        return _Rows(VList([(Sym(z3.Select(al.data['resource_class_id'], w),
                                 'int'),)]))
    k = z3.Int('k!inuse')
    I.ex.hyp(ops.forall([k], z3.Not(hit(k)), patterns=[z3.Select(al.exists, k)]))
    return _Rows(VList([]))


def registry():
    reg = lib.base_registry()
    reg['fields'].update(classes.FIELDS)
    reg['getattr'] = lib.context_getattr_hook
    reg['selects']['_delete_inventory_from_provider'] = inuse_select
    orm.install(reg, models)
    return reg


def script_delete_inventory(ex):
    I = Interp(ex, registry())
    I.db = GhostDB(I, 'db')
    for h in I.db.row_invariants():
        ex.hyp(h)
    ctx = lib.CtxStub()
    I.ghost['ctx'] = ctx
    rp = I.fresh('rp', ('obj', classes.RP))
    ex.assume(z3.Not(z3.Select(I.fld_none(classes.RP, 'id'), rp.ref)))
    to_delete = I.fresh_set('to_delete', 'int')
    db0 = I.db.snapshot()
    inv0 = I.db.tables['inventories']
    al = I.db.tables['allocations']
    rid = to_term(I.read_field(rp, 'id'), 'int')
    # RI on entry: the class of every allocation row is a known class
    k0 = z3.Int('k!c08pre')
    ex.hyp(ops.forall([k0], z3.Implies(
        z3.Select(al.exists, k0),
        ctx.rc_cache.known_id(z3.Select(al.data['resource_class_id'], k0))),
        patterns=[z3.Select(al.exists, k0)]))
    lib.txn_enter(I, 'writer')
    try:
        I.call(rp_obj._delete_inventory_from_provider, [ctx, rp, to_delete], {})
    except PyRaise as pr:
        ex.oblige('C08.delete_inventory.raises.class',
                  issubclass(pr.exc.cls, exception.InventoryInUse), 'C',
                  {'raised': pr.exc.cls.__name__})
        ex.oblige('C08.T.delete_inventory.refusal_changes_nothing',
                  C09.unchanged(I, db0), 'T')
        return
    inv = I.db.tables['inventories']
    ps = sort_of(PAIR)
    p = z3.Const('p!c08', ps)
    k = z3.Int('k!c08')
    gone = z3.And(ps.accessor(0, 0)(p) == rid,
                  z3.Select(to_delete.arr, ps.accessor(0, 1)(p)))
    ex.oblige('C08.T.delete_inventory.exactly_those_rows', ops.forall(
        [p], z3.Select(inv.exists, p) ==
        z3.And(z3.Select(inv0.exists, p), z3.Not(gone)),
        patterns=[z3.Select(inv.exists, p)]), 'T')
    # no allocation row is left without its inventory row
    ex.oblige('C08.T.delete_inventory.no_allocation_dangles', ops.forall(
        [k], z3.Implies(
            z3.And(z3.Select(al.exists, k), z3.Select(inv0.exists, ps.mk(
                z3.Select(al.data['resource_provider_id'], k),
                z3.Select(al.data['resource_class_id'], k)))),
            z3.Select(inv.exists, ps.mk(
                z3.Select(al.data['resource_provider_id'], k),
                z3.Select(al.data['resource_class_id'], k)))),
        patterns=[z3.Select(al.exists, k)]), 'T')


# --------------------------------------------------------------------------
# handlers: refusal -> status
STATUS = {
    ('DELETE', '/resource_providers/{uuid}'): {
        exception.CannotDeleteParentResourceProvider: 409,
        exception.ResourceProviderInUse: 409},
    ('DELETE', '/resource_providers/{uuid}/inventories'): {
        exception.InventoryInUse: 409,
        exception.ResourceProviderConcurrentUpdateDetected: 409},
    ('DELETE', '/resource_providers/{uuid}/inventories/{resource_class}'): {
        exception.InventoryInUse: 409,
        exception.ResourceProviderConcurrentUpdateDetected: 409},
    ('PUT', '/resource_providers/{uuid}/inventories'): {
        exception.InventoryInUse: 409},
    ('DELETE', '/resource_classes/{name}'): {
        exception.ResourceClassInUse: 409,
        exception.ResourceClassCannotDeleteStandard: 400},
    ('DELETE', '/traits/{name}'): {
        exception.TraitInUse: 409,
        exception.TraitCannotDeleteStandard: 400},
}


def make_status_script(route, method, wobj):
    op = '%s %s' % (method, route)
    want = STATUS[(method, route)]

    def script(ex):
        reg = common.full_registry()
        I, ctx, ver, req = common.new_interp(ex, reg)
        out = common.run(I, wobj, req)
        last = None
        for e in I.events:
            if e[0] == 'contract.raised':
                last = e
        if last is None:
            return
        cls = last[2]
        for k, status in want.items():
            if issubclass(cls, k):
                got = H.status_of(out[1]) if out[0] == 'raise' else None
                if out[0] != 'raise':
                    # swallowed: only acceptable for the clean-up style
                    # handlers, none of which is in this table
                    got = 'success'
                ex.oblige('C08.T.status', got == status, 'T',
                          {'operation': op, 'raised': cls.__name__,
                           'status': got,
                           'signature': '%s answers %s to %s'
                                        % (op, got, cls.__name__)})
    return script


def replay_c08(r):
    sys.path.insert(0, os.path.join(runner.VERIF, 'replay'))
    import c08
    return c08.search(r, TIER[0])


TIER = ['quick']


def build(tier, seed):
    chk = runner.Check('C08', tier, seed)
    TIER[0] = tier
    chk.script('_delete_inventory_from_provider', script_delete_inventory,
               ['placement/objects/resource_provider.py:_delete_inventory_from_provider'])
    chk.script('ResourceProvider.destroy', C09.script_delete,
               ['placement/objects/resource_provider.py:ResourceProvider.destroy',
                'placement/objects/resource_provider.py:ResourceProvider._delete'])
    chk.script('ResourceClass.destroy', C19.script_rc_destroy,
               ['placement/objects/resource_class.py:ResourceClass.destroy',
                'placement/objects/resource_class.py:ResourceClass._destroy'])
    chk.script('Trait.destroy', C19.script_trait_destroy,
               ['placement/objects/trait.py:Trait.destroy',
                'placement/objects/trait.py:Trait._destroy_in_db'])
    chk.script('check_capacity_exceeded', C01.script_check,
               ['placement/objects/allocation.py:_check_capacity_exceeded'])
    chk.script('set_allocations', C01.script_set,
               ['placement/objects/allocation.py:_set_allocations'])
    mutators.add(chk)
    for route, method, wobj in H.routes():
        if (method, route) in STATUS:
            chk.script('status %s %s' % (method, route),
                       make_status_script(route, method, wobj),
                       common.handler_names(wobj))
    chk.keep_prefixes = ('C08.', 'C01.', 'C09.T.delete', 'C09.delete', 'C19.T.rc_destroy',
                         'C19.rc_destroy', 'C19.T.trait_destroy',
                         'C19.trait_destroy', 'mut.', 'typestate.', 'frame.')
    chk.replayer('C08.', replay_c08)
    chk.replayer('C09.', replay_c08)
    chk.replayer('C01.', replay_c08)
    chk.replayer('C19.', replay_c08)
    chk.fallback('B4.c08.histories', lambda: replay_c08(None),
                 'directed and random histories mixing creation, replacement and deletion of providers, inventories, classes, traits, aggregates, allocations and reshapes on the real stack; after every request every stored reference is resolved in the raw tables, refused deletions are compared before/after; quick: 30 histories x 40 requests, thorough: 300 x 60',
                 always=True)
    chk.assume('A-int', 'A-heap', 'A-orm', 'A-sql', 'A-key', 'A-txn',
               'A-lib', 'A-nofault')
    return chk


if __name__ == '__main__':
    runner.main(build)
