"""C01 -- allocation writes never over-commit inventory or break unit
constraints.  Obligations over the real _check_capacity_exceeded,
_set_allocations, replace_all, reshape and the handlers."""
import sys
import os
sys.path.insert(0, os.path.dirname(os.path.dirname(os.path.abspath(__file__))))

import collections
import z3

from pyvc.core import Undecided
from pyvc.interp import Interp, PyRaise
from pyvc.values import Sym, Obj, VDict, SList, SSet, SMap, sort_of
from pyvc.ghostdb import GhostDB, PAIR
from pyvc import runner, ops
from contracts import lib, classes
from contracts import allocation as AC

from placement import exception
from placement.objects import allocation as alloc_obj


def registry():
    reg = lib.base_registry()
    reg['fields'].update(classes.FIELDS)
    reg['loops'].update(AC.LOOPS)
    reg['selects'].update(AC.SELECTS)
    reg['havoc_types'] = dict(AC.HAVOC_TYPES)
    reg['classes'][collections.defaultdict] = \
        lambda I, a, k: VDict(default=a[0] if a else None)
    return reg


def setup_allocs(I, strengthen=None):
    """Symbolic pre-state: any database satisfying the row invariants, any
    list of Allocation objects satisfying the precondition of the check."""
    ex = I.ex
    I.db = GhostDB(I, 'db')
    for h in I.db.row_invariants():
        ex.hyp(h)
    ctx = lib.CtxStub()
    I.ghost['ctx'] = ctx
    allocs = I.fresh_list('allocs', ('obj', classes.ALLOC))
    n = allocs.len
    j, j2 = z3.Ints('j!pre j2!pre')
    rpid, uuid, rc, used = AC.alloc_terms(I, allocs, j)
    rpid2, uuid2, rc2, used2 = AC.alloc_terms(I, allocs, j2)
    rp = z3.Select(I.fld(classes.ALLOC, 'resource_provider'),
                   z3.Select(allocs.arr, j))
    rpt = I.db.tables['resource_providers']
    pre = z3.And(
        used >= 0,
        z3.Not(z3.Select(I.fld_none(classes.RP, 'id'), rp)),
        z3.Not(z3.Select(I.fld_none(classes.RP, 'uuid'), rp)),
        # R6: the uuid of a surviving provider id never changes
        z3.Implies(z3.Select(rpt.exists, rpid),
                   z3.Select(rpt.data['uuid'], rpid) == uuid))
    ex.hyp(ops.forall([j], z3.Implies(z3.And(j >= 0, j < n), pre),
                     patterns=[z3.Select(allocs.arr, j)]))
    # provider objects are consistent: same uuid <=> same id
    ex.hyp(ops.forall([j, j2], z3.Implies(
        z3.And(j >= 0, j < n, j2 >= 0, j2 < n),
        (uuid == uuid2) == (rpid == rpid2)),
        patterns=[z3.MultiPattern(z3.Select(allocs.arr, j),
                                  z3.Select(allocs.arr, j2))]))
    return ctx, allocs


def check_post(I, allocs, n, res, name='C01.check.sound'):
    db = I.db
    psum, ppos = AC.psum_fns(I)
    ps = sort_of(PAIR)
    k = z3.Const('k!post', ps)
    j = z3.Int('j!post')
    rpid, uuid, rc, used = AC.alloc_terms(I, allocs, j)
    inv = db.tables['inventories']
    I.ex.oblige(name + '.capacity', ops.forall([k], z3.Implies(
        ppos(n, k), z3.And(z3.Select(inv.exists, k),
                           AC.capacity_ok(db, k, psum(n, k))))), 'C')
    I.ex.oblige(name + '.units', ops.forall([j], z3.Implies(
        z3.And(j >= 0, j < n, used > 0),
        z3.And(z3.Select(inv.exists, ps.mk(rpid, rc)),
               AC.units_ok(db, ps.mk(rpid, rc), used)))), 'C')
    I.ex.oblige(name + '.providers', ops.forall([j], z3.Implies(
        z3.And(j >= 0, j < n),
        z3.And(z3.Select(res.dom, uuid),
               z3.Select(I.fld(classes.RP, 'uuid'),
                         z3.Select(res.val, uuid)) == uuid))), 'C')


ALLOWED_RAISES = (exception.InvalidInventory,
                  exception.ResourceClassNotFound)


def script_check(ex, mutate_post=None):
    I = Interp(ex, registry())
    ctx, allocs = setup_allocs(I)
    lib.txn_enter(I, 'writer')
    writes0 = len(I.db.writes)
    try:
        res = I.call(alloc_obj._check_capacity_exceeded, [ctx, allocs], {})
    except PyRaise as pr:
        ok = issubclass(pr.exc.cls, ALLOWED_RAISES)
        ex.oblige('C01.check.raises', ok, 'C',
                  {'raised': pr.exc.cls.__name__})
        return
    ex.oblige('C01.check.readonly', len(I.db.writes) == writes0, 'C')
    if not isinstance(res, SMap):
        raise Undecided('result of _check_capacity_exceeded is %r' % (res,))
    if mutate_post:
        mutate_post(I, allocs, res)
    else:
        check_post(I, allocs, allocs.len, res)


def canary_check(ex):
    """Same VC with a postcondition the real code does not satisfy (capacity
    with one unit to spare): must be refuted."""
    def post(I, allocs, res):
        db = I.db
        psum, ppos = AC.psum_fns(I)
        k = z3.Const('k!canary', sort_of(PAIR))
        I.ex.oblige('C01.canary.capacity', ops.forall([k], z3.Implies(
            ppos(allocs.len, k),
            AC.capacity_ok(db, k, psum(allocs.len, k) + 1))), 'canary')
    script_check(ex, post)


def replay_c01(r):
    sys.path.insert(0, os.path.join(runner.VERIF, 'replay'))
    import c01
    return c01.search(r.model, 400)


def build(tier, seed):
    chk = runner.Check('C01', tier, seed)
    chk.script('check_capacity_exceeded', script_check,
               ['placement/objects/allocation.py:_check_capacity_exceeded'])
    chk.canary('canary.check.capacity', canary_check)
    chk.replayer('C01.', replay_c01)
    chk.assume('A-int', 'A-real', 'A-sql', 'A-sum', 'A-key', 'A-heap',
               'A-order', 'A-txn')
    return chk


if __name__ == '__main__':
    runner.main(build)
