"""C01 -- allocation writes never over-commit inventory or break unit
constraints.  Obligations over the real _check_capacity_exceeded,
_set_allocations, replace_all, reshape and the handlers."""
import sys
import os
sys.path.insert(0, os.path.dirname(os.path.dirname(os.path.abspath(__file__))))

import collections
import z3

from pyvc.core import Undecided
from pyvc.interp import Interp, PyRaise
from pyvc.values import Sym, Obj, VDict, SList, SSet, SMap, sort_of
from pyvc.ghostdb import GhostDB, PAIR
from pyvc import runner, ops
from contracts import lib, classes
from contracts import allocation as AC

from placement import exception
from placement.objects import allocation as alloc_obj


def registry():
    reg = lib.base_registry()
    reg['fields'].update(classes.FIELDS)
    reg['loops'].update(AC.LOOPS)
    reg['selects'].update(AC.SELECTS)
    reg['havoc_types'] = dict(AC.HAVOC_TYPES)
    reg['classes'][collections.defaultdict] = \
        lambda I, a, k: VDict(default=a[0] if a else None)
    reg['getattr'] = lib.context_getattr_hook
    return reg


def registry_set():
    """Registry for callers of _check_capacity_exceeded: the callee is used
    through its contract only."""
    from placement.objects import consumer as consumer_obj
    reg = registry()
    reg['loops'].update(AC.SET_LOOPS)
    reg['havoc_types'].update(AC.SET_HAVOC_TYPES)
    reg['calls'][id(alloc_obj._check_capacity_exceeded)] = \
        AC.check_capacity_contract
    reg['calls'][id(consumer_obj.delete_consumers_if_no_allocations)] = \
        AC.delete_consumers_if_no_allocations_contract
    return reg


def setup_set(I):
    ctx, allocs = setup_allocs(I)
    n = allocs.len
    j = z3.Int('j!preset')
    a = z3.Select(allocs.arr, j)
    cons = z3.Select(I.fld(classes.ALLOC, 'consumer'), a)
    rp = z3.Select(I.fld(classes.ALLOC, 'resource_provider'), a)
    I.ex.hyp(ops.forall([j], z3.Implies(z3.And(j >= 0, j < n), z3.And(
        z3.Not(z3.Select(I.fld_none('Consumer', 'id'), cons)),
        z3.Not(z3.Select(I.fld_none('Consumer', 'uuid'), cons)),
        z3.Not(z3.Select(I.fld_none('Consumer', 'generation'), cons)),
        z3.Not(z3.Select(I.fld_none(classes.RP, 'generation'), rp)))),
        patterns=[z3.Select(allocs.arr, j)]))
    return ctx, allocs


SET_RAISES = (exception.InvalidInventory, exception.ResourceClassNotFound,
              exception.ConcurrentUpdateDetected)


def script_set(ex):
    I = Interp(ex, registry_set())
    ctx, allocs = setup_set(I)
    db0 = I.db.snapshot()
    inv0 = I.db.tables['inventories']
    usage0 = I.db.usage
    try:
        I.call(alloc_obj._set_allocations, [ctx, allocs], {})
    except PyRaise as pr:
        ex.oblige('C01.set.raises.class', issubclass(pr.exc.cls, SET_RAISES),
                  'C', {'raised': pr.exc.cls.__name__, 'args': repr(pr.exc.args)})
        # the transaction was rolled back: nothing changed
        same = all(I.db.tables[t].exists is db0.tables[t].exists and
                   all(I.db.tables[t].data[c] is db0.tables[t].data[c]
                       for c in db0.tables[t].data)
                   for t in db0.tables) and I.db.usage is db0.usage
        ex.oblige('C01.set.raises.unchanged', same, 'C')
        return
    db = I.db
    n = allocs.len
    psum, ppos = AC.psum_fns(I)
    ps = sort_of(PAIR)
    k = z3.Const('k!setpost', ps)
    j = z3.Int('j!setpost')
    rpid, uuid, rc, used = AC.alloc_terms(I, allocs, j)
    inv = db.tables['inventories']
    ex.oblige('C01.set.post.inventories_untouched',
              inv.exists is inv0.exists and
              all(inv.data[c] is inv0.data[c] for c in inv0.data), 'C')
    ex.oblige('C01.set.post.capacity', ops.forall([k], z3.Implies(
        ppos(n, k), z3.And(z3.Select(inv.exists, k),
                           AC.capacity_ok(db, k, 0)))), 'C')
    ex.oblige('C01.set.post.units', ops.forall([j], z3.Implies(
        z3.And(j >= 0, j < n, used > 0),
        z3.And(z3.Select(inv.exists, ps.mk(rpid, rc)),
               AC.units_ok(db, ps.mk(rpid, rc), used)))), 'C')
    ex.oblige('C01.set.post.never_grows_elsewhere', ops.forall([k], z3.Implies(
        z3.Not(ppos(n, k)),
        z3.Select(db.usage, k) <= z3.Select(usage0, k))), 'C')
    # generations: every provider / consumer named by the request is bumped
    # exactly once, nobody else's generation changes
    rp0 = db0.tables['resource_providers']
    rp1 = db.tables['resource_providers']
    vis = I.ghost.get('set.visited_rps')
    if vis is not None:
        ki = z3.Int('ki!setpost')
        ex.oblige('C01.set.post.provider_generations', ops.forall(
            [ki], z3.Select(rp1.data['generation'], ki) ==
            z3.Select(rp0.data['generation'], ki) +
            z3.If(AC.rp_bumped(I, vis, rp0, ki), 1, 0),
            patterns=[z3.Select(rp1.data['generation'], ki)]), 'C')
        # (the visited map holds exactly the providers named by the request:
        # C01.check.sound.providers / .providers_from_allocs)
    visc = I.ghost.get('set.visited_consumers')
    if visc is not None:
        c0 = db0.tables['consumers']
        c1 = db.tables['consumers']
        kc = z3.Int('kc!setpost')
        ex.oblige('C01.set.post.consumer_generations', ops.forall(
            [kc], z3.Implies(z3.Select(c1.exists, kc),
                             z3.Select(c1.data['generation'], kc) ==
                             z3.Select(c0.data['generation'], kc) +
                             z3.If(z3.Select(visc.dom, kc), 1, 0)),
            patterns=[z3.Select(c1.data['generation'], kc)]), 'C')
    ex.oblige('C01.set.post.exact', ops.forall([k],
              z3.Select(db.usage, k) == z3.Select(I.ghost['set.usage_d'], k)
              + psum(n, k)), 'C')


def setup_allocs(I, strengthen=None):
    """Symbolic pre-state: any database satisfying the row invariants, any
    list of Allocation objects satisfying the precondition of the check."""
    ex = I.ex
    I.db = GhostDB(I, 'db')
    for h in I.db.row_invariants():
        ex.hyp(h)
    ctx = lib.CtxStub()
    I.ghost['ctx'] = ctx
    allocs = I.fresh_list('allocs', ('obj', classes.ALLOC))
    n = allocs.len
    j, j2 = z3.Ints('j!pre j2!pre')
    rpid, uuid, rc, used = AC.alloc_terms(I, allocs, j)
    rpid2, uuid2, rc2, used2 = AC.alloc_terms(I, allocs, j2)
    rp = z3.Select(I.fld(classes.ALLOC, 'resource_provider'),
                   z3.Select(allocs.arr, j))
    rpt = I.db.tables['resource_providers']
    pre = z3.And(
        used >= 0,
        z3.Not(z3.Select(I.fld_none(classes.RP, 'id'), rp)),
        z3.Not(z3.Select(I.fld_none(classes.RP, 'uuid'), rp)),
        # R6: the uuid of a surviving provider id never changes
        z3.Implies(z3.Select(rpt.exists, rpid),
                   z3.Select(rpt.data['uuid'], rpid) == uuid))
    ex.hyp(ops.forall([j], z3.Implies(z3.And(j >= 0, j < n), pre),
                     patterns=[z3.Select(allocs.arr, j)]))
    # provider objects are consistent: same uuid <=> same id
    ex.hyp(ops.forall([j, j2], z3.Implies(
        z3.And(j >= 0, j < n, j2 >= 0, j2 < n),
        (uuid == uuid2) == (rpid == rpid2)),
        patterns=[z3.MultiPattern(z3.Select(allocs.arr, j),
                                  z3.Select(allocs.arr, j2))]))
    return ctx, allocs


def check_post(I, allocs, n, res, name='C01.check.sound'):
    for cl, f in AC.check_ensures(I, allocs, res).items():
        I.ex.oblige('%s.%s' % (name, cl), f, 'C')


ALLOWED_RAISES = (exception.InvalidInventory,
                  exception.ResourceClassNotFound)


def script_check(ex, mutate_post=None):
    I = Interp(ex, registry())
    ctx, allocs = setup_allocs(I)
    lib.txn_enter(I, 'writer')
    writes0 = len(I.db.writes)
    try:
        res = I.call(alloc_obj._check_capacity_exceeded, [ctx, allocs], {})
    except PyRaise as pr:
        ok = issubclass(pr.exc.cls, ALLOWED_RAISES)
        ex.oblige('C01.check.raises', ok, 'C',
                  {'raised': pr.exc.cls.__name__})
        return
    ex.oblige('C01.check.readonly', len(I.db.writes) == writes0, 'C')
    if not isinstance(res, SMap):
        raise Undecided('result of _check_capacity_exceeded is %r' % (res,))
    if mutate_post:
        mutate_post(I, allocs, res)
    else:
        check_post(I, allocs, allocs.len, res)


def canary_check(ex):
    """Same VC with a postcondition the real code does not satisfy (capacity
    with one unit to spare): must be refuted."""
    def post(I, allocs, res):
        db = I.db
        psum, ppos = AC.psum_fns(I)
        k = z3.Const('k!canary', sort_of(PAIR))
        I.ex.oblige('C01.canary.capacity', ops.forall([k], z3.Implies(
            ppos(allocs.len, k),
            AC.capacity_ok(db, k, psum(allocs.len, k) + 1))), 'canary')
    script_check(ex, post)


def replay_c01(r):
    sys.path.insert(0, os.path.join(runner.VERIF, 'replay'))
    import c01
    return c01.search(getattr(r, 'model', None), 700)


def build(tier, seed):
    chk = runner.Check('C01', tier, seed)
    chk.script('check_capacity_exceeded', script_check,
               ['placement/objects/allocation.py:_check_capacity_exceeded'])
    chk.script('set_allocations', script_set,
               ['placement/objects/allocation.py:_set_allocations',
                'placement/objects/allocation.py:_delete_allocations_for_consumer',
                'placement/objects/resource_provider.py:ResourceProvider.increment_generation',
                'placement/objects/consumer.py:Consumer.increment_generation'])
    chk.script('reshape', script_reshape,
               ['placement/objects/reshaper.py:reshape'])
    chk.canary('canary.check.capacity', canary_check)
    chk.replayer('C01.', replay_c01)
    chk.fallback('B4.c01.boundary_grid', lambda: replay_c01(None),
                 'one provider, one class, 15 inventories x 2 prior usages x <= 24 boundary requests (PUT, POST with 1-2 consumers, POST /reshaper installing the inventory and placing the amount in one request), <= 700 requests',
                 always=True)
    chk.assume('A-int', 'A-real', 'A-sql', 'A-sum', 'A-key', 'A-heap',
               'A-order', 'A-txn')
    return chk


# --------------------------------------------------------------------------
# reshape: the allocations are checked against the inventory that is finally
# installed
RQ = 'reshape'
INVC = classes.INV


def _cls(I, o):
    return z3.Select(I.fld(INVC, 'resource_class'), o)


def rs_inner_entry(I, frame, seq):
    d = frame.locals['inv_by_rc']
    I.ghost['rs.d0'] = (d.dom, d.val)


def rs_inner_inv(I, frame, i, seq):
    """after the first i new records: each of them is THE entry of its class;
    every other entry is the one the dict held on entry"""
    d = frame.locals['inv_by_rc']
    new = frame.locals['new_inv_list']
    if not isinstance(d, SMap) or not isinstance(new, SList):
        raise Undecided('reshape: inv_by_rc / new_inv_list are %r / %r'
                        % (d, new))
    dom0, val0 = I.ghost['rs.d0']
    q = z3.Int('q!rs')
    x = z3.Const('x!rs', d.dom.sort().domain())
    nq = z3.Select(new.arr, q)
    pos = I.ghost['rs.pos']
    repl = z3.And(pos(x) >= 0, pos(x) < i,
                  _cls(I, z3.Select(new.arr, pos(x))) == x)
    return [
        ops.forall([q], z3.Implies(
            z3.And(q >= 0, q < i),
            z3.And(z3.Select(d.dom, _cls(I, nq)),
                   z3.Select(d.val, _cls(I, nq)) == nq)),
            patterns=[z3.Select(new.arr, q)]),
        ops.forall([x], z3.Implies(
            z3.And(z3.Select(d.dom, x), z3.Not(repl)),
            z3.And(z3.Select(dom0, x),
                   z3.Select(d.val, x) == z3.Select(val0, x))),
            patterns=[z3.Select(d.dom, x)]),
        ops.forall([x], z3.Implies(
            z3.Select(d.dom, x), _cls(I, z3.Select(d.val, x)) == x),
            patterns=[z3.Select(d.val, x)]),
    ]


def script_reshape(ex, nprov=1):
    """one provider with a symbolic list of new records (the per-provider
    steps of reshape are independent of each other)"""
    from pyvc.interp import LoopSpec
    from placement.objects import reshaper as reshaper_obj
    from placement.objects import inventory as inv_obj
    from placement.objects import resource_provider as rp_obj
    reg = registry()
    reg['loops'][(RQ, 2)] = LoopSpec(
        invariant=rs_inner_inv, on_entry=rs_inner_entry,
        name='C01.reshape.interim',
        keep=('ctx', 'inventories', 'allocations', 'affected_providers', 'rp',
              'new_inv_list'))
    calls = []

    def get_all(I, a, k):
        cur = I.fresh_list('current_inventory', ('obj', INVC))
        j, j2 = z3.Ints('j!cur j2!cur')
        I.ex.hyp(ops.forall([j], z3.Implies(
            z3.And(j >= 0, j < cur.len),
            z3.Not(z3.Select(I.fld_none(INVC, 'resource_class'),
                             z3.Select(cur.arr, j)))),
            patterns=[z3.Select(cur.arr, j)]))
        I.ex.hyp(ops.forall([j, j2], z3.Implies(
            z3.And(j >= 0, j < j2, j2 < cur.len),
            _cls(I, z3.Select(cur.arr, j)) != _cls(I, z3.Select(cur.arr, j2))),
            patterns=[z3.MultiPattern(z3.Select(cur.arr, j),
                                      z3.Select(cur.arr, j2))]))
        return cur
    reg['calls'][id(inv_obj.get_all_by_resource_provider)] = get_all

    def set_inventory(I, a, k):
        calls.append(('set_inventory', a[0], a[1]))
        return None
    reg['calls'][id(rp_obj.ResourceProvider.set_inventory)] = set_inventory

    def replace_all(I, a, k):
        calls.append(('replace_all', a[1]))
        return None
    reg['calls'][id(alloc_obj.replace_all)] = replace_all
    I = Interp(ex, reg)
    ctx = lib.CtxStub()
    I.ghost['ctx'] = ctx
    inventories = VDict()
    rps, news = [], []
    for n_ in range(nprov):
        rp = I.fresh('rp%d' % n_, ('obj', classes.RP))
        ex.assume(z3.Not(z3.Select(I.fld_none(classes.RP, 'uuid'), rp.ref)))
        new = I.fresh_list('new_inv_list%d' % n_, ('obj', INVC))
        j, j2 = z3.Ints('j!new j2!new')
        ex.hyp(ops.forall([j], z3.Implies(
            z3.And(j >= 0, j < new.len),
            z3.Not(z3.Select(I.fld_none(INVC, 'resource_class'),
                             z3.Select(new.arr, j)))),
            patterns=[z3.Select(new.arr, j)]))
        # one record per class in the request (JSON object keys)
        pos = z3.Function(ex.fresh_name('pos_of_class'),
                          _cls(I, z3.Select(new.arr, j)).sort(), z3.IntSort())
        ex.hyp(ops.forall([j], z3.Implies(
            z3.And(j >= 0, j < new.len),
            pos(_cls(I, z3.Select(new.arr, j))) == j),
            patterns=[z3.Select(new.arr, j)]))
        I.ghost['rs.pos'] = pos
        inventories.items[rp] = new
        rps.append(rp)
        news.append(new)
    allocs = I.fresh_list('allocations', ('obj', classes.ALLOC))
    ja = z3.Int('j!rsalloc')
    ex.hyp(ops.forall([ja], z3.Implies(
        z3.And(ja >= 0, ja < allocs.len),
        z3.Not(z3.Select(I.fld_none(classes.RP, 'uuid'), z3.Select(
            I.fld(classes.ALLOC, 'resource_provider'),
            z3.Select(allocs.arr, ja))))), patterns=[z3.Select(allocs.arr, ja)]))
    try:
        I.call(reshaper_obj.reshape.__wrapped__
               if hasattr(reshaper_obj.reshape, '__wrapped__')
               else reshaper_obj.reshape, [ctx, inventories, allocs], {})
    except PyRaise as pr:
        raise Undecided('reshape raised %s %r' % (pr.exc.cls.__name__,
                                                   pr.exc.args))
    kinds = [c[0] for c in calls]
    ex.oblige('C01.T.reshape.order_interim_check_final',
              'replace_all' in kinds and
              kinds[-nprov:] == ['set_inventory'] * nprov and
              kinds.index('replace_all') == len(kinds) - nprov - 1, 'T',
              {'calls': kinds})
    if 'replace_all' not in kinds:
        return
    ri = kinds.index('replace_all')
    for rp, new in zip(rps, news):
        finals = [c for c in calls[ri + 1:] if c[1].ref.eq(rp.ref)]
        interim = [c for c in calls[:ri] if c[1].ref.eq(rp.ref)]
        ok_final = len(finals) == 1 and isinstance(finals[0][2], SList) and \
            finals[0][2].len.eq(new.len) and finals[0][2].arr.eq(new.arr)
        ex.oblige('C01.T.reshape.final_inventory_is_the_requested_list',
                  ok_final, 'T')
        if not interim:
            # `if not new_inv_list: continue` -- nothing to check against
            ex.oblige('C01.T.reshape.interim_skipped_only_for_empty_list',
                      new.len == 0, 'T')
            continue
        L = interim[-1][2]
        if not isinstance(L, SList):
            raise Undecided('interim inventory list is %r' % (L,))
        q, p_ = z3.Ints('q!rspost p!rspost')
        nq = z3.Select(new.arr, q)
        lp = z3.Select(L.arr, p_)
        ex.oblige('C01.T.reshape.checked_against_the_requested_records',
                  ops.forall([q], z3.Implies(
                      z3.And(q >= 0, q < new.len),
                      z3.Exists([p_], z3.And(p_ >= 0, p_ < L.len, lp == nq))),
                      patterns=[z3.Select(new.arr, q)]), 'T')
        ex.oblige('C01.T.reshape.no_stale_record_of_a_replaced_class',
                  ops.forall([p_, q], z3.Implies(
                      z3.And(p_ >= 0, p_ < L.len, q >= 0, q < new.len,
                             _cls(I, lp) == _cls(I, nq)), lp == nq),
                      patterns=[z3.MultiPattern(z3.Select(L.arr, p_),
                                                z3.Select(new.arr, q))]), 'T')


class _Key(object):
    """hashable wrapper so that a ResourceProvider heap object can key a
    concrete-shape dict (identity of the reference)"""

    def __init__(self, obj):
        self.obj = obj

    def __hash__(self):
        return hash(self.obj.ref.sexpr())

    def __eq__(self, other):
        return isinstance(other, _Key) and self.obj.ref.eq(other.obj.ref)


if __name__ == '__main__':
    runner.main(build)
