"""C05, POST /reshaper: every provider handed to the reshape transaction was
loaded by the handler and carries exactly the generation the request body
gives for it; every provider the body names is handed over.  Together with
the object-layer proofs (reshape ends with rp.set_inventory on that very
object for every key -- C01.T.reshape.* --, set_inventory ends with the
compare-and-swap on the object's generation -- mut.*, leaf.cas.provider) the
write is applied only against the client's generation."""
import sys
import os
sys.path.insert(0, os.path.dirname(os.path.dirname(os.path.abspath(__file__))))

import z3

from pyvc import ops
from pyvc.core import Undecided
from pyvc.interp import LoopSpec
from pyvc.ops import to_term
from pyvc.values import SMap, VDict
from contracts import classes, handlers as H
from props import common

from placement.handlers import reshaper as reshaper_handler
from placement.objects import reshaper as reshaper_obj
from placement import util as putil

HQ = 'reshape'          # qualname of the handler function
RP = classes.RP
INFO = {'operation': 'POST /reshaper', 'signature': 'POST /reshaper guard'}


def _body_gen(I, u):
    """resource_provider_generation the body gives for provider uuid u"""
    outer = I.ghost['c05.map']
    return to_term(outer.value_at(I, u).items['resource_provider_generation'],
                   'int')


def _guarded(I, d, rp):
    """rp (a reference term) is a loaded provider whose uuid the body names
    and whose generation is the body's"""
    outer = I.ghost['c05.map']
    u = z3.Select(I.fld(RP, 'uuid'), rp)
    return z3.And(
        z3.Not(z3.Select(I.fld_none(RP, 'uuid'), rp)),
        z3.Not(z3.Select(I.fld_none(RP, 'generation'), rp)),
        z3.Select(outer.dom, u),
        z3.Select(I.fld(RP, 'generation'), rp) == _body_gen(I, u))


def loop_inv(I, frame, i, seq):
    d = frame.locals['inventory_by_rp']
    if not isinstance(d, SMap):
        raise Undecided('inventory_by_rp is %r' % (d,))
    I.ghost['c05.seq'] = seq
    rp = z3.Int('rp!c05r')
    j = z3.Int('j!c05r')
    key_j = to_term(seq.element(I, j)[0], 'str')
    return [
        ops.forall([rp], z3.Implies(z3.Select(d.dom, rp),
                                    z3.And(rp >= 0, rp <= I.next_ref,
                                           _guarded(I, d, rp))),
                   patterns=[z3.Select(d.dom, rp)]),
        ops.forall([j], z3.Implies(
            z3.And(j >= 0, j < i),
            z3.Exists([rp], z3.And(
                z3.Select(d.dom, rp),
                z3.Select(I.fld(RP, 'uuid'), rp) == key_j)))),
    ]


def script(ex):
    reg = common.full_registry()
    orig_extract = reg['calls'][id(putil.extract_json)]

    def extract(I, a, k):
        inst = orig_extract(I, a, k)
        if isinstance(inst, VDict) and 'c05.map' not in I.ghost:
            I.ghost['c05.map'] = inst.items.get('inventories')
        return inst
    reg['calls'][id(putil.extract_json)] = extract
    orig_reshape = reg['calls'][id(reshaper_obj.reshape)]

    def reshape(I, a, k):
        I.ghost['c05.handed'] = a[1]
        return orig_reshape(I, a, k)
    reg['calls'][id(reshaper_obj.reshape)] = reshape
    reg['loops'][(HQ, 1)] = LoopSpec(
        invariant=loop_inv, name='C05.reshaper.providers',
        keep=('req', 'context', 'want_version', 'reshaper_schema', 'data',
              'inventories', 'allocations'))
    reg.setdefault('havoc_types', {})[(HQ, 'inventory_by_rp')] = \
        ('map', ('obj', RP), ('list', ('obj', classes.INV)))
    wobj = [w for r, m, w in H.routes() if (m, r) == ('POST', '/reshaper')][0]
    I, ctx, ver, req = common.new_interp(ex, reg)
    common.run(I, wobj, req)
    d = I.ghost.get('c05.handed')
    if d is None:
        return                  # rejected before the reshape transaction
    if not isinstance(d, SMap):
        if isinstance(d, VDict) and not d.items:
            # no provider named: nothing to guard
            outer = I.ghost['c05.map']
            u = z3.Const('u!c05r', z3.StringSort()
                         if False else outer.dom.sort().domain())
            ex.oblige('C05.T.reshaper.every_named_provider_handed_over',
                      ops.forall([u], z3.Not(z3.Select(outer.dom, u))), 'T',
                      INFO)
            return
        raise Undecided('reshape received %r' % (d,))
    rp0 = I.fresh('rp0', 'int').t
    ex.oblige('C05.T.guard', z3.Implies(z3.Select(d.dom, rp0),
                                        _guarded(I, d, rp0)), 'T', INFO)
    seq = I.ghost['c05.seq']
    j0 = I.fresh('j0', 'int').t
    rp = z3.Int('rp!c05post')
    ex.oblige('C05.T.reshaper.every_named_provider_handed_over', z3.Implies(
        z3.And(j0 >= 0, j0 < seq.len),
        z3.Exists([rp], z3.And(
            z3.Select(d.dom, rp),
            z3.Select(I.fld(RP, 'uuid'), rp) ==
            to_term(seq.element(I, j0)[0], 'str')))), 'T', INFO)
