"""C06 -- consumer generations prevent lost updates of a consumer's
allocations."""
import sys
import os
sys.path.insert(0, os.path.dirname(os.path.dirname(os.path.abspath(__file__))))

import z3

from pyvc import runner, ops
from pyvc.interp import PyRaise
from pyvc.values import Obj, SList, VList
from pyvc.ops import to_term
from contracts import handlers as H, classes
from props import common, gen_scripts, leafs

ALLOC_OPS = [('PUT', '/allocations/{consumer_uuid}'), ('POST', '/allocations'),
             ('POST', '/reshaper')]


def write_script(route, method, wobj):
    """The Allocation objects handed to the write transaction carry the
    Consumer object whose generation ensure_consumer checked (not a consumer
    re-read later), so the compare-and-swap inside the transaction is against
    the generation the client sent."""
    op = '%s %s' % (method, route)

    def script(ex):
        I, ctx, ver, req = common.new_interp(ex, interference=True)
        out = common.run(I, wobj, req)
        checked = set()
        for e in I.events:
            if e[0] in ('ensure_consumer.existing', 'created.consumer'):
                checked.add(e[1].ref.sexpr())
        for e in I.events:
            if e[0] != 'replace_all' and not (
                    e[0] == 'call' and e[1] == 'reshaper.reshape'):
                continue
            allocs = e[1] if e[0] == 'replace_all' else e[2][2]
            info = {'operation': op,
                    'signature': op + ' writes with the checked consumer'}
            if isinstance(allocs, VList):
                ok = all(I.read_field(a, 'consumer').ref.sexpr() in checked
                         for a in allocs.items)
                ex.oblige('C06.T.write_uses_checked_consumer', ok, 'T', info)
            elif isinstance(allocs, SList) and method == 'PUT':
                j = z3.Int('j!c06')
                cons = z3.Select(I.fld(classes.ALLOC, 'consumer'),
                                 z3.Select(allocs.arr, j))
                refs = [ev[1].ref for ev in I.events if ev[0] in (
                    'ensure_consumer.existing', 'created.consumer')]
                ex.oblige('C06.T.write_uses_checked_consumer', ops.forall(
                    [j], z3.Implies(z3.And(j >= 0, j < allocs.len),
                                    z3.Or(*[cons == r for r in refs]))), 'T',
                    info)
    return script


def replay_c06(r):
    sys.path.insert(0, os.path.join(runner.VERIF, 'replay'))
    import c06
    return c06.run()


def build(tier, seed):
    chk = runner.Check('C06', tier, seed)
    chk.script('handlers.util.ensure_consumer', gen_scripts.ensure_consumer_script,
               ['placement/handlers/util.py:ensure_consumer',
                'placement/handlers/util.py:_create_consumer'])
    for route, method, wobj in H.routes():
        if (method, route) in ALLOC_OPS:
            chk.script('%s %s' % (method, route),
                       write_script(route, method, wobj),
                       common.handler_names(wobj))
    leafs.add(chk, ['cas.consumer', 'consumer.update'])
    # _set_allocations bumps the generation of every provider and consumer
    # the request names exactly once, inside the write transaction, and
    # nobody else's (inductive proof of its two generation loops, shared
    # with C01)
    import C01
    chk.script('set_allocations', C01.script_set,
               ['placement/objects/allocation.py:_set_allocations'])
    chk.replayer('', replay_c06)
    chk.fallback('B4.c06.races', lambda: replay_c06(None),
                 '5 scenarios on the real WSGI stack: same-generation writers, '
                 'creation race with null, stale emptying write, stale '
                 'generations sequentially, writer two generations behind',
                 always=True)
    chk.assume('A-txn', 'A-lib', 'A-heap', 'A-nofault', 'A-key')
    return chk


if __name__ == '__main__':
    runner.main(build)
