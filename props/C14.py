"""C14 -- each microversion exposes exactly its documented surface."""
import sys
import os
sys.path.insert(0, os.path.dirname(os.path.dirname(os.path.abspath(__file__))))

import types
import z3

from pyvc import runner, ops
from pyvc.core import Undecided
from pyvc.interp import Interp, PyRaise
from pyvc.values import VDict, Sym, Native, ExcVal, BoundMethod
from pyvc.ops import to_term
from contracts import handlers as H, web, features_c14 as F, lib
from props import common

from placement import microversion as mv
from placement import util as putil

MAXM = web.MAX_MINOR


def route_script(route, method, wobj):
    """Availability: the handler chain lets the request through exactly from
    the documented version on, and answers the documented status below."""
    op = '%s %s' % (method, route)
    first, below = F.INTRODUCED.get((method, route), (0, None))

    def script(ex):
        reg = common.full_registry()

        class Reached(Exception):
            pass
        I, ctx, ver, req = common.new_interp(ex, reg)
        inner = H.innermost_handlers(wobj)
        marks = {}

        def hook(I_, fn, args, kwargs):
            if any(fn is f for f in inner):
                marks['fn'] = fn
                raise Reached()
            return lib.function_hook(I_, fn, args, kwargs)
        reg['function_hook'] = hook
        info = {'operation': op, 'signature': op + ' availability'}
        try:
            H.run_handler(I, wobj, req)
            ex.oblige('C14.T.route.unexpected_return', False, 'T', info)
        except Reached:
            ex.oblige('C14.T.route.available_from', ver.minor >= first, 'T',
                      dict(info, first='1.%d' % first))
            # the overload that serves this version is the one whose window
            # holds it
            fn = marks['fn']
            for mn, mx, f in _windows(wobj):
                if _raw(f) is fn:
                    ex.oblige('C14.T.route.window', z3.And(
                        ver.minor >= mn.minor, ver.minor <= mx.minor), 'T',
                        dict(info, signature=op + ' overload window'))
        except PyRaise as pr:
            st = H.status_of(pr.exc)
            if st in (404, 405) and not I.events_of('can'):
                ex.oblige('C14.T.route.absent_below', z3.And(
                    ver.minor < first, st == below), 'T',
                    dict(info, status=st, first='1.%d' % first))
            else:
                # 406 / 415 from the accept / content-type decorators
                ex.oblige('C14.T.route.other_exit', st in (406, 415), 'T',
                          dict(info, status=st))
    return script


def _windows(wobj):
    out = []
    seen = set()

    def walk(f):
        if id(f) in seen:
            return
        seen.add(id(f))
        if hasattr(f, 'func') and not isinstance(f, types.FunctionType):
            return walk(f.func)
        if isinstance(f, types.FunctionType) and f.__closure__:
            cells = dict(zip(f.__code__.co_freevars,
                             [c.cell_contents for c in f.__closure__]))
            if f.__code__.co_name == 'decorated_func' and 'qualified_name' in cells:
                out.extend(mv.VERSIONED_METHODS.get(cells['qualified_name'], []))
                return
            for c in cells.values():
                if isinstance(c, types.FunctionType):
                    walk(c)
    walk(wobj)
    return out


def _raw(f):
    while isinstance(f, types.FunctionType) and f.__closure__ and \
            f.__code__.co_name in ('decorated_function',):
        nxt = [c.cell_contents for c in f.__closure__
               if isinstance(c.cell_contents, types.FunctionType)]
        if not nxt:
            break
        f = nxt[0]
    return f


def windows_lemmas(chk):
    """The version windows of each versioned handler are pairwise disjoint
    and cover [first, max] without gaps."""
    for route, method, wobj in H.routes():
        ws = sorted(((mn.minor, mx.minor) for mn, mx, f in _windows(wobj)))
        if not ws:
            continue
        first = F.INTRODUCED.get((method, route), (0, None))[0]
        ok = ws[0][0] == first and ws[-1][1] == MAXM and all(
            a[1] + 1 == b[0] for a, b in zip(ws, ws[1:]))
        chk.lemma('C14.windows[%s %s]' % (method, route), z3.BoolVal(ok),
                  kind='T', info={'windows': ws, 'first': first,
                                  'signature': '%s %s windows' % (method, route)})


def surface_script(route, method, wobj):
    """Schema selection, response keys, headers, flags as functions of m."""
    op = '%s %s' % (method, route)
    table = F.SCHEMAS.get((method, route))

    def script(ex):
        I, ctx, ver, req = common.new_interp(ex)
        out = common.run(I, wobj, req)
        m = ver.minor
        info = {'operation': op}
        # ---- schema selection
        if table:
            for e in I.events:
                if e[0] in ('extract_json', 'validate_query_params'):
                    sid = e[1]
                    alts = []
                    for k, (lo, sch) in enumerate(table):
                        hi = table[k + 1][0] - 1 if k + 1 < len(table) else MAXM
                        if id(sch) == sid:
                            alts.append(z3.And(m >= lo, m <= hi))
                    ex.oblige('C14.T.schema', z3.Or(*alts) if alts
                              else z3.BoolVal(False), 'T',
                              dict(info, signature=op + ' schema'))
                    break
        # ---- flags handed to the object layer
        for e in I.events:
            if e[0] == 'call':
                for (cname, kw), n in F.FLAGS.items():
                    if e[1] == cname and kw in e[3]:
                        t = I.truth_term(e[3][kw])
                        t = z3.BoolVal(t) if isinstance(t, bool) else t
                        ex.oblige('C14.T.flag', t == (m >= n), 'T', dict(
                            info, signature='%s flag %s' % (op, kw)))
        if out[0] != 'return':
            return
        resp = I.ghost['req'].response
        # ---- headers
        lm = resp.fields.get('last_modified') is not None
        cc = resp.fields.get('cache_control') is not None
        touched = [e for e in I.events if e[0] == 'response.set' and
                   e[1] in ('last_modified', 'cache_control')]
        if method == 'GET' or touched:
            ex.oblige('C14.T.headers', z3.And(
                z3.BoolVal(lm) == z3.BoolVal(cc),
                z3.Implies(z3.BoolVal(lm), m >= F.HEADERS_FROM)), 'T',
                dict(info, signature=op + ' cache headers'))
            if method == 'GET':
                ex.oblige('C14.T.headers_present', z3.Implies(
                    m >= F.HEADERS_FROM, z3.BoolVal(lm and cc)), 'T',
                    dict(info, signature=op + ' cache headers present'))
        # ---- response body keys
        dumps = [e for e in I.events if e[0] == 'json.dumps']
        if dumps and isinstance(dumps[-1][1], VDict):
            body = dumps[-1][1]
            for (mth, rt, key), n in F.RESPONSE_KEYS.items():
                if (mth, rt) != (method, route):
                    continue
                if key in body.items:
                    pres = (body.present or {}).get(key, True)
                    pres = z3.BoolVal(True) if pres is True else pres
                else:
                    pres = z3.BoolVal(False)
                want = m >= n
                if (method, route) == ('GET', '/allocations/{consumer_uuid}'):
                    # documented: the consumer's attributes are reported with
                    # its allocations; without allocations there is nothing to
                    # report them for
                    reads = I.events_of('read.allocations')
                    if reads:
                        want = z3.And(want, reads[-1][2].len > 0)
                ex.oblige('C14.T.response_key', pres == want, 'T', dict(
                    info, key=key, signature='%s key %s' % (op, key)))
        if (method, route) == ('POST', '/resource_providers'):
            st = resp.fields.get('status')
            has_body = bool(dumps)
            ex.oblige('C14.T.post_rp_body', z3.And(
                z3.BoolVal(has_body) == (m >= F.POST_RP_BODY_FROM),
                z3.BoolVal(st == 200) == (m >= F.POST_RP_BODY_FROM),
                z3.BoolVal(st == 201) == (m < F.POST_RP_BODY_FROM)), 'T',
                dict(info, signature=op + ' 200 with body from 1.20'))
    return script


def formatter_script(ex):
    """util.json_error_formatter: `code` exactly from 1.23."""
    reg = common.full_registry()
    I, ctx, ver, req = common.new_interp(ex, reg)
    env = req.environ
    reg['calls'][id(__import__('webob').exc.strip_tags)] = \
        lambda I_, a, k: a[0]
    try:
        r = I.call(putil.json_error_formatter,
                   [I.fresh('body', 'str'), '409 Conflict', 'Conflict', env], {})
    except PyRaise as pr:
        ex.oblige('C14.C.formatter.raises', False, 'C',
                  {'raised': pr.exc.cls.__name__})
        return
    err = r.items['errors'].items[0]
    has_code = 'code' in err.items
    pres = (err.present or {}).get('code', True) if has_code else False
    pres = z3.BoolVal(pres) if isinstance(pres, bool) else pres
    ex.oblige('C14.C.formatter.code_from_1_23',
              pres == (ver.minor >= F.ERROR_CODE_FROM), 'C',
              {'signature': 'json_error_formatter code'})
    ex.oblige('C14.C.formatter.fields',
              all(k in err.items for k in ('status', 'title', 'detail')), 'C',
              {'signature': 'json_error_formatter fields'})


def replay_c14(r):
    sys.path.insert(0, os.path.join(runner.VERIF, 'replay'))
    import c14
    return c14.run(os.environ.get('VERIF_TIER', 'quick'))


def build(tier, seed):
    chk = runner.Check('C14', tier, seed)
    for route, method, wobj in H.routes():
        if route in ('', '/'):
            continue
        chk.script('route %s %s' % (method, route),
                   route_script(route, method, wobj), common.handler_names(wobj))
        chk.script('surface %s %s' % (method, route),
                   surface_script(route, method, wobj), common.handler_names(wobj))
    windows_lemmas(chk)
    chk.script('json_error_formatter', formatter_script,
               ['placement/util.py:json_error_formatter'])
    chk.keep_prefixes = ('C14.',)
    chk.replayer('C14.', replay_c14)
    chk.fallback('B.c14.feature_probes', lambda: replay_c14(None),
                 '53 versioned features, one probing request each, on the real WSGI stack at the versions N-1, N, N+1, the first version of the route and 1.39 (thorough: every microversion); version negotiation headers, 406 outside 1.0-1.39, latest, no header', always=True)
    chk.assume('A-lib', 'A-heap')
    chk.trusted = ['microversion_parse middleware (406, headers)', 'routes.Mapper']
    return chk


if __name__ == '__main__':
    runner.main(build)
