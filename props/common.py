"""Shared machinery of the handler-level property scripts."""
import sys
import os
sys.path.insert(0, os.path.dirname(os.path.dirname(os.path.abspath(__file__))))

import collections
import z3

from pyvc.core import Undecided, PathEnd, Obligation
from pyvc.interp import Interp, PyRaise
from pyvc.values import Sym, Obj, VDict, VList, VSet, Native, BoundMethod, ExcVal
from pyvc.ghostdb import GhostDB
from pyvc import raises as raises_mod
from pyvc import source
from contracts import lib, web, handlers as H, objects, classes

from placement import exception
from placement import lib as placement_lib
from placement.objects import allocation_candidate as ac_obj


class RequestAttr(object):
    """handlers.util.RequestAttr namedtuple as a heap object."""


class InvList(object):
    """list of Inventory objects kept as one heap value (reshaper)."""


def cands_result(I, args, kwargs):
    o = I.alloc(ac_obj.AllocationCandidates)
    I.write_field(o, 'allocation_requests',
                  I.fresh_list('areqs', ('obj', ac_obj.AllocationRequest)))
    I.write_field(o, 'provider_summaries',
                  I.fresh_list('psums', ('obj', ac_obj.ProviderSummary)))
    return o


def full_registry(extra_contracts=True):
    reg = H.web_registry()
    reg['classes'][collections.defaultdict] = \
        lambda I, a, k: VDict(default=a[0] if a else None)
    objects.install(reg)
    if extra_contracts:
        C = objects.Contract
        import webob.exc
        E = exception
        more = [
            C(placement_lib.RequestWideParams.from_request,
              'RequestWideParams.from_request', '',
              raises=(webob.exc.HTTPBadRequest,),
              result=objects.new_obj(placement_lib.RequestWideParams,
                                     group_policy='str?')),
            C(placement_lib.RequestGroup.dict_from_request,
              'RequestGroup.dict_from_request', '',
              raises=(webob.exc.HTTPBadRequest,),
              result=lambda I, a, k: I.fresh_map(
                  'groups', 'str', ('obj', placement_lib.RequestGroup))),
            C(ac_obj.AllocationCandidates.get_by_requests,
              'AllocationCandidates.get_by_requests', 'R',
              raises=(E.ResourceClassNotFound, E.TraitNotFound,
                      E.ResourceProviderNotFound),
              result=cands_result),
        ]
        from placement import util as putil
        from placement.handlers import util as hutil
        from placement.handlers import trait as trait_handler
        from oslo_utils import uuidutils
        import jsonschema
        bad = (webob.exc.HTTPBadRequest,)
        opq = lambda what: (lambda I, a, k: objects.Opaque(what))
        more += [
            C(putil.normalize_resources_qs_param, 'util.normalize_resources_qs_param',
              '', raises=bad, result=lambda I, a, k: I.fresh_map('resources', 'str', 'int')),
            C(putil.normalize_traits_qs_param, 'util.normalize_traits_qs_param',
              '', raises=bad, result=lambda I, a, k: (I.fresh_list('rts', ('set', 'str')),
                                      I.fresh_set('fts', 'str'))),
            C(putil.normalize_traits_qs_param_to_legacy_value,
              'util.normalize_traits_qs_param_to_legacy_value', '', raises=bad,
              result=lambda I, a, k: I.fresh_set('traits', 'str')),
            C(putil.normalize_member_of_qs_param, 'util.normalize_member_of_qs_param',
              '', raises=bad, result=lambda I, a, k: (I.fresh_set('aggs', 'str'),
                                                      I.fresh_set('forbidden_aggs', 'str'))),
            C(putil.normalize_in_tree_qs_params, 'util.normalize_in_tree_qs_params',
              '', raises=bad, result=lambda I, a, k: I.fresh('in_tree', 'str')),
        ]
        more += [
            C(putil.normalize_member_of_qs_params, 'util.normalize_member_of_qs_params',
              '', raises=bad, result=lambda I, a, k: (
                  I.fresh_list('required_aggs', ('set', 'str')),
                  I.fresh_set('forbidden_aggs', 'str'))),
            C(putil.normalize_traits_qs_params, 'util.normalize_traits_qs_params',
              '', raises=bad, result=lambda I, a, k: (
                  I.fresh_list('required_traits', ('set', 'str')),
                  I.fresh_set('forbidden_traits', 'str'))),
        ]
        reg['calls'][id(uuidutils.generate_uuid)] = \
            lambda I, a, k: I.fresh('generated_uuid', 'str')

        def js_validate(I, a, k):
            import re as _re
            if I.ex.choose(2, tag='jsonschema.validate') == 1:
                I.raise_(jsonschema.ValidationError)
            inst, sch = a[0], a[1]
            sch = web.unlift(sch) if isinstance(sch, VDict) else sch
            if isinstance(inst, Sym) and inst.ty == 'str' and isinstance(sch, dict):
                I.ghost.setdefault('validated', {})[inst.t.sexpr()] = sch
            if isinstance(inst, Sym) and inst.ty == 'str' and isinstance(sch, dict):
                pat = sch.get('pattern')
                if (pat and _re.search(pat, '') is None) or sch.get('minLength', 0) >= 1:
                    I.ex.assume(z3.Function('str_nonempty', web.StrSort,
                                            z3.BoolSort())(inst.t))
            return None
        reg['calls'][id(jsonschema.validate)] = js_validate

        def request_attr(I, a, k):
            o = I.alloc(RequestAttr)
            for f, v in zip(('project', 'user', 'consumer_type_id'), a):
                I.write_field(o, f, v)
            return o
        reg['classes'][hutil.RequestAttr] = request_attr
        reg['calls'][id(hutil.ensure_consumer)] = objects.ensure_consumer_contract
        reg.setdefault('havoc_types', {}).update({
            ('inspect_consumers', 'consumers'): ('map', 'str', ('obj', classes.CONSUMER)),
            ('inspect_consumers', 'requested_attrs'): ('map', 'str', ('obj', RequestAttr)),
            ('inspect_consumers', 'new_consumers_created'): ('list', ('obj', classes.CONSUMER)),
            ('create_allocation_list', 'allocation_objects'): ('list', ('obj', classes.ALLOC)),
            ('_set_allocations_for_consumer', 'allocation_objects'): ('list', ('obj', classes.ALLOC)),
            ('_new_allocations', 'allocations'): ('list', ('obj', classes.ALLOC)),
            ('_resource_providers_by_uuid', 'res'): ('map', 'str', ('obj', classes.RP)),
            ('normalize_traits_qs_params', 'required_traits'): ('list', ('set', 'str')),
            ('normalize_traits_qs_params', 'forbidden_traits'): ('set', 'str'),
            ('_transform_provider_summaries', 'requested_resources'): ('set', 'str'),
            ('normalize_member_of_qs_params', 'required_aggs'): ('list', ('set', 'str')),
            ('normalize_member_of_qs_params', 'forbidden_aggs'): ('set', 'str'),
        })
        from contracts import handler_loops
        reg['loops'].update(handler_loops.LOOPS)
        for c in more:
            reg['calls'][id(getattr(c.target, '__func__', c.target))] = c
            reg['calls'][id(c.target)] = c
            reg['contracts'][c.name] = c
    return reg


VERSION_CHUNKS = [(0, 4), (5, 9), (10, 14), (15, 19), (20, 24), (25, 29),
                  (30, 34), (35, 10 ** 6)]


def new_interp(ex, reg=None, interference=False, versions=None):
    reg = reg or full_registry()
    if interference:
        reg['on_txn_begin'] = lib.interfere
    I = Interp(ex, reg)
    I.interference = interference
    I.db = GhostDB(I, 'db')
    for h in I.db.row_invariants():
        ex.hyp(h)
    ctx = lib.CtxStub()
    I.ghost['ctx'] = ctx
    ver = web.fresh_version(I)
    if versions is not None:
        ex.assume(z3.And(ver.minor >= versions[0], ver.minor <= versions[1]))
    req = web.ReqStub(ctx, ver)
    I.ghost['req'] = req
    I.ghost['version'] = ver
    return I, ctx, ver, req


def run(I, wobj, req):
    """('return', value) | ('raise', ExcVal)"""
    try:
        v = H.run_handler(I, wobj, req)
        return ('return', v)
    except PyRaise as pr:
        return ('raise', pr.exc)


def handler_names(wobj):
    return ['%s:%s' % (f.__code__.co_filename.replace(source.REPO + '/', ''),
                       f.__qualname__) for f in H.innermost_handlers(wobj)]


def contract_crosschecks(chk, prefix):
    """Mechanical ties between the contract table and the real bodies."""
    an = raises_mod.analysis()
    tbl = objects.table()
    for c in tbl:
        for k, v in objects.DEFAULT_EXCLUDED.get(c.name, {}).items():
            c.excluded.setdefault(k, v)
    for c in tbl:
        derived = an.raises_of(getattr(c.target, '__func__', c.target))
        declared = set(c.raises)
        missing = [d for d in derived
                   if not any(issubclass(d, k) for k in declared)
                   and not any(issubclass(d, k) for k in c.excluded)
                   and not issubclass(d, (KeyError, ValueError, AssertionError))]
        chk.lemma('%s.contract.raises[%s]' % (prefix, c.name),
                  z3.BoolVal(not missing), kind='A',
                  info={'missing': [m.__name__ for m in missing]})
