"""C02 -- every allocation candidate can be claimed exactly as returned.

Obligations over the real _consolidate_allocation_requests (amounts added up
per (provider, class); the AllocationRequestResource objects shared with
other combinations are never modified), RequestWideSearchContext
.exceeds_capacity (True iff some folded amount does not fit), the claim lemma
tying the per-group SQL capacity clause and exceeds_capacity to the
acceptance condition of _check_capacity_exceeded, and a bounded claim-every-
candidate stand-in on the real stack."""
import sys
import os
sys.path.insert(0, os.path.dirname(os.path.dirname(os.path.abspath(__file__))))

import collections
import copy
import z3

from pyvc.core import Undecided
from pyvc.interp import Interp, PyRaise
from pyvc.values import Sym, Obj, VDict, VList, VSet, SList, SSet, SMap, \
    Native, sort_of
from pyvc import runner, ops
from contracts import lib, classes
from contracts import candidates as CC

from placement.objects import allocation_candidate as ac
from placement.objects import research_context as res_ctx


class _SinkMap(Native):
    """rw_ctx.parent_uuid_by_rp_uuid: a cache written here, read elsewhere"""

    def setitem(self, I, k, v):
        return None


def getattr_hook(I, v, name):
    if name in ('_ctx', '_context') and isinstance(v, Obj):
        return I.ghost['ctx']
    if name == 'parent_uuid_by_rp_uuid' and isinstance(v, Obj):
        return _SinkMap()
    return NotImplemented


class _Mappings(Native):
    """defaultdict(set) collecting suffix -> providers: contents are not part
    of the contract proved here (bounded stand-in covers mappings)"""
    loop_stable = True

    def getitem(self, I, k):
        return _MapSet()


class _MapSet(Native):
    def getattr(self, I, name):
        from pyvc.values import BoundMethod
        return BoundMethod(self, _Noop())


class _Noop(Native):
    def call(self, I, args, kwargs):
        return None


def registry():
    reg = lib.base_registry()
    reg['fields'].update(classes.FIELDS)
    reg['fields'].update(CC.FIELDS)
    reg['fields'].update(CC.C02_FIELDS)
    reg['fields'].update(CC.BPS_FIELDS)
    reg['loops'].update(CC.BPS_LOOPS)
    reg['loops'].update(CC.CONS_LOOPS)
    reg['loops'].update(CC.EXC_LOOPS)
    reg['havoc_types'] = dict(CC.CONS_HAVOC_TYPES)
    reg['getattr'] = getattr_hook
    reg['calls'][id(copy.copy)] = CC.copy_contract
    reg['classes'][collections.defaultdict] = lambda I, a, k: _Mappings()
    return reg


def canary_consolidate(ex):
    script_consolidate(ex, canary=True)


def script_consolidate(ex, canary=False):
    I = Interp(ex, registry())
    I.ghost['ctx'] = lib.CtxStub()
    rw = I.fresh('rw_ctx', ('obj', CC.RWSC))
    areqs = I.fresh_list('areq_list', ('obj', CC.AREQ))
    for f in CC.consolidate_requires(I, areqs, rw):
        ex.hyp(f) if ops_has_quant(f) else ex.assume(f)
    a0 = I.fld(CC.ARR, 'amount')
    try:
        res = I.call(ac._consolidate_allocation_requests, [areqs, rw], {})
    except PyRaise as pr:
        ex.oblige('C02.T.cons.no_raise', False, 'T',
                  {'raised': pr.exc.cls.__name__, 'args': repr(pr.exc.args)})
        return
    if not isinstance(res, Obj):
        raise Undecided('result %r' % (res,))
    out = I.read_field(res, 'resource_requests')
    if not isinstance(out, SList):
        raise Undecided('resource_requests of the result: %r' % (out,))
    S, T = CC.consolidate_ghost(I)
    amt = I.fld(CC.ARR, 'amount')
    n = areqs.len
    j, q, p, p2 = z3.Ints('j!cp q!cp p!cp p2!cp')
    ln, ar = CC.rr(I, z3.Select(areqs.arr, j))
    x = z3.Select(ar, q)
    inr = z3.And(j >= 0, j < n, q >= 0, q < ln)
    op, op2 = z3.Select(out.arr, p), z3.Select(out.arr, p2)
    ex.oblige('C02.T.cons.inputs_unmodified', ops.forall(
        [j, q], z3.Implies(inr, z3.Select(amt, x) == z3.Select(a0, x)),
        patterns=[z3.Select(ar, q)]), 'T')
    if canary:
        # "some entry holds one unit more than the sum" is false on every
        # path (also when nothing is placed): must be refuted
        ex.oblige('C02.canary.amounts', z3.Exists([p], z3.And(
            p >= 0, p < out.len,
            z3.Select(amt, op) == S(n, CC.arr_key(I, op)) + 1)), 'canary')
        return
    ex.oblige('C02.T.cons.amounts_added_up', ops.forall(
        [p], z3.Implies(z3.And(p >= 0, p < out.len),
                        z3.Select(amt, op) == S(n, CC.arr_key(I, op))),
        patterns=[z3.Select(out.arr, p)]), 'T')
    ex.oblige('C02.T.cons.every_key_placed', ops.forall(
        [j, q], z3.Implies(inr, z3.Exists([p], z3.And(
            p >= 0, p < out.len, CC.arr_key(I, op) == CC.arr_key(I, x)))),
        patterns=[z3.Select(ar, q)]), 'T')
    ex.oblige('C02.T.cons.one_entry_per_key', ops.forall(
        [p, p2], z3.Implies(z3.And(p >= 0, p < p2, p2 < out.len),
                            CC.arr_key(I, op) != CC.arr_key(I, op2)),
        patterns=[z3.MultiPattern(z3.Select(out.arr, p),
                                  z3.Select(out.arr, p2))]), 'T')
    anchor = I.read_field(res, 'anchor_root_provider_uuid')
    first = I.read_field(Obj(CC.AREQ, z3.Select(areqs.arr, 0)),
                         'anchor_root_provider_uuid')
    ex.oblige('C02.T.cons.anchor', ops.z3bool(I.truth_term(I._b(
        I.eq(anchor, first)))), 'T')


def script_consolidate_mappings(ex):
    """the mappings of the consolidated request: for every suffix the union
    of the provider sets the input requests map it to (spec function U by
    recursion over the requests; defaultdict(set) as a relation)"""
    reg = registry()
    reg['loops'].update(CC.MAP_LOOPS)
    box = {}

    def mk(I, a, k):
        box['d'] = CC.PairSetDict(I)
        return box['d']
    reg['classes'][collections.defaultdict] = mk
    I = Interp(ex, reg)
    I.ghost['ctx'] = lib.CtxStub()
    rw = I.fresh('rw_ctx', ('obj', CC.RWSC))
    areqs = I.fresh_list('areq_list', ('obj', CC.AREQ))
    for f in CC.consolidate_requires(I, areqs, rw):
        ex.hyp(f) if ops_has_quant(f) else ex.assume(f)
    try:
        res = I.call(ac._consolidate_allocation_requests, [areqs, rw], {})
    except PyRaise as pr:
        ex.oblige('C02.T.cons.no_raise', False, 'T',
                  {'raised': pr.exc.cls.__name__, 'args': repr(pr.exc.args)})
        return
    mp = I.read_field(res, 'mappings')
    U = CC.union_fn(I, areqs)
    s0, u0 = I.fresh('s0', 'str').t, I.fresh('u0', 'str').t
    if not isinstance(mp, CC.PairSetDict):
        # `mappings or dict()` replaced an empty defaultdict by a plain
        # dict: that dict must hold the same relation
        cell = z3.Select(box['d'].rel, sort_of(CC.PAIR).mk(s0, u0))
        ex.oblige('C02.T.cons.mappings_are_the_union_of_the_groups_mappings',
                  z3.And(cell == U(areqs.len, s0, u0),
                         CC.in_mapping(I, res.ref, s0, u0) == cell), 'T')
        return
    ex.oblige('C02.T.cons.mappings_are_the_union_of_the_groups_mappings',
              z3.Select(mp.rel, sort_of(CC.PAIR).mk(s0, u0)) ==
              U(areqs.len, s0, u0), 'T')


def ops_has_quant(f):
    from pyvc.interp import _has_quantifier
    return not isinstance(f, bool) and _has_quantifier(f)


def script_exceeds(ex):
    I = Interp(ex, registry())
    I.ghost['ctx'] = lib.CtxStub()
    rw = I.fresh('rw_ctx', ('obj', CC.RWSC))
    areq = I.fresh('areq', ('obj', CC.AREQ))
    ln, ar = CC.rr(I, areq.ref)
    q = z3.Int('q!ep')
    m = I.read_field(rw, 'psum_res_by_rp_rc')
    # _build_provider_summaries has an entry for every (provider, class) a
    # request can name
    ex.hyp(ops.forall([q], z3.Implies(
        z3.And(q >= 0, q < ln),
        z3.And(z3.Select(m.dom, CC.arr_key(I, z3.Select(ar, q))),
               z3.Not(z3.Select(I.fld_none(classes.RP, 'id'), z3.Select(
                   I.fld(CC.ARR, 'resource_provider'), z3.Select(ar, q)))))),
        patterns=[z3.Select(ar, q)]))
    try:
        res = I.call(res_ctx.RequestWideSearchContext.exceeds_capacity,
                     [rw, areq], {})
    except PyRaise as pr:
        ex.oblige('C02.T.exceeds.no_raise', False, 'T',
                  {'raised': pr.exc.cls.__name__, 'args': repr(pr.exc.args)})
        return
    rt = ops.z3bool(I.truth_term(res))
    some = z3.Exists([q], z3.And(q >= 0, q < ln,
                                 CC.exceeds_term(I, rw, z3.Select(ar, q))))
    ex.oblige('C02.T.exceeds.true_only_if_some_resource_exceeds',
              z3.Implies(rt, some), 'T')
    ex.oblige('C02.T.exceeds.false_only_if_all_fit',
              z3.Implies(z3.Not(rt), z3.Not(some)), 'T')


def _same(a, b, ty='str'):
    from pyvc.ops import to_term, none_flag
    return z3.And(to_term(a, ty) == to_term(b, ty),
                  ops.z3bool(none_flag(a)) == ops.z3bool(none_flag(b)))


def script_request_for_provider(ex):
    """_allocation_request_for_provider: one resource request per requested
    class, each for the full requested amount on the one given provider, and
    nothing else; the mapping names exactly that provider under the group's
    suffix (the "suffixed group in full on the one provider its mapping
    names" clause, and the single-provider path of the unsuffixed group)"""
    I = Interp(ex, registry())
    ctx = I.ghost['ctx'] = lib.CtxStub()
    req = I.fresh_map('requested', 'int', 'int')
    prov = I.fresh('provider', ('obj', classes.RP))
    suffix = I.fresh('suffix', 'str')
    rc = z3.Int('rc!rfp')
    # RequestGroupSearchContext.__init__ builds the dict from
    # rc_cache.id_from_string of validated names
    ex.hyp(ops.forall([rc], z3.Implies(z3.Select(req.dom, rc),
                                       ctx.rc_cache.known_id(rc)),
                      patterns=[z3.Select(req.dom, rc)]))
    try:
        res = I.call(ac._allocation_request_for_provider,
                     [ctx, req, prov, suffix], {})
    except PyRaise as pr:
        ex.oblige('C02.T.request_for_provider.no_raise', False, 'T',
                  {'raised': pr.exc.cls.__name__})
        return
    rrs = I.read_field(res, 'resource_requests')
    if isinstance(rrs, VList):
        ex.oblige('C02.T.request_for_provider.empty_only_if_nothing_requested',
                  z3.Not(z3.Exists([rc], z3.Select(req.dom, rc)))
                  if not rrs.items else False, 'T')
        ln, arr = z3.IntVal(0), None
    else:
        ln, arr = rrs.len, rrs.arr
    q = z3.Int('q!rfp')
    f_rp = I.fld(CC.ARR, 'resource_provider')
    f_rc = I.fld(CC.ARR, 'resource_class')
    f_am = I.fld(CC.ARR, 'amount')
    name = ctx.rc_cache.f_str
    if arr is not None:
        x = z3.Select(arr, q)
        # witness form (implies "for every requested class there is a
        # request ..."): the request for class rc0 sits at the position the
        # enumeration of the dict gives rc0
        enum = I._enum(req.dom, req.kty, 'requested', req)
        rc0 = I.fresh('rc0', 'int').t
        x0 = z3.Select(arr, enum.idx(rc0))
        ex.oblige('C02.T.request_for_provider.every_class_in_full',
                  z3.Implies(z3.Select(req.dom, rc0), z3.And(
                      enum.idx(rc0) >= 0, enum.idx(rc0) < ln,
                      z3.Select(f_rp, x0) == prov.ref,
                      z3.Select(f_rc, x0) == name(rc0),
                      z3.Select(f_am, x0) == z3.Select(req.val, rc0))), 'T')
        ex.oblige('C02.T.request_for_provider.nothing_else',
                  ops.forall([q], z3.Implies(
                      z3.And(q >= 0, q < ln),
                      z3.And(z3.Select(f_rp, x) == prov.ref,
                             z3.Exists([rc], z3.And(
                                 z3.Select(req.dom, rc),
                                 z3.Select(f_rc, x) == name(rc),
                                 z3.Select(f_am, x) ==
                                 z3.Select(req.val, rc)))))), 'T')
        # for two arbitrary positions (fresh constants: the hypotheses are
        # then instantiated at ground terms)
        qa, qb = I.fresh('qa', 'int').t, I.fresh('qb', 'int').t
        xa, xb = z3.Select(arr, qa), z3.Select(arr, qb)
        ex.oblige('C02.T.request_for_provider.one_request_per_class',
                  z3.Implies(z3.And(qa >= 0, qa < qb, qb < ln),
                             z3.And(xa != xb,
                                    z3.Select(f_rc, xa) != z3.Select(f_rc, xb))),
                  'T')
    mp = I.read_field(res, 'mappings')
    if isinstance(mp, SMap) and mp.vty == ('set', 'str'):
        from pyvc.ops import to_term
        k = z3.Const('k!rfp', sort_of('str'))
        u = z3.Const('u!rfp', sort_of('str'))
        members = I.coll_fns(('set', 'str'))[0](
            z3.Select(mp.val, to_term(suffix, 'str')))
        ex.oblige('C02.T.request_for_provider.mapping_names_the_provider',
                  z3.And(ops.forall([k], z3.Select(mp.dom, k) ==
                                    (k == to_term(suffix, 'str'))),
                         ops.forall([u], z3.Select(members, u) == (
                             u == to_term(I.read_field(prov, 'uuid'), 'str')))),
                  'T')
    else:
        ex.oblige('C02.T.request_for_provider.mapping_names_the_provider',
                  False, 'T', {'mappings': repr(mp)})
    ex.oblige('C02.T.request_for_provider.anchor_is_the_root',
              _same(I.read_field(res, 'anchor_root_provider_uuid'),
                          I.read_field(prov, 'root_provider_uuid')), 'T')


def script_single_provider(ex):
    """_alloc_candidates_single_provider: both loops by induction; the real
    _allocation_request_for_provider, AllocationRequest.__copy__ and
    in_filtered_anchors are executed inside the iteration step"""
    from pyvc.ops import to_term
    from placement.objects import trait as trait_obj
    reg = registry()
    reg['fields'].update(CC.SP_FIELDS)
    reg['loops'].update(CC.SP_LOOPS)
    reg['havoc_types'].update(CC.SP_HAVOC_TYPES)
    base_hook = reg['getattr']

    def hook(I, v, name):
        if name == 'context' and isinstance(v, Obj):
            return I.ghost['ctx']
        return base_hook(I, v, name)
    reg['getattr'] = hook
    reg['calls'][id(ac._allocation_request_for_provider)] = \
        CC.request_for_provider_wrapper
    reg['calls'][id(trait_obj.get_traits_by_provider_tree)] = \
        lambda I, a, k: I.fresh_map('prov_traits', 'int', ('list', 'str'))
    reg['calls'][id(res_ctx.anchors_for_sharing_providers)] = \
        lambda I, a, k: I.fresh_list('anchors', ('obj', CC.AnchorRow))
    box = {}

    def summaries_stub(I, a, k):
        # assumed (A-sql): the usage query returns a row for every provider
        # of rp_tuples (each has inventory of the requested classes), so the
        # contract proved by script_summaries gives each a summary
        rw = a[1]
        m = I.fresh_map('summaries_by_id', 'int', ('obj', CC.PSUM))
        I.write_field(rw, 'summaries_by_id', m)
        tuples = box['tuples']
        j = z3.Int('j!sps')
        I.ex.hyp(ops.forall([j], z3.Implies(
            z3.And(j >= 0, j < tuples.len),
            z3.Select(m.dom, to_term(I.value_of_term(
                z3.Select(tuples.arr, j), tuples.ety)[0], 'int'))),
            patterns=[z3.Select(tuples.arr, j)]))
        return None
    reg['calls'][id(ac._build_provider_summaries)] = summaries_stub
    I = Interp(ex, reg)
    ctx = I.ghost['ctx'] = lib.CtxStub()
    rg = I.fresh('rg_ctx', ('obj', res_ctx.RequestGroupSearchContext))
    rw = I.fresh('rw_ctx', ('obj', CC.RWSC))
    tuples = box['tuples'] = I.fresh_list('rp_tuples',
                                          ('tuple', ('int', 'int')))
    req = I.read_field(rg, 'resources')
    suffix = I.read_field(rg, 'suffix')
    rc = z3.Int('rc!sp')
    ex.hyp(ops.forall([rc], z3.Implies(z3.Select(req.dom, rc),
                                       ctx.rc_cache.known_id(rc)),
                      patterns=[z3.Select(req.dom, rc)]))
    try:
        res = I.call(ac._alloc_candidates_single_provider, [rg, rw, tuples], {})
    except PyRaise as pr:
        ex.oblige('C02.T.single.no_raise', False, 'T',
                  {'raised': pr.exc.cls.__name__, 'args': repr(pr.exc.args)})
        return
    if not isinstance(res, SList):
        # no matching provider: an empty result
        empty = isinstance(res, (VSet, VList)) and not res.items or \
            isinstance(res, SSet) and res.elems == []
        ex.oblige('C02.T.single.empty_without_providers',
                  z3.And(z3.BoolVal(bool(empty)), tuples.len == 0), 'T')
        return
    # proved for an arbitrary entry k0 of the result
    k0 = I.fresh('k0', 'int').t
    ex.assume(z3.And(k0 >= 0, k0 < res.len))
    a = z3.Select(res.arr, k0)
    p = z3.Select(I.fld(CC.AREQ, 'ghost_prov'), a)
    ln, ar = CC.rr(I, a)
    q = z3.Int('q!sp')
    x = z3.Select(ar, q)
    f_rp = I.fld(CC.ARR, 'resource_provider')
    f_rc = I.fld(CC.ARR, 'resource_class')
    f_am = I.fld(CC.ARR, 'amount')
    name = ctx.rc_cache.f_str
    sums = I.read_field(rw, 'summaries_by_id')
    j = z3.Int('j!sp')
    rp_id = to_term(I.value_of_term(z3.Select(tuples.arr, j), tuples.ety)[0],
                    'int')
    ex.oblige('C02.T.single.provider_is_one_of_rp_tuples', z3.Exists(
        [j], z3.And(j >= 0, j < tuples.len,
                    p == z3.Select(I.fld(CC.PSUM, 'resource_provider'),
                                   z3.Select(sums.val, rp_id)))), 'T')
    enum = I._enum(req.dom, req.kty, 'requested', req)
    rc0 = I.fresh('rc0', 'int').t
    x0 = z3.Select(ar, enum.idx(rc0))
    ex.oblige('C02.T.single.every_class_in_full_on_the_provider',
              z3.Implies(z3.Select(req.dom, rc0), z3.And(
                  enum.idx(rc0) >= 0, enum.idx(rc0) < ln,
                  z3.Select(f_rp, x0) == p,
                  z3.Select(f_rc, x0) == name(rc0),
                  z3.Select(f_am, x0) == z3.Select(req.val, rc0))), 'T')
    ex.oblige('C02.T.single.nothing_else',
              ops.forall([q], z3.Implies(
                  z3.And(q >= 0, q < ln),
                  z3.And(z3.Select(f_rp, x) == p,
                         z3.Exists([rc], z3.And(
                             z3.Select(req.dom, rc),
                             z3.Select(f_rc, x) == name(rc),
                             z3.Select(f_am, x) == z3.Select(req.val, rc)))))),
              'T')
    mid = z3.Select(I.fld(CC.AREQ, 'mappings'), a)
    mdom, mval = I.coll_fns(('map', 'str', ('set', 'str')))
    members = I.coll_fns(('set', 'str'))[0](
        z3.Select(mval(mid), to_term(suffix, 'str')))
    k = z3.Const('k!sp', sort_of('str'))
    u = z3.Const('u!sp', sort_of('str'))
    ex.oblige('C02.T.single.mapping_names_exactly_the_provider', z3.And(
        ops.forall([k], z3.Select(mdom(mid), k) ==
                   (k == to_term(suffix, 'str'))),
        ops.forall([u], z3.Select(members, u) ==
                   (u == z3.Select(I.fld(classes.RP, 'uuid'), p)))), 'T')


def script_summaries(ex):
    """_build_provider_summaries against assumed contracts of its three
    readers (A-sql): every usage row becomes a ProviderSummaryResource with
    capacity int((total - reserved) * allocation_ratio), used (NULL -> 0) and
    max_unit, on a ProviderSummary whose provider carries the uuid, parent
    and root read for that id."""
    from placement.objects import resource_provider as rp_obj
    reg = registry()
    rows_box = {}

    def usages(I, a, k):
        rows = I.fresh_list('usages', ('obj', CC.UsageRow))
        rows_box['rows'] = rows
        return rows
    reg['calls'][id(res_ctx.get_usages_by_provider_trees)] = usages

    def pids(I, a, k):
        m = I.fresh_map('provider_ids', 'int', ('obj', CC.PidRow))
        rows_box['pids'] = m
        return m
    reg['calls'][id(ac._provider_ids_from_root_ids)] = pids
    I = Interp(ex, reg)
    ctx = lib.CtxStub()
    I.ghost['ctx'] = ctx
    rw = I.fresh('rw_ctx', ('obj', CC.RWSC))
    root_ids = I.fresh_set('root_ids', 'int')
    prov_traits = I.fresh_map('prov_traits', 'int', ('list', 'str'))
    I.ghost['bps.pre'] = True
    sums_entry = I.read_field(rw, 'summaries_by_id')

    # preconditions on the reader results are stated once they exist: use a
    # hook at loop entry
    def entry(I_, frame, seq):
        CC.bps_entry(I_, frame, seq)
        rows = seq.origin
        pm = frame.locals['provider_ids']
        j, j2 = z3.Ints('j!bpre j2!bpre')
        r, r2 = z3.Select(rows.arr, j), z3.Select(rows.arr, j2)
        f = lambda n, x: z3.Select(I_.fld(CC.UsageRow, n), x)
        fn = lambda n, x: z3.Select(I_.fld_none(CC.UsageRow, n), x)
        pid = z3.Select(pm.val, f('resource_provider_id', r))
        pg = lambda n, x: z3.Select(I_.fld(CC.PidRow, n), x)
        cache = ctx.rc_cache
        sums0 = I_.ghost['bps.sums0']
        inr = z3.And(j >= 0, j < rows.len)
        I_.ex.hyp(ops.forall([j], z3.Implies(inr, z3.And(
            f('resource_provider_id', r) >= 1,
            z3.Select(pm.dom, f('resource_provider_id', r)),
            pg('id', pid) == f('resource_provider_id', r),
            z3.Select(pm.dom, pg('root_id', pid)),
            z3.Or(z3.Select(I_.fld_none(CC.PidRow, 'parent_id'), pid),
                  pg('parent_id', pid) == 0,
                  z3.Select(pm.dom, pg('parent_id', pid))),
            z3.Select(prov_traits.dom, f('resource_provider_id', r)),
            z3.Not(z3.Select(sums0, f('resource_provider_id', r))),
            z3.Implies(z3.Not(fn('resource_class_id', r)),
                       cache.known_id(f('resource_class_id', r))))),
            patterns=[z3.Select(rows.arr, j)]))
        # one row per (provider, class): inventories are unique on it and
        # class names are unique per id (A-key)
        I_.ex.hyp(ops.forall([j, j2], z3.Implies(
            z3.And(inr, j2 >= 0, j2 < rows.len, j != j2,
                   f('resource_provider_id', r) == f('resource_provider_id', r2),
                   z3.Not(fn('resource_class_id', r)),
                   z3.Not(fn('resource_class_id', r2))),
            cache.f_str(f('resource_class_id', r)) !=
            cache.f_str(f('resource_class_id', r2))),
            patterns=[z3.MultiPattern(z3.Select(rows.arr, j),
                                      z3.Select(rows.arr, j2))]))
    spec = CC.BPS_LOOPS[(CC.BQ, 1)]
    import copy as _copy
    spec2 = _copy.copy(spec)
    spec2.on_entry = entry
    reg['loops'][(CC.BQ, 1)] = spec2
    try:
        I.call(ac._build_provider_summaries, [ctx, rw, root_ids, prov_traits], {})
    except PyRaise as pr:
        ex.oblige('C02.T.summaries.no_raise', False, 'T',
                  {'raised': pr.exc.cls.__name__, 'args': repr(pr.exc.args)})
        return
    if 'rows' not in rows_box:
        # nothing was read: allowed only when every root already has its
        # summaries (no new root)
        xr = z3.Int('x!bskip')
        ex.oblige('C02.T.summaries.skipped_only_without_new_roots',
                  ops.forall([xr], z3.Implies(z3.Select(root_ids.arr, xr),
                                              z3.Select(sums_entry.dom, xr)),
                             patterns=[z3.Select(root_ids.arr, xr)]), 'T')
        return
    rows = rows_box['rows']
    psr_map = I.read_field(rw, 'psum_res_by_rp_rc')
    sum_map = I.read_field(rw, 'summaries_by_id')

    class _F(object):
        locals = {'provider_ids': rows_box['pids']}
    j = z3.Int('j!bpost')
    res, prov = CC.bps_row_facts(I, _F, j, psr_map, sum_map)
    inr = z3.And(j >= 0, j < rows.len)
    ex.oblige('C02.T.summaries.capacity_used_max_unit', ops.forall(
        [j], z3.Implies(inr, res), patterns=[z3.Select(rows.arr, j)]), 'T')
    ex.oblige('C02.T.summaries.provider_uuid_parent_root', ops.forall(
        [j], z3.Implies(inr, prov), patterns=[z3.Select(rows.arr, j)]), 'T')


def claim_lemmas(chk):
    """The claim lemma: what the per-group SQL clause (real
    _capacity_check_clause object, translated term by term) and
    exceeds_capacity (contract proved above) let through is accepted by
    _check_capacity_exceeded (acceptance condition = its contract, proved
    against its body by C01)."""
    import sqlalchemy as sa
    from pyvc import sqlexpr
    from pyvc.core import Explorer
    from pyvc.ghostdb import GhostDB, PAIR
    from contracts import allocation as AC
    ex = Explorer()
    I = Interp(ex, registry())
    db = GhostDB(I, 'db')
    key = z3.Const('key!claim', sort_of(PAIR))
    inv = db.tables['inventories']
    col = lambda c: z3.Select(inv.data[c], key)
    used, a, b, A = z3.Ints('used!claim a!claim b!claim A!claim')
    used_null = z3.Bool('used_null!claim')
    usage_tbl = sa.table('usage', sa.column('used'))
    clause = res_ctx._capacity_check_clause(sa.bindparam('amount'), usage_tbl)
    inv_name = res_ctx._INV_TBL.name

    def G(x):
        cols = {(inv_name, c): (col(c), z3.BoolVal(False),
                                'real' if c == 'allocation_ratio' else 'int')
                for c in ('total', 'reserved', 'min_unit', 'max_unit',
                          'step_size', 'allocation_ratio')}
        cols[('usage', 'used')] = (used, used_null, 'int')
        return sqlexpr.pred(clause, {'binds': {'amount': (x, 'int')},
                                     'cols': cols})
    u = z3.If(used_null, 0, used)
    row = [z3.Select(inv.exists, key), u >= 0, z3.Select(db.usage, key) == u]
    # the row invariants of the inventories table, at this row
    row += [col('total') >= 1, col('reserved') >= 0, col('min_unit') >= 1,
            col('max_unit') >= 1, col('step_size') >= 1]
    accept = lambda x: z3.And(AC.units_ok(db, key, x),
                              AC.capacity_ok(db, key, x))
    c = z3.ToReal(col('total') - col('reserved')) * col('allocation_ratio')
    cap = z3.If(c >= 0, z3.ToInt(c), -z3.ToInt(-c))     # int(): truncation
    exceeds = lambda x: z3.Or(u + x > cap, x > col('max_unit'))
    units = lambda x: z3.And(col('min_unit') <= x, x % col('step_size') == 0)
    qa, qb = z3.Ints('qa!claim qb!claim')
    div = [a == qa * col('step_size'), b == qb * col('step_size')]
    chk.lemma('C02.T.claim.single_group_accepted', z3.Implies(G(a), accept(a)),
              hyps=row + [a >= 1], kind='T')
    chk.lemma('C02.T.claim.clause_implies_units', z3.Implies(G(a), units(a)),
              hyps=row + [a >= 1], kind='T')
    st = col('step_size')
    x = z3.Int('x!claim')
    # divisibility, witness style: x % s == 0  =>  x == (x div s) * s
    chk.lemma('C02.L.mod_gives_quotient',
              z3.Implies(z3.And(st >= 1, x % st == 0), x == (x / st) * st),
              kind='A')
    t = z3.Int('t!claim')
    chk.lemma('C02.L.multiple_has_zero_mod',
              z3.Implies(z3.And(st >= 1, x == t * st), x % st == 0), kind='A')
    chk.lemma('C02.T.claim.units_add_up',
              z3.Implies(z3.And(units(a), units(b)), units(a + b)),
              hyps=row + [a >= 1, b >= 1,
                          # instances of C02.L.mod_gives_quotient
                          z3.Implies(a % st == 0, a == (a / st) * st),
                          z3.Implies(b % st == 0, b == (b / st) * st),
                          # instance of C02.L.multiple_has_zero_mod
                          z3.Implies(a + b == (a / st + b / st) * st,
                                     (a + b) % st == 0)],
              kind='T')
    chk.lemma('C02.T.claim.folded_amount_accepted',
              z3.Implies(z3.And(units(A), z3.Not(exceeds(A))), accept(A)),
              hyps=row + [A >= 1], kind='T')


def replay_c02(r):
    sys.path.insert(0, os.path.join(runner.VERIF, 'replay'))
    import c02
    return c02.search(getattr(r, 'model', None), TIER[0])


TIER = ['quick']


def build(tier, seed):
    chk = runner.Check('C02', tier, seed)
    TIER[0] = tier
    chk.script('consolidate', script_consolidate,
               ['placement/objects/allocation_candidate.py:_consolidate_allocation_requests',
                'placement/objects/research_context.py:RequestWideSearchContext.copy_arr_if_needed'])
    chk.script('consolidate_mappings', script_consolidate_mappings,
               ['placement/objects/allocation_candidate.py:_consolidate_allocation_requests'])
    chk.script('exceeds_capacity', script_exceeds,
               ['placement/objects/research_context.py:RequestWideSearchContext.exceeds_capacity'])
    chk.script('request_for_provider', script_request_for_provider,
               ['placement/objects/allocation_candidate.py:_allocation_request_for_provider'])
    chk.script('single_provider', script_single_provider,
               ['placement/objects/allocation_candidate.py:_alloc_candidates_single_provider',
                'placement/objects/allocation_candidate.py:_allocation_request_for_provider',
                'placement/objects/allocation_candidate.py:AllocationRequest.__copy__',
                'placement/objects/research_context.py:RequestWideSearchContext.in_filtered_anchors'])
    chk.script('build_provider_summaries', script_summaries,
               ['placement/objects/allocation_candidate.py:_build_provider_summaries'])
    chk.script('multi_group_rcs', script_multi_group,
               ['placement/objects/allocation_candidate.py:AllocationCandidates._get_by_requests'])
    claim_lemmas(chk)
    chk.canary('canary.consolidate.amounts', canary_consolidate)
    chk.replayer('C02.', replay_c02)
    chk.fallback('B4.c02.claim_every_candidate', lambda: replay_c02(None),
                 '4 topologies x 8 queries (+ isolate / three-group / overlapping-class queries) x microversions: every returned allocation request is checked against the query arithmetic, PUT for a fresh consumer (must be 204) and removed again; every summary compared with the stored inventory, usage, traits and tree position',
                 always=True)
    chk.assume('A-int', 'A-heap', 'A-lib', 'A-order', 'A-sql')
    return chk



# --------------------------------------------------------------------------
# _get_by_requests establishes consolidate's precondition: a class is in
# multi_group_rcs iff more than one group requests it
GQ = 'AllocationCandidates._get_by_requests'


def _mg_ghost(I):
    g = I.ghost
    if 'mg.G' not in g:
        g['mg.G'] = z3.Function('group_rcs', z3.IntSort(),
                                z3.ArraySort(CC.StrSort, z3.BoolSort()))
        g['mg.cnt'] = z3.Function(I.ex.fresh_name('cnt'), z3.IntSort(),
                                  CC.StrSort, z3.IntSort())
    return g['mg.G'], g['mg.cnt']


def _mg_sets(I, frame):
    rw = frame.locals['rw_ctx']
    multi = I.read_field(rw, 'multi_group_rcs')
    seen = frame.locals['seen_rcs']
    if not isinstance(seen, SSet) or not isinstance(multi, SSet):
        raise Undecided('seen_rcs / multi_group_rcs are %r / %r' % (seen, multi))
    return seen, multi


def mg_outer_lemmas(I, frame, i, seq):
    """definition of cnt(i, x) = number of the first i groups requesting x"""
    G, cnt = _mg_ghost(I)
    x = z3.Const('x!mg', CC.StrSort)
    I.ghost['mg.i'] = i
    I.ghost['mg.seq'] = seq
    grp = seq.element(I, i)
    gref = grp[1].ref if isinstance(grp, tuple) else grp.ref
    return [
        ops.forall([x], cnt(0, x) == 0, patterns=[cnt(0, x)]),
        ops.forall([x], cnt(i + 1, x) == cnt(i, x) +
                   z3.If(z3.Select(G(gref), x), 1, 0),
                   patterns=[cnt(i + 1, x)]),
        ops.forall([x], cnt(i, x) >= 0, patterns=[cnt(i, x)]),
    ]


def mg_outer_inv(I, frame, i, seq):
    G, cnt = _mg_ghost(I)
    seen, multi = _mg_sets(I, frame)
    x = z3.Const('x!mg', CC.StrSort)
    return [
        ops.forall([x], z3.Select(seen.arr, x) == (cnt(i, x) >= 1),
                   patterns=[z3.Select(seen.arr, x)]),
        ops.forall([x], z3.Select(multi.arr, x) == (cnt(i, x) >= 2),
                   patterns=[z3.Select(multi.arr, x)]),
    ]


def mg_inner_entry(I, frame, seq):
    seen, multi = _mg_sets(I, frame)
    I.ghost['mg.seen0'] = seen.arr
    I.ghost['mg.multi0'] = multi.arr


def mg_inner_inv(I, frame, i, seq):
    """within one group (its classes enumerated without repetition): seen
    grows by the classes visited, multi by those already seen before"""
    seen, multi = _mg_sets(I, frame)
    s0, m0 = I.ghost['mg.seen0'], I.ghost['mg.multi0']
    rcs = seq.origin
    x = z3.Const('x!mgi', CC.StrSort)
    visited = z3.And(z3.Select(rcs.arr, x), seq.idx(x) < i)
    return [
        ops.forall([x], z3.Select(seen.arr, x) ==
                   z3.Or(z3.Select(s0, x), visited),
                   patterns=[z3.Select(seen.arr, x)]),
        ops.forall([x], z3.Select(multi.arr, x) ==
                   z3.Or(z3.Select(m0, x), z3.And(visited, z3.Select(s0, x))),
                   patterns=[z3.Select(multi.arr, x)]),
    ]


def script_multi_group(ex):
    import C20
    from pyvc.interp import LoopSpec
    from placement import lib as plib
    reg = C20.registry_gbr()
    reg['fields'].update(CC.C02_FIELDS)
    reg['fields'][('RequestGroupSearchContext', 'rcs')] = \
        CC.FieldSpec(('set', 'str'))

    def rw_ctor(I, a, k):
        o = I.alloc(CC.RWSC)
        I.write_field(o, '_limit', I.fresh('limit', 'int', True))
        I.write_field(o, '_nested_aware', I.fresh('nested_aware', 'bool'))
        I.write_field(o, 'has_trees', I.fresh('has_trees', 'bool'))
        empty = SSet(z3.K(CC.StrSort, z3.BoolVal(False)), 'str', [], 'empty')
        I.write_field(o, 'multi_group_rcs', empty)
        I.ghost['rw'] = o
        return o
    reg['classes'][res_ctx.RequestWideSearchContext] = rw_ctor

    def rg_ctor(I, a, k):
        G, cnt = _mg_ghost(I)
        group = a[1]
        o = I.alloc(res_ctx.RequestGroupSearchContext)
        I.write_field(o, 'rcs', SSet(G(group.ref), 'str', None, 'rcs'))
        return o
    reg['classes'][res_ctx.RequestGroupSearchContext] = rg_ctor
    reg['loops'][(GQ, 1)] = LoopSpec(
        invariant=mg_outer_inv, lemmas=mg_outer_lemmas, name='C02.multi.groups',
        keep=('cls', 'context', 'groups', 'rqparams', 'nested_aware', 'rw_ctx',
              'sharing'),
        modifies_fields=(('RequestWideSearchContext', 'multi_group_rcs'),
                         ('AllocationRequest', 'use_same_provider')))
    reg['loops'][(GQ, 2)] = LoopSpec(
        invariant=mg_inner_inv, on_entry=mg_inner_entry,
        name='C02.multi.classes',
        keep=('cls', 'context', 'groups', 'rqparams', 'nested_aware', 'rw_ctx',
              'sharing', 'suffix', 'group', 'rg_ctx', 'candidates'),
        modifies_fields=(('RequestWideSearchContext', 'multi_group_rcs'),))
    reg['havoc_types'][(GQ, 'seen_rcs')] = ('set', 'str')
    reg['havoc_types'][(GQ, 'candidates')] = \
        ('map', 'str', ('list', ('obj', CC.AREQ)))
    I = Interp(ex, reg)
    ctx = lib.CtxStub()
    I.ghost['ctx'] = ctx
    groups = I.fresh_map('groups', 'str', ('obj', plib.RequestGroup))
    rqparams = I.alloc(plib.RequestWideParams)
    try:
        I.call(ac.AllocationCandidates._get_by_requests.__func__,
               [ac.AllocationCandidates, ctx, groups, rqparams], {})
    except PyRaise as pr:
        raise Undecided('_get_by_requests raised %s %r'
                        % (pr.exc.cls.__name__, pr.exc.args))
    if not I.events_of('merge'):
        return          # a group without candidates: nothing is consolidated
    G, cnt = _mg_ghost(I)
    rw = I.ghost['rw']
    multi = I.read_field(rw, 'multi_group_rcs')
    seq = I.ghost.get('mg.seq')
    if seq is None:
        raise Undecided('the group loop was not reached')
    x = z3.Const('x!mgpost', CC.StrSort)
    ex.oblige('C02.T.multi_group_rcs_is_classes_of_more_than_one_group',
              ops.forall([x], z3.Select(multi.arr, x) == (cnt(seq.len, x) >= 2),
                         patterns=[z3.Select(multi.arr, x)]), 'T')

if __name__ == '__main__':
    runner.main(build)
