"""Scripts shared by C05 / C06 / C10 / C12 / C07: generation guards and
consumer life cycle at handler level, and the real body of ensure_consumer
under interference."""
import sys
import os
sys.path.insert(0, os.path.dirname(os.path.dirname(os.path.abspath(__file__))))

import z3

from pyvc.core import Undecided, PathEnd
from pyvc.interp import PyRaise
from pyvc.values import Sym, Obj, VDict, SList
from pyvc import ops
from pyvc.ops import to_term
from contracts import handlers as H, objects, lib
from props import common

from placement import errors
from placement import exception

GUARDED = {      # operation -> how the client generation is named in the body
    ('PUT', '/resource_providers/{uuid}/inventories'): 'resource_provider_generation',
    ('PUT', '/resource_providers/{uuid}/inventories/{resource_class}'): 'resource_provider_generation',
    ('PUT', '/resource_providers/{uuid}/traits'): 'resource_provider_generation',
    ('PUT', '/resource_providers/{uuid}/aggregates'): 'resource_provider_generation',
}
DERIVED = [
    ('POST', '/resource_providers/{uuid}/inventories'),
    ('DELETE', '/resource_providers/{uuid}/inventories'),
    ('DELETE', '/resource_providers/{uuid}/inventories/{resource_class}'),
    ('DELETE', '/resource_providers/{uuid}/traits'),
]
READ_ONLY_METHODS = ('GET',)


def provider_script(route, method, wobj, interference=True):
    """C05 / C10 obligations on one provider-writing handler."""
    op = '%s %s' % (method, route)
    key = GUARDED.get((method, route))

    def script(ex):
        I, ctx, ver, req = common.new_interp(ex, interference=interference)
        out = common.run(I, wobj, req)
        info = {'operation': op, 'signature': op}
        evs = I.events
        reads = [e for e in evs if e[0] == 'read.provider']
        cass = [e for e in evs if e[0] == 'cas.provider']
        body = None
        for e in evs:
            if e[0] == 'extract_json.result':
                body = e[1]
        if out[0] == 'return':
            # ---- C10: a successful change bumps the provider's generation,
            # and the generation in the answer is the one after the bump
            writes = [e for e in evs if e[0] == 'db.write' and e[1] in (
                'inventories', 'resource_provider_traits',
                'resource_provider_aggregates')]
            if writes:
                aggs_old = (route.endswith('/aggregates'))
                need = z3.BoolVal(True)
                if aggs_old:
                    need = ver.minor >= 19
                has_cas = bool(cass)
                if route.endswith('/traits') and not has_cas:
                    # set_traits without changes: nothing written
                    pass
                else:
                    ex.oblige('C10.T.bump', z3.Implies(need, z3.BoolVal(has_cas)),
                              'T', dict(info, signature=op + ' bump'))
            if cass:
                rp, rid, g, ok, tid = cass[-1][1:6]
                if key is not None:
                    # ---- C05.O2: the write was applied against the generation
                    # the client carried
                    cg = client_generation(I, body, key)
                    if cg is None:
                        if not (route.endswith('/aggregates')):
                            ex.oblige('C05.T.guard', False, 'T', dict(
                                info, signature=op + ' guard (no client generation)'))
                    else:
                        ex.oblige('C05.T.guard', g == cg, 'T',
                                  dict(info, signature=op + ' guard'))
                if reads:
                    # ---- C05.O3: derived-generation writers use the
                    # generation of their own read of that provider
                    same_rp = reads[-1][2] == rid
                    ex.oblige('C05.T.derived', z3.And(same_rp, g == reads[-1][3]),
                              'T', dict(info, signature=op + ' derived'))
                # the CAS is inside the writer transaction that wrote the data
                wtx = set(e[3] for e in evs if e[0] == 'db.write' and e[1] in (
                    'inventories', 'resource_provider_traits',
                    'resource_provider_aggregates', 'resource_providers'))
                ex.oblige('C05.T.cas_in_write_txn', wtx <= {tid}, 'T',
                          dict(info, signature=op + ' cas in txn'))
                # ---- C10: generation returned == generation after the bump
                resp = [e for e in evs if e[0] == 'json.dumps']
                if resp and isinstance(resp[-1][1], VDict) and \
                        'resource_provider_generation' in resp[-1][1].items:
                    v = resp[-1][1].items['resource_provider_generation']
                    ex.oblige('C10.T.response_generation',
                              to_term(v, 'int') == g + 1, 'T',
                              dict(info, signature=op + ' response generation'))
            elif key is not None and method == 'PUT' and not (
                    route.endswith('/traits') or route.endswith('/aggregates')):
                ex.oblige('C05.T.guard', False, 'T', dict(
                    info, signature=op + ' success without compare-and-swap'))
            return
        exc = out[1]
        st = H.status_of(exc)
        # ---- C05.O4: every exit caused by the generation is a 409 with the
        # concurrent-update code
        caused = False
        calls = [e for e in evs if e[0] == 'cas.provider']
        raised_conflict = any(e[0] == 'contract.raised' and issubclass(
            e[2], exception.ConcurrentUpdateDetected) for e in evs)
        if raised_conflict:
            code = I.ghost['req'].environ.written.get('placement.error_code')
            ok = st == 409 and code == errors.CONCURRENT_UPDATE
            ex.oblige('C05.T.status', ok, 'T', dict(
                info, raised=exc.cls.__name__, status=st, code=repr(code),
                signature='%s raises %s' % (op, exc.cls.__name__)
                if st is None else op + ' conflict status'))
    return script


def client_generation(I, body, key):
    if isinstance(body, VDict) and key in body.items:
        pres = (body.present or {}).get(key)
        if pres is not None:
            return None
        return to_term(body.items[key], 'int')
    return None


def ensure_consumer_script(ex):
    """handlers.util.ensure_consumer, real body, leaf contracts, interference
    between its transactions."""
    from placement.handlers import util as hutil
    reg = common.full_registry()
    del reg['calls'][id(hutil.ensure_consumer)]
    I, ctx, ver, req = common.new_interp(ex, reg, interference=True)
    uuid = I.fresh('consumer_uuid', 'str')
    cgen = I.fresh('consumer_generation', 'int', nullable=True)
    args = [ctx, uuid, I.fresh('project_id', 'str', nullable=True),
            I.fresh('user_id', 'str', nullable=True), cgen,
            I.fresh('consumer_type', 'str', nullable=True), ver]
    try:
        res = I.call(hutil.ensure_consumer, args, {})
    except PyRaise as pr:
        st = H.status_of(pr.exc)
        ok = st == 409 or issubclass(pr.exc.cls, exception.NotFound)
        ex.oblige('EC.raises', ok, 'C', {
            'raised': pr.exc.cls.__name__,
            'signature': 'ensure_consumer raises ' + pr.exc.cls.__name__})
        if st == 409:
            code = pr.exc.fields.get('comment')
            ex.oblige('EC.conflict_code', code == errors.CONCURRENT_UPDATE, 'C',
                      {'signature': 'ensure_consumer conflict code'})
        return
    consumer, created, attr = res
    created_events = [e for e in I.events if e[0] == 'created.consumer']
    mine = [e for e in created_events if isinstance(consumer, Obj) and
            e[1].ref.eq(consumer.ref)]
    # E1: the "created" flag is true exactly when this call inserted the row
    ex.oblige('EC.created_flag', (created is True) == bool(mine), 'C',
              {'signature': 'ensure_consumer created flag',
               'created': repr(created), 'inserted': bool(mine)})
    # E2 (>= 1.28): an existing consumer is accepted only with its generation;
    # null means "must not exist yet"
    needs = ver.minor >= 28
    gen_none = ops.z3bool(ops.none_flag(cgen))
    reads = [e for e in I.events if e[0] == 'read.consumer']
    if not mine:
        obj_gen = to_term(I.read_field(consumer, 'generation'), 'int')
        ex.oblige('EC.existing_needs_generation', z3.Implies(
            needs, z3.And(z3.Not(gen_none), cgen.t == obj_gen)), 'C',
            {'signature': 'ensure_consumer adopts an existing consumer'})
        if reads:
            ex.oblige('EC.object_generation_is_row_generation',
                      obj_gen == reads[-1][3], 'C',
                      {'signature': 'ensure_consumer object generation'})
    else:
        ex.oblige('EC.new_needs_null', z3.Implies(needs, gen_none), 'C',
                  {'signature': 'ensure_consumer creates with a generation'})
        ex.oblige('EC.new_generation_zero',
                  to_term(I.read_field(consumer, 'generation'), 'int') == 0, 'C',
                  {'signature': 'ensure_consumer new generation'})
