"""C-level obligations on the provider mutators of
placement/objects/resource_provider.py: each runs as one writer transaction
and, when it changes anything (always, for the inventory mutators), performs
the generation compare-and-swap on ITS provider as the last write."""
import sys
import os
sys.path.insert(0, os.path.dirname(os.path.dirname(os.path.abspath(__file__))))

import z3

from pyvc.core import Undecided
from pyvc.interp import Interp, PyRaise
from pyvc.values import Sym, Obj, VList, SList, SSet, SMap
from pyvc.ghostdb import GhostDB
from pyvc import ops
from pyvc.ops import to_term
from contracts import lib, classes, objects
from props import common

from placement import exception as E
from placement.objects import resource_provider as rp_obj
from placement.objects import trait as trait_obj
from placement.objects import inventory as inv_obj


class TraitRow(object):
    pass


def helper_contracts(reg):
    C = objects.Contract
    more = [
        C(rp_obj._get_current_inventory_resources,
          '_get_current_inventory_resources', '',
          result=lambda I, a, k: I.fresh_set('existing_resources', 'int')),
        C(rp_obj._delete_inventory_from_provider,
          '_delete_inventory_from_provider', '', raises=(E.InventoryInUse,),
          writes=('inventories',),
          model=lambda I, c, a, k, exc: (I.db.havoc(['inventories'])
                                         if exc is None else None,
                                         I.fresh('rowcount', 'int'))[1]
          if exc is None else None),
        C(rp_obj._add_inventory_to_provider, '_add_inventory_to_provider', '',
          writes=('inventories',),
          model=lambda I, c, a, k, exc: I.db.havoc(['inventories'])),
        C(rp_obj._update_inventory_for_provider,
          '_update_inventory_for_provider', '',
          raises=(E.InventoryWithResourceClassNotFound,),
          writes=('inventories',),
          model=lambda I, c, a, k, exc: (I.db.havoc(['inventories']),
                                         VList([]))[1] if exc is None else None),
        C(trait_obj.get_traits_by_provider_id, 'get_traits_by_provider_id', '',
          result=lambda I, a, k: I.fresh_list('existing_traits',
                                              ('obj', classes.TRAIT))),
        C(rp_obj._delete_traits_from_provider, '_delete_traits_from_provider',
          '', writes=('resource_provider_traits',),
          model=lambda I, c, a, k, exc: I.db.havoc(['resource_provider_traits'])),
        C(rp_obj._add_traits_to_provider, '_add_traits_to_provider', '',
          writes=('resource_provider_traits',),
          model=lambda I, c, a, k, exc: I.db.havoc(['resource_provider_traits'])),
        C(rp_obj._get_aggregates_by_provider_id, '_get_aggregates_by_provider_id',
          '', result=lambda I, a, k: I.fresh_map('existing_aggregates', 'int', 'str')),
        C(rp_obj._ensure_aggregate, '_ensure_aggregate', '',
          writes=('placement_aggregates',),
          result=lambda I, a, k: I.fresh('agg_id', 'int')),
    ]
    for c in more:
        reg['calls'][id(c.target)] = c
        reg['contracts'][c.name] = c
    reg.setdefault('havoc_types', {})[('_set_aggregates', 'aggs_to_associate')] = \
        ('map', 'int', 'str')
    return reg


def _setup(ex):
    reg = common.full_registry()
    helper_contracts(reg)
    I = Interp(ex, reg)
    I.db = GhostDB(I, 'db')
    for h in I.db.row_invariants():
        ex.hyp(h)
    ctx = lib.CtxStub()
    I.ghost['ctx'] = ctx
    rp = I.fresh('rp', ('obj', classes.RP))
    for f in ('id', 'generation', 'uuid'):
        ex.assume(z3.Not(z3.Select(I.fld_none(classes.RP, f), rp.ref)))
    return I, ctx, rp


def _post(ex, I, rp, t0, rid, g, name, must_bump, allowed):
    def check(exc):
        t1 = I.db.tables['resource_providers']
        tx = [e for e in I.events if e[0] == 'txn.begin']
        ex.oblige(name + '.one_writer_txn',
                  len(tx) == 1 and tx[0][2] == 'writer', 'C',
                  {'signature': name + ' one writer transaction'})
        if exc is not None:
            ex.oblige(name + '.raises', issubclass(exc.cls, allowed), 'C',
                      {'raised': exc.cls.__name__,
                       'signature': '%s raises %s' % (name, exc.cls.__name__)})
            ex.oblige(name + '.error_rolls_back',
                      any(e[0] == 'txn.rollback' for e in I.events), 'C',
                      {'signature': name + ' rollback'})
            return
        bumped = z3.And(
            z3.Select(t0.exists, rid),
            z3.Select(t0.data['generation'], rid) == g,
            z3.Select(t1.data['generation'], rid) == g + 1,
            to_term(I.read_field(rp, 'generation'), 'int') == g + 1)
        untouched = z3.And(
            z3.Select(t1.data['generation'], rid) ==
            z3.Select(t0.data['generation'], rid),
            to_term(I.read_field(rp, 'generation'), 'int') == g)
        if must_bump is True:
            ex.oblige(name + '.bumps', bumped, 'C',
                      {'signature': name + ' bumps the generation'})
        else:
            ex.oblige(name + '.bumps_iff', z3.If(must_bump(), bumped, untouched),
                      'C', {'signature': name + ' bumps iff it changes something'})
        # the CAS is the last write of the transaction
        ws = [e for e in I.events if e[0] == 'db.write']
        if ws and must_bump is True:
            ex.oblige(name + '.cas_last', ws[-1][1] == 'resource_providers', 'C',
                      {'signature': name + ' compare-and-swap last'})
    return check


def make(name, fn, build_args, must_bump=True, allowed=()):
    allowed = tuple(allowed) + (E.ResourceProviderConcurrentUpdateDetected,)

    def script(ex):
        I, ctx, rp = _setup(ex)
        t0 = I.db.tables['resource_providers']
        rid = to_term(I.read_field(rp, 'id'), 'int')
        g = to_term(I.read_field(rp, 'generation'), 'int')
        args, kwargs, mb = build_args(I, ctx, rp)
        check = _post(ex, I, rp, t0, rid, g, 'mut.' + name,
                      mb if mb is not None else must_bump, allowed)
        try:
            I.call(fn, args, kwargs)
        except PyRaise as pr:
            check(pr.exc)
            return
        check(None)
    return script


def _inv(I, rp):
    inv = I.fresh('inventory', ('obj', classes.INV))
    return inv


def scripts():
    out = {}
    out['_add_inventory'] = (make(
        '_add_inventory', rp_obj._add_inventory,
        lambda I, ctx, rp: ([ctx, rp, _inv(I, rp)], {}, None),
        allowed=(E.ResourceClassNotFound,)),
        'placement/objects/resource_provider.py:_add_inventory')
    out['_update_inventory'] = (make(
        '_update_inventory', rp_obj._update_inventory,
        lambda I, ctx, rp: ([ctx, rp, _inv(I, rp)], {}, None),
        allowed=(E.ResourceClassNotFound, E.InventoryWithResourceClassNotFound)),
        'placement/objects/resource_provider.py:_update_inventory')
    out['_delete_inventory'] = (make(
        '_delete_inventory', rp_obj._delete_inventory,
        lambda I, ctx, rp: ([ctx, rp, I.fresh('resource_class', 'str')], {}, None),
        allowed=(E.ResourceClassNotFound, E.InventoryInUse, E.NotFound)),
        'placement/objects/resource_provider.py:_delete_inventory')
    out['_set_inventory'] = (make(
        '_set_inventory', rp_obj._set_inventory,
        lambda I, ctx, rp: ([ctx, rp, I.fresh_list('inv_list', ('obj', classes.INV))],
                            {}, None),
        allowed=(E.ResourceClassNotFound, E.InventoryInUse,
                 E.InventoryWithResourceClassNotFound)),
        'placement/objects/resource_provider.py:_set_inventory')

    def agg_args(I, ctx, rp):
        inc = I.fresh('increment_generation', 'bool')
        return ([ctx, rp, I.fresh_list('aggregate_uuids', 'str')],
                {'increment_generation': inc}, (lambda: inc.t))
    out['_set_aggregates'] = (make(
        '_set_aggregates', rp_obj._set_aggregates, agg_args),
        'placement/objects/resource_provider.py:_set_aggregates')
    def traits_args(I, ctx, rp):
        def wrote():
            return z3.BoolVal(any(e[0] == 'db.write' and
                                  e[1] == 'resource_provider_traits'
                                  for e in I.events))
        return ([ctx, rp, I.fresh_list('traits', ('obj', classes.TRAIT))], {},
                wrote)
    out['_set_traits'] = (make('_set_traits', rp_obj._set_traits, traits_args),
                          'placement/objects/resource_provider.py:_set_traits')
    return out


def add(chk, names=None):
    for n, (fn, where) in scripts().items():
        if names is None or n in names:
            chk.script('mutator:' + n, fn, [where])
