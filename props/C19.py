"""C19 -- standard traits / classes immutable, custom ones namespaced, custom
class ids >= 10000 and unique.

(1) language inclusion, decided by z3 / cvc5 over the real schema objects:
    every string the name schemas accept (python `re.search` semantics of the
    anchors) is CUSTOM_[A-Z0-9_]* of at most 255 characters;
(2) data flow in the real handlers: the very string handed to Trait.create /
    ResourceClass.create / ResourceClass.save is one that was validated
    against such a schema;
(3) body proofs over the ghost tables: ResourceClass.create allocates a fresh
    id >= 10000 and never duplicates a name; ResourceClass.destroy / save and
    Trait.destroy refuse standard entries before any write and entries in
    use without changing anything;
(4) bounded stand-in on the real stack: start-up synchronisation from empty /
    partial / full tables (idempotent, fixed ids), creation histories."""
import sys
import os
sys.path.insert(0, os.path.dirname(os.path.dirname(os.path.abspath(__file__))))

import z3

from pyvc.core import Undecided
from pyvc.interp import Interp, PyRaise
from pyvc.values import Sym, Obj, VDict, VList, Native, StrSort
from pyvc.ghostdb import GhostDB
from pyvc import runner, ops, regex
from pyvc.ops import to_term
from contracts import lib, classes, orm, handlers as H
from props import common

from oslo_db import exception as db_exc
from placement import exception
from placement.db.sqlalchemy import models
from placement.objects import resource_class as rc_obj
from placement.objects import trait as trait_obj
from placement.schemas import resource_class as rc_schema
from placement.schemas import trait as trait_schema

RC = rc_obj.ResourceClass
TRAIT = trait_obj.Trait
MIN_CUSTOM = RC.MIN_CUSTOM_RESOURCE_CLASS_ID


def spec_name(s):
    """CUSTOM_ followed only by A-Z, 0-9, _ ; at most 255 characters"""
    body = z3.Star(z3.Union(z3.Range('A', 'Z'), z3.Range('0', '9'), z3.Re('_')))
    return z3.And(z3.InRe(s, z3.Concat(z3.Re('CUSTOM_'), body)),
                  z3.Length(s) <= 255)


NAME_SCHEMAS = {
    'schemas/trait.py:CUSTOM_TRAIT': trait_schema.CUSTOM_TRAIT,
    'schemas/trait.py:PUT_TRAITS_SCHEMA.traits.items':
        trait_schema.PUT_TRAITS_SCHEMA['properties']['traits']['items'],
    'schemas/resource_class.py:POST_RC_SCHEMA_V1_2.name':
        rc_schema.POST_RC_SCHEMA_V1_2['properties']['name'],
    'schemas/resource_class.py:PUT_RC_SCHEMA_V1_2.name':
        rc_schema.PUT_RC_SCHEMA_V1_2['properties']['name'],
}


def language_lemmas(chk):
    s = z3.String('s!c19')
    for name, sch in sorted(NAME_SCHEMAS.items()):
        chk.lemma('C19.T.language[%s]' % name,
                  z3.Implies(regex.schema_accepts(sch, s), spec_name(s)),
                  kind='T', info={'schema': name,
                                  'pattern': sch.get('pattern'),
                                  'probes': {'s': s}})


def canary_language(ex):
    """claiming that accepted names contain no digits must be refuted"""
    s_ = z3.String('s!c19canary')
    narrow = z3.InRe(s_, z3.Concat(z3.Re('CUSTOM_'), z3.Star(z3.Union(
        z3.Range('A', 'Z'), z3.Re('_')))))
    ex.oblige('C19.canary.language', z3.Implies(regex.schema_accepts(
        rc_schema.POST_RC_SCHEMA_V1_2['properties']['name'], s_), narrow),
        'canary')


def schema_ok(sch):
    """the schema is one of the name schemas (whose language is proved above),
    by identity of its string-level keywords"""
    if not isinstance(sch, dict):
        return False
    key = lambda d: (d.get('pattern'), d.get('maxLength'), d.get('type'))
    return any(key(sch) == key(x) for x in NAME_SCHEMAS.values())


CREATE_OPS = [
    ('PUT', '/traits/{name}'), ('POST', '/resource_classes'),
    ('PUT', '/resource_classes/{name}'),
]


def make_flow_script(route, method, wobj):
    op = '%s %s' % (method, route)

    def script(ex):
        reg = common.full_registry()
        seen = []

        def watch(target, what):
            orig = reg['calls'].get(id(target))

            def stub(I, a, k):
                seen.append((what, I.read_field(a[0], 'name')))
                return orig(I, a, k)
            reg['calls'][id(target)] = stub
        watch(TRAIT.create, 'Trait.create')
        watch(RC.create, 'ResourceClass.create')
        watch(RC.save, 'ResourceClass.save')
        I, ctx, ver, req = common.new_interp(ex, reg)
        common.run(I, wobj, req)
        validated = I.ghost.get('validated', {})
        for what, nm in seen:
            ok = isinstance(nm, Sym) and nm.ty == 'str' and \
                schema_ok(validated.get(nm.t.sexpr()))
            ex.oblige('C19.T.flow.name_validated', ok, 'T',
                      {'operation': op, 'call': what, 'name': repr(nm),
                       'signature': '%s hands an unvalidated name to %s'
                                    % (op, what)})
    return script


# --------------------------------------------------------------------------
def retry_inv(I, frame, i, seq):
    """ResourceClass.create retry loop: failed attempts were rolled back (the
    tables are those of the loop entry), the counter never goes negative"""
    db0 = I.ghost.setdefault('c19.loop_db', I.db)
    r = frame.locals['retries']
    same = all(I.db.tables[t].exists is db0.tables[t].exists and
               all(I.db.tables[t].data[c] is db0.tables[t].data[c]
                   for c in db0.tables[t].data) for t in db0.tables)
    out = [z3.BoolVal(same)]
    if isinstance(r, Sym):
        out.append(r.t >= 0)
    else:
        out.append(z3.BoolVal(r >= 0))
    return out


def registry():
    from pyvc.interp import LoopSpec
    reg = lib.base_registry()
    reg['loops'][('ResourceClass.create', 2)] = LoopSpec(
        invariant=retry_inv, name='C19.create.retry',
        keep=('self', 'updates'))
    reg['fields'].update(classes.FIELDS)
    reg['getattr'] = lib.context_getattr_hook
    reg['unique_checks'] = ('resource_classes', 'traits')
    orm.install(reg, models)
    return reg


def setup(ex, cls):
    I = Interp(ex, registry())
    I.db = GhostDB(I, 'db')
    for h in I.db.row_invariants():
        ex.hyp(h)
    ctx = lib.CtxStub()
    I.ghost['ctx'] = ctx
    o = I.fresh('obj', ('obj', cls))
    return I, ctx, o


def unchanged(I, db0):
    return all(I.db.tables[t].exists is db0.tables[t].exists and
               all(I.db.tables[t].data[c] is db0.tables[t].data[c]
                   for c in db0.tables[t].data)
               for t in db0.tables)


def wrote(I):
    return [e for e in I.events if e[0] == 'db.write']


def script_rc_create(ex):
    I, ctx, rc = setup(ex, RC)
    t0 = I.db.tables['resource_classes']
    db0 = I.db.snapshot()
    name0 = I.read_field(rc, 'name')
    try:
        I.call(RC.create, [rc], {})
        lib.oblige_one_writer_txn(I, 'C19.rc_create')
    except PyRaise as pr:
        lib.oblige_one_writer_txn(I, 'C19.rc_create')
        ex.oblige('C19.create.raises.class', issubclass(pr.exc.cls, (
            exception.ObjectActionError, exception.ResourceClassExists,
            exception.MaxDBRetriesExceeded)), 'C',
            {'raised': pr.exc.cls.__name__})
        ex.oblige('C19.T.rc_create.rejected_changes_nothing',
                  unchanged(I, db0), 'T')
        return
    t = I.db.tables['resource_classes']
    n = to_term(I.read_field(rc, 'id'), 'int')
    k = z3.Int('k!c19')
    ex.oblige('C19.T.rc_create.id_at_least_10000', n >= MIN_CUSTOM, 'T')
    ex.oblige('C19.T.rc_create.id_fresh', z3.And(
        z3.Not(z3.Select(t0.exists, n)), z3.Select(t.exists, n)), 'T')
    ex.oblige('C19.T.rc_create.name_stored',
              z3.Select(t.data['name'], n) == to_term(name0, 'str'), 'T')
    ex.oblige('C19.T.rc_create.never_a_duplicate', ops.forall([k], z3.Implies(
        z3.And(z3.Select(t.exists, k), k != n),
        z3.Select(t.data['name'], k) != z3.Select(t.data['name'], n)),
        patterns=[z3.Select(t.exists, k)]), 'T')
    ex.oblige('C19.T.rc_create.others_kept', ops.forall([k], z3.Implies(
        k != n, z3.And(z3.Select(t.exists, k) == z3.Select(t0.exists, k),
                       z3.Select(t.data['name'], k) ==
                       z3.Select(t0.data['name'], k))),
        patterns=[z3.Select(t.exists, k)]), 'T')


def script_rc_destroy(ex):
    I, ctx, rc = setup(ex, RC)
    t0 = I.db.tables['resource_classes']
    db0 = I.db.snapshot()
    rid = I.read_field(rc, 'id')
    try:
        I.call(RC.destroy, [rc], {})
        lib.oblige_one_writer_txn(I, 'C19.rc_destroy')
    except PyRaise as pr:
        lib.oblige_one_writer_txn(I, 'C19.rc_destroy')
        ex.oblige('C19.rc_destroy.raises.class', issubclass(pr.exc.cls, (
            exception.ObjectActionError, exception.ResourceClassInUse,
            exception.ResourceClassCannotDeleteStandard, exception.NotFound)),
            'C', {'raised': pr.exc.cls.__name__})
        ex.oblige('C19.T.rc_destroy.rejected_changes_nothing',
                  unchanged(I, db0), 'T')
        return
    n = to_term(rid, 'int')
    ex.oblige('C19.T.rc_destroy.standard_refused', n >= MIN_CUSTOM, 'T')
    inv = I.db.tables['inventories']
    from pyvc.values import sort_of
    kk = z3.Const('kk!c19', sort_of(inv.kty))
    ex.oblige('C19.T.rc_destroy.in_use_refused', ops.forall([kk], z3.Not(z3.And(
        z3.Select(inv.exists, kk),
        inv.col('resource_class_id', kk)[0] == n)),
        patterns=[z3.Select(inv.exists, kk)]), 'T')
    t = I.db.tables['resource_classes']
    k = z3.Int('k!c19')
    ex.oblige('C19.T.rc_destroy.only_that_row', ops.forall([k], z3.Select(
        t.exists, k) == z3.And(z3.Select(t0.exists, k), k != n),
        patterns=[z3.Select(t.exists, k)]), 'T')


def script_rc_save(ex):
    I, ctx, rc = setup(ex, RC)
    db0 = I.db.snapshot()
    t0 = I.db.tables['resource_classes']
    rid = I.read_field(rc, 'id')
    ex.assume(z3.Or(rid.none, z3.Select(t0.exists, rid.t)))
    try:
        I.call(RC.save, [rc], {})
        lib.oblige_one_writer_txn(I, 'C19.rc_save')
    except PyRaise as pr:
        lib.oblige_one_writer_txn(I, 'C19.rc_save')
        ex.oblige('C19.rc_save.raises.class', issubclass(pr.exc.cls, (
            exception.ObjectActionError, exception.ResourceClassExists,
            exception.ResourceClassCannotUpdateStandard)),
            'C', {'raised': pr.exc.cls.__name__})
        ex.oblige('C19.T.rc_save.rejected_changes_nothing',
                  unchanged(I, db0), 'T')
        return
    n = to_term(rid, 'int')
    ex.oblige('C19.T.rc_save.standard_refused', n >= MIN_CUSTOM, 'T')
    t = I.db.tables['resource_classes']
    k = z3.Int('k!c19')
    ex.oblige('C19.T.rc_save.only_that_row', ops.forall([k], z3.Implies(
        k != n, z3.And(z3.Select(t.exists, k) == z3.Select(t0.exists, k),
                       z3.Select(t.data['name'], k) ==
                       z3.Select(t0.data['name'], k))),
        patterns=[z3.Select(t.exists, k)]), 'T')


def script_trait_destroy(ex):
    I, ctx, tr = setup(ex, TRAIT)
    db0 = I.db.snapshot()
    t0 = I.db.tables['traits']
    name = I.read_field(tr, 'name')
    tid = I.read_field(tr, 'id')
    # an object loaded from the table (get_by_name)
    ex.assume(z3.Or(tid.none, name.none, z3.And(
        z3.Select(t0.exists, tid.t),
        z3.Select(t0.data['name'], tid.t) == name.t)))
    try:
        I.call(TRAIT.destroy, [tr], {})
        lib.oblige_one_writer_txn(I, 'C19.trait_destroy')
    except PyRaise as pr:
        lib.oblige_one_writer_txn(I, 'C19.trait_destroy')
        ex.oblige('C19.trait_destroy.raises.class', issubclass(pr.exc.cls, (
            exception.ObjectActionError, exception.TraitInUse,
            exception.TraitCannotDeleteStandard, exception.TraitNotFound)),
            'C', {'raised': pr.exc.cls.__name__})
        ex.oblige('C19.T.trait_destroy.rejected_changes_nothing',
                  unchanged(I, db0), 'T')
        return
    nt = to_term(name, 'str')
    starts = z3.Function('str_startswith', StrSort, StrSort, z3.BoolSort())
    ex.oblige('C19.T.trait_destroy.standard_refused',
              starts(nt, to_term('CUSTOM_', 'str')), 'T')
    rpt = I.db.tables['resource_provider_traits']
    from pyvc.values import sort_of
    kk = z3.Const('kk!c19t', sort_of(rpt.kty))
    ex.oblige('C19.T.trait_destroy.in_use_refused', ops.forall(
        [kk], z3.Not(z3.And(z3.Select(rpt.exists, kk),
                            rpt.col('trait_id', kk)[0] == to_term(tid, 'int'))),
        patterns=[z3.Select(rpt.exists, kk)]), 'T')
    t = I.db.tables['traits']
    k = z3.Int('k!c19')
    ex.oblige('C19.T.trait_destroy.only_rows_of_that_name', ops.forall(
        [k], z3.Select(t.exists, k) == z3.And(
            z3.Select(t0.exists, k), z3.Select(t0.data['name'], k) != nt),
        patterns=[z3.Select(t.exists, k)]), 'T')


def replay_c19(r):
    sys.path.insert(0, os.path.join(runner.VERIF, 'replay'))
    import c19
    return c19.search(r, TIER[0])


TIER = ['quick']


def build(tier, seed):
    chk = runner.Check('C19', tier, seed)
    TIER[0] = tier
    chk.unreachable_ok = {
        'C19.create.retry.step.':
            'another attempt is made only after a duplicate *id*, which needs '
            'a concurrent writer between max(id) and the INSERT; within the '
            'one transaction the sequential model runs (A-nofault) the id is '
            'fresh, so the retry branch is dead there'}
    language_lemmas(chk)
    for route, method, wobj in H.routes():
        if (method, route) in CREATE_OPS:
            chk.script('flow %s %s' % (method, route),
                       make_flow_script(route, method, wobj),
                       common.handler_names(wobj))
    chk.script('ResourceClass.create', script_rc_create,
               ['placement/objects/resource_class.py:ResourceClass.create',
                'placement/objects/resource_class.py:ResourceClass._create_in_db',
                'placement/objects/resource_class.py:ResourceClass._get_next_id'])
    chk.script('ResourceClass.destroy', script_rc_destroy,
               ['placement/objects/resource_class.py:ResourceClass.destroy',
                'placement/objects/resource_class.py:ResourceClass._destroy'])
    chk.script('ResourceClass.save', script_rc_save,
               ['placement/objects/resource_class.py:ResourceClass.save',
                'placement/objects/resource_class.py:ResourceClass._save'])
    chk.script('Trait.destroy', script_trait_destroy,
               ['placement/objects/trait.py:Trait.destroy',
                'placement/objects/trait.py:Trait._destroy_in_db'])
    chk.script('_trait_sync', script_trait_sync,
               ['placement/objects/trait.py:_trait_sync'])
    chk.canary('canary.language', canary_language)
    chk.replayer('C19.', replay_c19)
    chk.fallback('B4.c19.sync_and_histories', lambda: replay_c19(None),
                 'start-up synchronisation of traits and classes from an empty, a partially and a fully synchronised database (twice each: idempotence, fixed ids of standard classes), 28 name probes x 4 creation routes (newline, escapes, lower case, 255/256 characters, missing prefix), creation / deletion / re-creation histories with id checks, deletion and rename of standard entries',
                 always=True)
    chk.assume('A-int', 'A-heap', 'A-orm', 'A-key', 'A-txn', 'A-lib',
               'A-str')
    return chk


# --------------------------------------------------------------------------
# start-up synchronisation of the traits table
def rows_of(I):
    return I.ghost.get('bulk.rows.traits')


def script_trait_sync(ex):
    """_trait_sync from ANY traits table: afterwards every os-traits symbol
    has a row, no existing row changed, only missing standard names were
    added; from a fully synchronised table nothing is written"""
    import os_traits
    from pyvc import sqltext
    from pyvc.values import SList, SSet
    reg = registry()
    # the library's symbol list is abstracted to an arbitrary list of names
    # outside the CUSTOM_ namespace (the proof then holds for the installed
    # list in particular; that no installed symbol is custom is checked
    # natively below)
    box = {}

    def get_traits(I, a, k):
        lst = I.fresh_list('os_traits', 'str')
        j = z3.Int('j!std')
        I.ex.hyp(ops.forall([j], z3.Implies(
            z3.And(j >= 0, j < lst.len), z3.Not(custom(z3.Select(lst.arr, j)))),
            patterns=[z3.Select(lst.arr, j)]))
        box['std'] = lst
        return lst
    reg['calls'][id(os_traits.get_traits)] = get_traits
    custom = z3.Function('custom_prefixed', StrSort, z3.BoolSort())
    reg['calls'][id(os_traits.is_custom)] = \
        lambda I, a, k: Sym(custom(to_term(a[0], 'str')), 'bool')

    class _Rows(Native):
        def __init__(self, rows):
            self.rows = rows

        def getattr(self, I, name):
            from pyvc.values import BoundMethod
            if name == 'fetchall':
                class _F(Native):
                    def call(s, I_, a, k):
                        return a[0].rows
                return BoundMethod(self, _F())
            raise Undecided('result.%s' % name)

    def names_select(I, stmt, binds):
        text, values = sqltext.normal_form(stmt, binds)
        I.ex.oblige('C19.sql.trait_names', text ==
                    'SELECT traits.name FROM traits', 'A', {'built': text})
        if text != 'SELECT traits.name FROM traits':
            raise Undecided('trait names SELECT differs from its spec')
        t = I.db.tables['traits']
        rows = I.fresh_list('names', ('tuple', ('str',)))
        k, j = z3.Int('k!names'), z3.Int('j!names')
        nm = lambda jj: sort_key_acc(rows, jj)
        at = z3.Function(I.ex.fresh_name('row_at'), z3.IntSort(), z3.IntSort())
        I.ex.hyp(ops.forall([k], z3.Implies(
            z3.Select(t.exists, k),
            z3.And(at(k) >= 0, at(k) < rows.len,
                   nm(at(k)) == z3.Select(t.data['name'], k))),
            patterns=[z3.Select(t.exists, k)]))
        src = z3.Function(I.ex.fresh_name('row_of'), z3.IntSort(), z3.IntSort())
        I.ex.hyp(ops.forall([j], z3.Implies(
            z3.And(j >= 0, j < rows.len),
            z3.And(z3.Select(t.exists, src(j)),
                   z3.Select(t.data['name'], src(j)) == nm(j))),
            patterns=[z3.Select(rows.arr, j)]))
        return _Rows(rows)

    def sort_key_acc(rows, jj):
        from pyvc.values import sort_of
        ts = sort_of(('tuple', ('str',)))
        return ts.accessor(0, 0)(z3.Select(rows.arr, jj))
    reg['selects']['_trait_sync'] = names_select
    I = Interp(ex, reg)
    I.db = GhostDB(I, 'db')
    for h in I.db.row_invariants():
        ex.hyp(h)
    ctx = lib.CtxStub()
    I.ghost['ctx'] = ctx
    t0 = I.db.tables['traits']
    ex.oblige('C19.T.sync.library_symbols_are_not_custom',
              all(not os_traits.is_custom(x_) for x_ in os_traits.get_traits()),
              'T')
    try:
        I.call(trait_obj._trait_sync, [ctx], {})
    except PyRaise as pr:
        ex.oblige('C19.T.sync.no_raise', False, 'T',
                  {'raised': pr.exc.cls.__name__, 'args': repr(pr.exc.args)})
        return
    t = I.db.tables['traits']
    k = z3.Int('k!sync')
    present = lambda tb, name: z3.Exists([k], z3.And(
        z3.Select(tb.exists, k), z3.Select(tb.data['name'], k) == name))
    wrote_ = wrote(I)
    std = box['std']
    j = z3.Int('j!syncpost')
    # for a fresh index j0: the symbol has its old row, or the row inserted
    # for it (witness spelled out: the row created for its position in the
    # enumeration of the missing names)
    j0 = z3.Int('j0!sync')
    x0 = z3.Select(std.arr, j0)
    bulk = I.ghost.get('bulk.traits')
    alt = z3.BoolVal(False)
    if bulk is not None:
        newid, qof, n_, seq_ = bulk
        idx = getattr(getattr(rows_of(I), 'seq', None), 'idx', None)
        if idx is not None:
            w = newid(idx(x0))
            alt = z3.And(z3.Select(t.exists, w),
                         z3.Select(t.data['name'], w) == x0)
    ex.oblige('C19.T.sync.every_standard_trait_present', z3.Implies(
        z3.And(j0 >= 0, j0 < std.len), z3.Or(present(t0, x0), alt)), 'T')
    ex.oblige('C19.T.sync.existing_rows_kept', ops.forall([k], z3.Implies(
        z3.Select(t0.exists, k), z3.And(
            z3.Select(t.exists, k),
            z3.Select(t.data['name'], k) == z3.Select(t0.data['name'], k))),
        patterns=[z3.Select(t0.exists, k)]), 'T')
    ex.oblige('C19.T.sync.adds_only_standard_names', ops.forall(
        [k], z3.Implies(
            z3.And(z3.Select(t.exists, k), z3.Not(z3.Select(t0.exists, k))),
            z3.Exists([j], z3.And(j >= 0, j < std.len, z3.Select(
                t.data['name'], k) == z3.Select(std.arr, j)))),
        patterns=[z3.Select(t.exists, k)]), 'T')
    # idempotence: a fully synchronised table is not written
    full = ops.forall([j], z3.Implies(
        z3.And(j >= 0, j < std.len), present(t0, z3.Select(std.arr, j))),
        patterns=[z3.Select(std.arr, j)])
    ex.oblige('C19.T.sync.idempotent', z3.Implies(
        full, z3.BoolVal(not wrote_)), 'T')


if __name__ == '__main__':
    runner.main(build)
