"""C07 -- concurrent claims are serializable and never jointly over-commit.

Rely / guarantee at transaction granularity (A-txn: each top-level
transaction is atomic and isolated).  The real handlers of the allocation
writes and of the generation-guarded inventory / trait / aggregate updates
are executed with the ghost database havocked at every top-level transaction
begin (other requests may have committed anything the rely allows).  Proved
on every path:
  G1  every surviving write to the invariant-bearing tables happens in ONE
      top-level writer transaction T (the request's linearisation point);
  G2  T contains the compare-and-swap of the generation of the provider it
      updates (inventory / trait / aggregate updates), resp. is the
      replace_all / reshape transaction whose body performs the capacity
      check and the provider and consumer compare-and-swaps (C01 / C05 / C06
      body proofs, included here);
  G3  a request answered with an error leaves no surviving core write;
and, from ANY pre-state of T (so: whatever was committed in between),
  G4  _set_allocations re-checks capacity and units against the usage
      committed at that moment and leaves no (provider, class) it touches
      over-committed (C01 script of the real function).
Composition (DESIGN section 4/C07): the effect of a successful request is
the effect of its single transaction T on the state at T's begin, every value
read earlier that T relies on is re-validated inside T by a generation
compare-and-swap, hence the successful requests are equivalent to their
serial execution in the commit order of their T's.
Always-on bounded stand-in: 10 in-scope request pairs interleaved before every
top-level transaction of the first request on the real stack (file-backed
SQLite, one connection per session) against the serial-order oracle."""
import sys
import os
sys.path.insert(0, os.path.dirname(os.path.dirname(os.path.abspath(__file__))))

import z3

from pyvc import runner, ops
from contracts import handlers as H, lib
from props import common, gen_scripts, leafs, mutators
import C01
import C04

CORE = C04.CORE_ONE_TXN
OPS = [
    ('PUT', '/allocations/{consumer_uuid}'), ('POST', '/allocations'),
    ('POST', '/reshaper'),
    ('PUT', '/resource_providers/{uuid}/inventories'),
    ('POST', '/resource_providers/{uuid}/inventories'),
    ('PUT', '/resource_providers/{uuid}/inventories/{resource_class}'),
    ('PUT', '/resource_providers/{uuid}/traits'),
    ('PUT', '/resource_providers/{uuid}/aggregates'),
]
GUARDED = ('inventories', 'resource_provider_traits',
           'resource_provider_aggregates')


def make_script(route, method, wobj):
    op = '%s %s' % (method, route)

    def script(ex):
        I, ctx, ver, req = common.new_interp(ex, interference=True)
        out = common.run(I, wobj, req)
        rolled = set(e[1] for e in I.events if e[0] == 'txn.rollback')
        modes = dict((e[1], e[2]) for e in I.events if e[0] == 'txn.begin')
        nochange = set(e[2] for e in I.events if e[0] == 'mutator.nochange')
        live = [e for e in I.events if e[0] == 'db.write' and
                e[3] not in rolled and e[3] not in nochange]
        core_txns = sorted(set(e[3] for e in live if e[1] in CORE), key=str)
        info = {'operation': op, 'outcome': out[0],
                'txns': [str(t) for t in core_txns]}
        ex.oblige('C07.G.core_writes_in_one_transaction',
                  len(core_txns) <= 1 and
                  all(modes.get(t) == 'writer' for t in core_txns), 'G',
                  dict(info, signature=op + ' has no single write transaction'))
        if out[0] == 'raise':
            ex.oblige('C07.G.error_leaves_no_core_write', not core_txns, 'G',
                      dict(info, status=H.status_of(out[1]),
                           signature='%s error exit %s with surviving writes'
                                     % (op, H.status_of(out[1]))))
        for t in core_txns:
            tables = set(e[1] for e in live if e[3] == t)
            cas = [e for e in I.events if e[0] == 'cas.provider' and e[5] == t]
            bulk = [e for e in I.events
                    if (e[0] == 'replace_all' and e[2] == t)]
            resh = any(e[0] == 'db.write' and e[3] == t and
                       str(e[2]).endswith('reshaper.reshape') for e in I.events)
            guarded = bool(cas) or bool(bulk) or resh
            cond = z3.BoolVal(guarded)
            if 'resource_provider_aggregates' in tables and not (
                    tables & {'inventories', 'resource_provider_traits',
                              'allocations'}):
                # before 1.19 PUT aggregates carries no generation: not one
                # of the "generation-guarded" updates
                cond = z3.Or(cond, ver.minor < 19)
            ex.oblige('C07.G.write_transaction_revalidates_generations', cond,
                      'G', dict(info, tables=sorted(tables),
                                signature=op + ' writes %s without a '
                                'generation check in the same transaction'
                                % sorted(tables)))
    return script


def replay_c07(r):
    sys.path.insert(0, os.path.join(runner.VERIF, 'replay'))
    import c07
    return c07.search(r, TIER[0])


TIER = ['quick']


def build(tier, seed):
    chk = runner.Check('C07', tier, seed)
    TIER[0] = tier
    for route, method, wobj in H.routes():
        if (method, route) in OPS:
            chk.script('%s %s' % (method, route),
                       make_script(route, method, wobj),
                       common.handler_names(wobj))
    chk.script('set_allocations', C01.script_set,
               ['placement/objects/allocation.py:_set_allocations',
                'placement/objects/allocation.py:_check_capacity_exceeded'])
    chk.script('check_capacity_exceeded', C01.script_check,
               ['placement/objects/allocation.py:_check_capacity_exceeded'])
    chk.script('handlers.util.ensure_consumer',
               gen_scripts.ensure_consumer_script,
               ['placement/handlers/util.py:ensure_consumer'])
    leafs.add(chk, ['cas.provider', 'cas.consumer'])
    mutators.add(chk)
    chk.replayer('', replay_c07)
    chk.fallback('B4.c07.interleavings', lambda: replay_c07(None),
                 '10 pairs of in-scope requests (competing consumers at the capacity limit, same consumer / same generation, emptying vs growing write, creation race, inventory shrinking vs allocation growing in both roles, traits vs aggregates and two inventory writers with one provider generation, multi-consumer POST vs single write), the second request run completely before the k-th top-level transaction of the first for every k; the successful requests must equal a serial execution (statuses and stored rows up to surrogate keys), failed ones leave nothing, capacity / references / forest hold; pairs only, no three-request schedules',
                 always=True)
    chk.assume('A-txn', 'A-lib', 'A-heap', 'A-nofault', 'A-key', 'A-sql',
               'A-sum')
    return chk


if __name__ == '__main__':
    runner.main(build)
