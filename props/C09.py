"""C09 -- the provider hierarchy is always a forest with correct root pointers.

Body proofs of ResourceProvider.create (_create_in_db), .save (_update_in_db)
and .destroy (_delete) over the ghost resource_providers table: each preserves
the forest invariant (with an explicit new rank function as witness), rejects
loops / missing parents / children / (without allow_reparenting) moves, and a
rejected call changes nothing.  The handlers reach the table only through
these three (C14 proves allow_reparenting == (version >= 1.37))."""
import sys
import os
sys.path.insert(0, os.path.dirname(os.path.dirname(os.path.abspath(__file__))))

import z3

from pyvc.core import Undecided
from pyvc.interp import Interp, PyRaise
from pyvc.values import Sym, Obj, VDict, VList, SList, SSet, SMap, Native
from pyvc.ghostdb import GhostDB
from pyvc import runner, ops
from pyvc.ops import to_term
from contracts import lib, classes, orm
from contracts import forest as F

from oslo_db import exception as db_exc
from placement import exception
from placement.db.sqlalchemy import models
from placement.objects import resource_provider as rp_obj
from placement.objects import research_context as res_ctx

RP = rp_obj.ResourceProvider
T = F.T


def registry():
    reg = lib.base_registry()
    reg['fields'].update(classes.FIELDS)
    reg['fields'].update(F.FIELDS)
    reg['loops'].update(F.LOOPS)
    reg['selects'].update(F.SELECTS)
    reg['getattr'] = lib.context_getattr_hook
    orm.install(reg, models)
    reg['calls'][id(RP.get_subtree)] = F.get_subtree_contract
    return reg


def setup(I, existing=True):
    ex = I.ex
    I.db = GhostDB(I, 'db')
    for h in I.db.row_invariants():
        ex.hyp(h)
    ctx = lib.CtxStub()
    I.ghost['ctx'] = ctx
    depth = z3.Function('depth', z3.IntSort(), z3.IntSort())
    t0 = I.db.tables[T]
    ex.hyp(F.forest_all(t0, depth))
    rp = I.fresh('rp', ('obj', RP))
    if existing:
        # an object loaded from the database (get_by_uuid)
        rid = I.read_field(rp, 'id')
        uu = I.read_field(rp, 'uuid')
        ru = I.read_field(rp, 'root_provider_uuid')
        ex.assume(z3.And(z3.Not(rid.none), z3.Not(uu.none), rid.t >= 1,
                         z3.Select(t0.exists, rid.t),
                         z3.Select(t0.data['uuid'], rid.t) == uu.t,
                         z3.Not(ru.none),
                         ru.t == z3.Select(t0.data['uuid'], z3.Select(
                             t0.data['root_provider_id'], rid.t))))
    return ctx, rp, depth, t0


def unchanged(I, db0):
    return all(I.db.tables[t].exists is db0.tables[t].exists and
               all(I.db.tables[t].data[c] is db0.tables[t].data[c]
                   for c in db0.tables[t].data) and
               all(I.db.tables[t].null[c] is db0.tables[t].null[c]
                   for c in db0.tables[t].null)
               for t in db0.tables)


def pids_hook(I):
    """record the rows found by provider_ids_from_uuid on this path"""
    orig = F.provider_ids_select

    def spec(I_, stmt, binds):
        r = orig(I_, stmt, binds)
        I_.ghost.setdefault('c09.pids', []).append(r.row)
        return r
    return spec


# --------------------------------------------------------------------------
def script_create(ex):
    reg = registry()
    reg['selects']['provider_ids_from_uuid'] = pids_hook(None)
    I = Interp(ex, reg)
    ctx, rp, depth, t0 = setup(I, existing=False)
    db0 = I.db.snapshot()
    parent_uuid = I.read_field(rp, 'parent_provider_uuid')
    try:
        I.call(RP.create, [rp], {})
    except PyRaise as pr:
        lib.oblige_one_writer_txn(I, 'C09.create')
        ex.oblige('C09.create.raises.class', issubclass(
            pr.exc.cls, (exception.ObjectActionError, db_exc.DBDuplicateEntry)),
            'C', {'raised': pr.exc.cls.__name__})
        ex.oblige('C09.T.create.rejected_changes_nothing', unchanged(I, db0), 'T')
        return
    lib.oblige_one_writer_txn(I, 'C09.create')
    t = I.db.tables[T]
    n = to_term(I.read_field(rp, 'id'), 'int')
    pids = I.ghost.get('c09.pids', [])
    if pids:
        prow = pids[0]
        ex.oblige('C09.T.create.missing_parent_rejected', prow is not None, 'T')
        if prow is None:
            return
        p = to_term(I.read_field(prow, 'id'), 'int')
        d2 = lambda k: z3.If(k == n, depth(p) + 1, depth(k))
        ex.oblige('C09.T.create.parent_is_the_named_one', z3.And(
            z3.Not(z3.Select(t.null['parent_provider_id'], n)),
            z3.Select(t.data['parent_provider_id'], n) == p,
            z3.Select(t0.data['uuid'], p) == to_term(parent_uuid, 'str')), 'T')
    else:
        d2 = lambda k: z3.If(k == n, 0, depth(k))
        ex.oblige('C09.T.create.top_level', z3.And(
            ops.z3bool(ops.none_flag(parent_uuid)),
            z3.Select(t.null['parent_provider_id'], n)), 'T')
    ex.oblige('C09.T.create.new_row', z3.And(
        z3.Not(z3.Select(t0.exists, n)), z3.Select(t.exists, n)), 'T')
    ex.oblige('C09.T.create.forest', F.forest_all(t, d2), 'T')
    # the object reports the root reached by the parent links
    root = z3.Select(t.data['root_provider_id'], n)
    ex.oblige('C09.T.create.reported_root', z3.And(
        z3.Not(ops.z3bool(ops.none_flag(I.read_field(rp, 'root_provider_uuid')))),
        to_term(I.read_field(rp, 'root_provider_uuid'), 'str') ==
        z3.Select(t.data['uuid'], root)), 'T')


# --------------------------------------------------------------------------
def script_update(ex, mutate=None):
    reg = registry()
    reg['selects']['provider_ids_from_uuid'] = pids_hook(None)
    I = Interp(ex, reg)
    ctx, rp, depth, t0 = setup(I)
    db0 = I.db.snapshot()
    allow = I.fresh('allow_reparenting', 'bool')
    m = to_term(I.read_field(rp, 'id'), 'int')
    parent_uuid = I.read_field(rp, 'parent_provider_uuid')
    try:
        I.call(RP.save, [rp], {'allow_reparenting': allow})
    except PyRaise as pr:
        lib.oblige_one_writer_txn(I, 'C09.update')
        ex.oblige('C09.update.raises.class', issubclass(
            pr.exc.cls, (exception.ObjectActionError, db_exc.DBDuplicateEntry)),
            'C', {'raised': pr.exc.cls.__name__})
        ex.oblige('C09.T.update.rejected_changes_nothing', unchanged(I, db0), 'T')
        return
    if not mutate:
        lib.oblige_one_writer_txn(I, 'C09.update')
    t = I.db.tables[T]
    pids = I.ghost.get('c09.pids', [])
    if not pids or pids[0] is None:
        raise Undecided('save() returned without reading its own ids')
    me = pids[0]
    ex.oblige('C09.update.own_row', to_term(I.read_field(me, 'id'), 'int') == m,
              'A')
    old_par = z3.Select(t0.data['parent_provider_id'], m)
    old_parnull = z3.Select(t0.null['parent_provider_id'], m)
    sub = I.ghost.get('c09.sub')
    k = z3.Int('k!c09')
    kind = 'canary' if mutate else 'T'
    if len(pids) > 1:
        # a parent was named
        prow = pids[1]
        ex.oblige('C09.T.update.missing_parent_rejected', prow is not None, 'T')
        if prow is None:
            return
        p = to_term(I.read_field(prow, 'id'), 'int')
        if sub is None:
            # the code did not ask for the subtree: introduce the ghost
            # descendant set of the entry table here (a definitional
            # extension: it exists for every forest)
            cur = I.db
            I.db = db0
            I.db.I = I
            F.get_subtree_contract(I, [rp], {})
            I.db = cur
            I.db.I = I
            sub = I.ghost['c09.sub']
        ex.oblige('C09.T.update.loop_rejected', z3.Not(z3.Select(sub, p)), 'T')
        ex.oblige('C09.T.update.reparent_needs_allow', z3.Implies(
            z3.Not(allow.t), z3.Or(old_parnull, old_par == p)), 'T')
        d2 = lambda x: z3.If(z3.Select(sub, x),
                             depth(x) - depth(m) + depth(p) + 1, depth(x))
        ex.oblige('C09.T.update.parent_is_the_named_one', z3.And(
            z3.Not(z3.Select(t.null['parent_provider_id'], m)),
            z3.Select(t.data['parent_provider_id'], m) == p,
            z3.Select(t0.data['uuid'], p) == to_term(parent_uuid, 'str')), 'T')
    else:
        ex.oblige('C09.T.update.no_parent_named',
                  ops.z3bool(ops.none_flag(parent_uuid)), 'T')
        ex.oblige('C09.T.update.unparent_needs_allow', z3.Implies(
            z3.Not(allow.t), old_parnull), 'T')
        ex.oblige('C09.T.update.unparented',
                  z3.Select(t.null['parent_provider_id'], m), 'T')
        if sub is not None:
            d2 = lambda x: z3.If(z3.Select(sub, x), depth(x) - depth(m),
                                 depth(x))
        else:
            d2 = depth
    if mutate:
        if len(pids) <= 1:
            return          # no parent named on this path: no canary
        # rank witness off by one: must be refuted on every such path
        d2 = lambda x: z3.If(z3.Select(sub, x),
                             depth(x) - depth(m) + depth(p), depth(x))
    # forall k: forest(t, d2, k) -- proved for a fresh constant k0, with the
    # instances of the (quantified) hypotheses it needs spelled out
    k0 = z3.Int('k0!c09')
    goal = F.forest(t, d2, k0)
    if sub is not None:
        facts = I.ghost['c09.sub_facts']
        par0 = z3.Select(t0.data['parent_provider_id'], k0)
        parm = z3.Select(t.data['parent_provider_id'], m)
        inst = []
        for x in (k0, par0, m, parm):
            inst.append(F.forest(t0, depth, x))
            inst.extend(facts(x))
        goal = z3.Implies(z3.And(*inst), goal)
    ex.oblige('C09.T.update.forest', goal, kind)
    if mutate:
        return
    ex.oblige('C09.T.update.same_providers', ops.forall(
        [k], z3.Select(t.exists, k) == z3.Select(t0.exists, k),
        patterns=[z3.Select(t.exists, k)]), 'T')
    # only the subtree's root pointers and the provider's own parent / name
    # change
    other = z3.And(z3.Select(t0.exists, k), k != m)
    ex.oblige('C09.T.update.other_parents_kept', ops.forall([k], z3.Implies(
        other, z3.And(
            z3.Select(t.data['parent_provider_id'], k) ==
            z3.Select(t0.data['parent_provider_id'], k),
            z3.Select(t.null['parent_provider_id'], k) ==
            z3.Select(t0.null['parent_provider_id'], k))),
        patterns=[z3.Select(t.data['parent_provider_id'], k)]), 'T')
    ex.oblige('C09.G.update.generation_untouched', ops.forall(
        [k], z3.Select(t.data['generation'], k) ==
        z3.Select(t0.data['generation'], k),
        patterns=[z3.Select(t.data['generation'], k)]), 'G')
    root = z3.Select(t.data['root_provider_id'], m)
    rr = I.read_field(rp, 'root_provider_uuid')
    ex.oblige('C09.T.update.reported_root', z3.And(
        z3.Not(ops.z3bool(ops.none_flag(rr))),
        to_term(rr, 'str') == z3.Select(t.data['uuid'], root)), 'T')


def canary_update(ex):
    """a rank witness that is off by one for the moved subtree must be refuted"""
    script_update(ex, mutate=True)


# --------------------------------------------------------------------------
def script_delete(ex):
    reg = registry()
    I = Interp(ex, reg)
    ctx, rp, depth, t0 = setup(I)
    db0 = I.db.snapshot()
    m = to_term(I.read_field(rp, 'id'), 'int')
    try:
        I.call(RP.destroy, [rp], {})
    except PyRaise as pr:
        lib.oblige_one_writer_txn(I, 'C09.delete')
        ex.oblige('C09.delete.raises.class', issubclass(
            pr.exc.cls, (exception.CannotDeleteParentResourceProvider,
                         exception.ResourceProviderInUse, exception.NotFound)),
            'C', {'raised': pr.exc.cls.__name__})
        ex.oblige('C09.T.delete.rejected_changes_nothing', unchanged(I, db0), 'T')
        return
    lib.oblige_one_writer_txn(I, 'C09.delete')
    t = I.db.tables[T]
    k = z3.Int('k!c09d')
    ex.oblige('C09.T.delete.row_gone', z3.Not(z3.Select(t.exists, m)), 'T')
    ex.oblige('C09.T.delete.others_kept', ops.forall([k], z3.Implies(
        k != m, z3.Select(t.exists, k) == z3.Select(t0.exists, k)),
        patterns=[z3.Select(t.exists, k)]), 'T')
    child = z3.And(z3.Select(t0.exists, k),
                   z3.Not(z3.Select(t0.null['parent_provider_id'], k)),
                   z3.Select(t0.data['parent_provider_id'], k) == m)
    ex.oblige('C09.T.delete.had_no_children', ops.forall(
        [k], z3.Not(child), patterns=[z3.Select(t0.exists, k)]), 'T')
    # (that the row a root pointer names survives a delete is the foreign
    # key's guarantee, A-key; the code relies on it too)
    ex.oblige('C09.T.delete.forest', F.forest_all(t, depth, root_exists=False), 'T')
    # C08: nothing of the provider is left behind, nothing it held in use
    al = I.db.tables['allocations']
    ka = z3.Int('ka!c09d')
    ex.oblige('C09.T.delete.had_no_allocations', ops.forall([ka], z3.Not(z3.And(
        z3.Select(al.exists, ka),
        z3.Select(al.data['resource_provider_id'], ka) == m)),
        patterns=[z3.Select(al.exists, ka)]), 'T')
    for tn, col in (('inventories', 'resource_provider_id'),
                    ('resource_provider_traits', 'resource_provider_id'),
                    ('resource_provider_aggregates', 'resource_provider_id')):
        tb = I.db.tables[tn]
        kk = z3.Const('kk!c09d.' + tn, sort_key(tb))
        ex.oblige('C09.T.delete.removes_%s' % tn, ops.forall([kk], z3.Not(z3.And(
            z3.Select(tb.exists, kk), tb.col(col, kk)[0] == m)),
            patterns=[z3.Select(tb.exists, kk)]), 'T')


def sort_key(tb):
    from pyvc.values import sort_of
    return sort_of(tb.kty)


# --------------------------------------------------------------------------
# handlers: the refusals of the object layer are answered 400 / 409
STATUS = {
    ('POST', '/resource_providers'): {
        exception.ObjectActionError: 400, db_exc.DBDuplicateEntry: 409},
    ('PUT', '/resource_providers/{uuid}'): {
        exception.ObjectActionError: 400, db_exc.DBDuplicateEntry: 409},
    ('DELETE', '/resource_providers/{uuid}'): {
        exception.CannotDeleteParentResourceProvider: 409,
        exception.ResourceProviderInUse: 409},
}


def make_status_script(route, method, wobj):
    from contracts import handlers as H
    from props import common
    op = '%s %s' % (method, route)
    want = STATUS[(method, route)]

    def script(ex):
        I, ctx, ver, req = common.new_interp(ex, common.full_registry())
        out = common.run(I, wobj, req)
        last = None
        for e in I.events:
            if e[0] == 'contract.raised' and e[1] in (
                    'ResourceProvider.create', 'ResourceProvider.save',
                    'ResourceProvider.destroy'):
                last = e
        if last is None:
            return
        for k, status in want.items():
            if issubclass(last[2], k):
                got = H.status_of(out[1]) if out[0] == 'raise' else 'success'
                ex.oblige('C09.T.status', got == status, 'T',
                          {'operation': op, 'raised': last[2].__name__,
                           'status': got,
                           'signature': '%s answers %s to %s'
                                        % (op, got, last[2].__name__)})
    return script


def replay_c09(r):
    sys.path.insert(0, os.path.join(runner.VERIF, 'replay'))
    import c09
    return c09.search(getattr(r, 'model', None), TIER[0])


TIER = ['quick']


def build(tier, seed):
    chk = runner.Check('C09', tier, seed)
    TIER[0] = tier
    chk.script('create', script_create,
               ['placement/objects/resource_provider.py:ResourceProvider.create',
                'placement/objects/resource_provider.py:ResourceProvider._create_in_db',
                'placement/objects/research_context.py:provider_ids_from_uuid'])
    chk.script('update', script_update,
               ['placement/objects/resource_provider.py:ResourceProvider.save',
                'placement/objects/resource_provider.py:ResourceProvider._update_in_db'])
    chk.script('delete', script_delete,
               ['placement/objects/resource_provider.py:ResourceProvider.destroy',
                'placement/objects/resource_provider.py:ResourceProvider._delete',
                'placement/objects/resource_provider.py:_has_child_providers',
                'placement/objects/resource_provider.py:_delete_rp_record'])
    from contracts import handlers as H
    from props import common
    for route, method, wobj in H.routes():
        if (method, route) in STATUS:
            chk.script('status %s %s' % (method, route),
                       make_status_script(route, method, wobj),
                       common.handler_names(wobj))
    chk.canary('canary.update.rank', canary_update)
    chk.replayer('C09.', replay_c09)
    chk.fallback('B4.c09.histories', lambda: replay_c09(None),
                 'random POST/PUT/DELETE /resource_providers histories over a pool of 8 providers at microversions 1.13/1.14/1.36/1.37/1.39, forest and root pointers re-derived from the raw rows after every request, ResourceProvider.get_subtree compared with the descendants computed from the raw rows for every provider (the assumed contract A-subtree); quick: 40 histories x 25 requests, thorough: 400 x 40',
                 always=True)
    chk.assume('A-int', 'A-heap', 'A-sql', 'A-orm', 'A-key', 'A-txn',
               'A-subtree', 'A-nofault')
    return chk


if __name__ == '__main__':
    runner.main(build)
