"""C04 -- rejected writes leave no trace; multi-entity writes are
all-or-nothing.  Typestate obligations over the real write handlers."""
import sys
import os
sys.path.insert(0, os.path.dirname(os.path.dirname(os.path.abspath(__file__))))

import z3

from pyvc.core import Undecided, PathEnd
from pyvc.interp import PyRaise
from pyvc import runner
from contracts import handlers as H, objects
from props import common

from placement import exception

WRITE_OPS = [
    ('PUT', '/allocations/{consumer_uuid}'), ('POST', '/allocations'),
    ('POST', '/reshaper'), ('DELETE', '/allocations/{consumer_uuid}'),
    ('PUT', '/resource_providers/{uuid}/inventories'),
    ('POST', '/resource_providers/{uuid}/inventories'),
    ('DELETE', '/resource_providers/{uuid}/inventories'),
    ('PUT', '/resource_providers/{uuid}/inventories/{resource_class}'),
    ('DELETE', '/resource_providers/{uuid}/inventories/{resource_class}'),
    ('PUT', '/resource_providers/{uuid}/traits'),
    ('DELETE', '/resource_providers/{uuid}/traits'),
    ('PUT', '/resource_providers/{uuid}/aggregates'),
    ('POST', '/resource_providers'), ('PUT', '/resource_providers/{uuid}'),
    ('DELETE', '/resource_providers/{uuid}'),
]
# tables whose rows the property speaks about; consumers are handled by the
# "unchanged on error" clause (auto-created consumers are inserted earlier and
# removed again by the clean-up)
CORE_ONE_TXN = ('resource_providers', 'inventories', 'allocations',
                'resource_provider_traits', 'resource_provider_aggregates')
CORE_ALL = CORE_ONE_TXN + ('consumers',)


def make_script(route, method, wobj):
    op = '%s %s' % (method, route)

    def script(ex):
        from placement.handlers import allocation as alloc_handler
        reg = common.full_registry()
        reg['watch'] = {id(alloc_handler.delete_consumers): 'delete_consumers',
                        id(alloc_handler.inspect_consumers): 'inspect_consumers'}
        I, ctx, ver, req = common.new_interp(ex, reg)
        db0 = I.db.snapshot()
        out = common.run(I, wobj, req)
        info = {'operation': op, 'signature': op}
        writes = [e for e in I.events if e[0] == 'db.write']
        core_txns = set(e[3] for e in writes if e[1] in CORE_ONE_TXN)
        if method == 'DELETE' and route == '/allocations/{consumer_uuid}':
            pass        # delete_all: allocations, then consumers (documented)
        else:
            ex.oblige('C04.T.onetxn', len(core_txns) <= 1, 'T',
                      dict(info, txns=sorted(map(str, core_txns)),
                           signature=op + ' one transaction'))
        if out[0] == 'raise':
            exc = out[1]
            multi = (method, route) in (('POST', '/allocations'),
                                       ('POST', '/reshaper'))
            if multi:
                # several consumers may have been auto-created: the tables
                # written by the main transaction must be unchanged, and the
                # clean-up of the created consumers must have been reached
                # with exactly the list of created consumers (delete_consumers
                # itself: C04.C.delete_consumers)
                created = [e for e in I.events if e[0] in ('created.consumer',)]
                loops_created = any(
                    (e[0] == 'call' and e[1] == 'ensure_consumer') or
                    (e[0] == 'enter' and e[1] == 'inspect_consumers')
                    for e in I.events)
                cleanups = [e for e in I.events if e[0] == 'enter' and
                            e[1] == 'delete_consumers']
                last_create = max([i for i, e in enumerate(I.events)
                                   if (e[0] == 'call' and e[1] == 'ensure_consumer')
                                   or (e[0] == 'enter' and e[1] == 'inspect_consumers')]
                                  or [-1])
                ok_cleanup = (not loops_created) or any(
                    I.events.index(e) > last_create for e in cleanups)
                ex.oblige('C04.T.error_cleanup', ok_cleanup, 'T',
                          dict(info, raised=exc.cls.__name__,
                               status=H.status_of(exc),
                               signature='%s error exit %s without consumer '
                                         'clean-up' % (op, H.status_of(exc))))
            same = I.db.same_core_state(db0, CORE_ONE_TXN if multi else CORE_ALL)
            ex.oblige('C04.T.error_unchanged', same, 'T',
                      dict(info, raised=exc.cls.__name__,
                           status=H.status_of(exc),
                           signature='%s error exit %s' % (
                               op, H.status_of(exc) or exc.cls.__name__)))
            return
        # success: no core-writing call was swallowed
        swallowed = []
        calls = [e for e in I.events if e[0] in ('call', 'return')]
        open_calls = []
        for e in calls:
            if e[0] == 'call':
                open_calls.append(e[1])
            elif open_calls and open_calls[-1] == e[1]:
                open_calls.pop()
        c = I.registry.get('contracts', {})
        swallowed = [n for n in open_calls if n in c and c[n].writes and
                     set(c[n].writes) & set(CORE_ALL)]
        ex.oblige('C04.T.success_complete', not swallowed, 'T',
                  dict(info, swallowed=swallowed,
                       signature=op + ' success complete'))
    return script


def replay_c04(r):
    sys.path.insert(0, os.path.join(runner.VERIF, 'replay'))
    import c04
    return c04.replay(dict(r.ob.info), r.model)


def replay_c04_all():
    sys.path.insert(0, os.path.join(runner.VERIF, 'replay'))
    import c04
    return c04.run(None)


def build(tier, seed):
    chk = runner.Check('C04', tier, seed)
    for route, method, wobj in H.routes():
        if (method, route) in WRITE_OPS:
            chk.script('%s %s' % (method, route),
                       make_script(route, method, wobj),
                       common.handler_names(wobj))
    chk.replayer('C04.T.', replay_c04)
    chk.fallback('B4.c04.rejected_requests', lambda: replay_c04_all(),
                 '36 rejected requests covering every write operation (unknown provider / class, capacity, units, stale provider or consumer generation, inventory in use, duplicates, loops) on the real WSGI stack; stored core tables compared before/after', always=True)
    chk.assume('A-txn', 'A-lib', 'A-heap', 'A-nofault', 'A-key')
    return chk


if __name__ == '__main__':
    runner.main(build)
