"""C15 -- arbitrary input yields well-formed client errors, never a server
error.  Exception-flow obligations over every real handler."""
import sys
import os
sys.path.insert(0, os.path.dirname(os.path.dirname(os.path.abspath(__file__))))

import z3
import webob.exc

from pyvc.core import Undecided, PathEnd
from pyvc.interp import PyRaise
from pyvc import runner
from contracts import handlers as H, lib, web
from props import common

from placement import exception


def make_script(route, method, wobj, versions=None):
    op = '%s %s' % (method, route)

    def script(ex):
        I, ctx, ver, req = common.new_interp(ex, versions=versions)
        out = common.run(I, wobj, req)
        info = {'operation': op, 'signature': op}
        if out[0] == 'return':
            ex.oblige('C15.T.returns_response', True, 'T', info)
            return
        exc = out[1]
        st = H.status_of(exc)
        ok = (st is not None and 400 <= st < 500) or \
            issubclass(exc.cls, (exception.NotFound,
                                 exception.PolicyNotAuthorized))
        ex.oblige('C15.T.raises_4xx', ok, 'T',
                  dict(info, raised=exc.cls.__name__, args=repr(exc.args)[:200],
                       signature='%s raises %s' % (op, exc.cls.__name__)))
    return script


def replay_c15(r):
    sys.path.insert(0, os.path.join(runner.VERIF, 'replay'))
    import c15
    return c15.replay(dict(r.ob.info), r.model)


def _known_5xx(method, route, body, query, resp):
    """Witness patterns of the known findings that only the bounded stand-in
    reaches (see known_findings.json); returns the finding id."""
    q = query or ''
    if 'resources=' in q and any(t.isdigit() and len(t) > 18
                                 for t in q.replace(',', ':').replace('&', ':').split(':')):
        return 'F9'
    if route == '/allocation_candidates' and q.count('limit=') > 1:
        first = q.split('limit=')[1].split('&')[0]
        if not first.isdigit() or int(first) < 1:
            return 'F11'
    if (route.endswith('/inventories') and method == 'PUT') or route == '/reshaper':
        def bad(inv):
            return isinstance(inv, dict) and any(
                not isinstance(v, dict) for k, v in inv.items()
                if not (k.replace('_', '').isalnum() and k.upper() == k))
        b = body if isinstance(body, dict) else {}
        if bad(b.get('inventories')):
            return 'F12'
        if route == '/reshaper' and isinstance(b.get('inventories'), dict) and any(
                isinstance(x, dict) and bad(x.get('inventories'))
                for x in b['inventories'].values()):
            return 'F12'
    return None


def _listed_findings():
    """ids that known_findings.json lists as open findings of C15: a witness
    pattern suppresses nothing unless its finding is listed there (fixed
    entries suppress nothing)"""
    import json
    path = os.path.join(runner.VERIF, 'known_findings.json')
    if not os.path.exists(path):
        return set()
    return set(e['id'] for e in json.load(open(path)).get('findings', [])
               if 'C15' in e.get('properties', []))


def fuzz_c15():
    sys.path.insert(0, os.path.join(runner.VERIF, 'replay'))
    import c15
    listed = _listed_findings()

    def known(method, route, body, query, resp):
        fid = _known_5xx(method, route, body, query, resp)
        return fid if fid in listed else None
    return c15.fuzz(known=(known,) if listed else (),
                    budget=1500 if os.environ.get('VERIF_TIER') == 'thorough' else 600)


def script_ensure_consumer(ex):
    """handlers.util.ensure_consumer (real body, leaf contracts): the only
    exception that may leave it is the 409 it raises itself."""
    from placement.handlers import util as hutil
    from contracts import web
    reg = common.full_registry()
    del reg['calls'][id(hutil.ensure_consumer)]
    I, ctx, ver, req = common.new_interp(ex, reg, interference=True)
    args = [ctx, I.fresh('consumer_uuid', 'str'),
            I.fresh('project_id', 'str', nullable=True),
            I.fresh('user_id', 'str', nullable=True),
            I.fresh('consumer_generation', 'int', nullable=True),
            I.fresh('consumer_type', 'str', nullable=True), ver]
    try:
        I.call(hutil.ensure_consumer, args, {})
    except PyRaise as pr:
        st = H.status_of(pr.exc)
        ok = st == 409 or issubclass(pr.exc.cls, exception.NotFound)
        ex.oblige('C15.C.ensure_consumer.raises', ok, 'C',
                  {'raised': pr.exc.cls.__name__,
                   'signature': 'ensure_consumer raises ' + pr.exc.cls.__name__})
        return
    ex.oblige('C15.C.ensure_consumer.returns', True, 'C')


def parser_scripts():
    """the query-string parsers whose bodies the engine can execute with
    strings abstracted (pieces of a split are unconstrained strings, A-str):
    the only exception that leaves them is the 400 they raise themselves --
    the raise set the handler-level scripts assume for them"""
    import itertools
    import webob.exc
    from placement import util as putil
    from pyvc.interp import Interp
    fns = ((putil.normalize_resources_qs_param, 'str'),
           (putil.normalize_member_of_qs_param, 'str'),
           (putil.normalize_in_tree_qs_params, 'str'),
           (putil.normalize_member_of_qs_params, 'req'))
    all_parsers = [f for f, _ in fns] + [
        putil.normalize_traits_qs_param, putil.normalize_traits_qs_params,
        putil.normalize_traits_qs_param_to_legacy_value]

    def mk(fn, kind):
        def script(ex):
            reg = common.full_registry()
            for f in all_parsers:
                reg['calls'].pop(id(f), None)
            reg['calls'][id(itertools.chain)] = \
                lambda I, a, k: I.fresh_list('chain', 'str')
            I = Interp(ex, reg)
            ctx = lib.CtxStub()
            I.ghost['ctx'] = ctx
            if kind == 'str':
                args = [I.fresh('qs', 'str')]
            else:
                args = [web.ReqStub(ctx, web.fresh_version(I))]
            try:
                I.call(fn, args, {})
            except PyRaise as pr:
                ex.oblige('C15.T.parser_raises_only_400',
                          issubclass(pr.exc.cls, webob.exc.HTTPBadRequest), 'T',
                          {'parser': fn.__name__, 'raised': pr.exc.cls.__name__,
                           'signature': '%s raises %s' % (fn.__name__,
                                                          pr.exc.cls.__name__)})
                return
            ex.oblige('C15.T.parser_returns', True, 'T', {'parser': fn.__name__})
        return script
    return [(fn, mk(fn, kind)) for fn, kind in fns]


def build(tier, seed):
    chk = runner.Check('C15', tier, seed)
    for fn, script in parser_scripts():
        chk.script('parser ' + fn.__name__, script,
                   ['placement/util.py:' + fn.__name__])
    for route, method, wobj in H.routes():
        chk.script('%s %s' % (method, route), make_script(route, method, wobj),
                   common.handler_names(wobj))
    chk.script('handlers.util.ensure_consumer', script_ensure_consumer,
               ['placement/handlers/util.py:ensure_consumer',
                'placement/handlers/util.py:_create_consumer',
                'placement/handlers/util.py:_get_or_create_project',
                'placement/handlers/util.py:_get_or_create_user'])
    common.contract_crosschecks(chk, 'C15')
    chk.replayer('C15.T.', replay_c15)
    chk.replayer('C15.C.ensure_consumer', replay_c15)
    chk.fallback('B1.c15.corpus_mutation', fuzz_c15,
                 'structure-level mutants of one valid request per operation '
                 '(<= 40 bodies + 22 query strings each) at microversions '
                 '1.39 / 1.12 / 1.1, <= 1500 requests; any 5xx not listed as a '
                 'known finding', always=True)
    chk.assume('A-lib', 'A-nofault', 'A-heap', 'A-real', 'A-int')
    return chk


if __name__ == '__main__':
    runner.main(build)
