"""C13 -- provider listing filters select exactly the matching providers.

Contract proof of the real _get_all_by_filters_from_db: with every helper that
computes an id set used through an (assumed, A-sql) contract `the ids of the
providers with property P`, the rows selected by the final statement built by
the real code (its WHERE clause evaluated over the ghost table) are exactly
the providers that satisfy every *supplied* filter -- for every combination of
present / absent filters, including the early returns -- and unknown trait or
class names raise before anything is filtered.  The helpers' SQL (multi-way
joins, GROUP BY) is outside the statement semantics available here: the
bounded reference evaluation on the real stack covers it."""
import sys
import os
sys.path.insert(0, os.path.dirname(os.path.dirname(os.path.abspath(__file__))))

import copy
import z3

from pyvc.core import Undecided
from pyvc.interp import Interp, PyRaise
from pyvc.values import Sym, Obj, VDict, VList, VSet, SSet, SList, Native, \
    BoundMethod
from pyvc.ghostdb import GhostDB
from pyvc import runner, ops
from pyvc.ops import to_term
from contracts import lib, classes
from contracts import forest as F

from placement import exception
from placement.objects import resource_provider as rp_obj
from placement.objects import research_context as res_ctx
from placement.objects import trait as trait_obj

T = 'resource_providers'


class _Rows(Native):
    def __init__(self, member):
        self.member = member

    def getattr(self, I, name):
        if name == 'fetchall':
            return BoundMethod(self, _FetchAll())
        raise Undecided('result.%s' % name)


class _FetchAll(Native):
    def call(self, I, args, kwargs):
        I.ghost['c13.result'] = args[0].member
        return Native()


FINAL_FROM = ("resource_providers AS rp JOIN resource_providers AS root_rp ON "
              "rp.root_provider_id = root_rp.id LEFT OUTER JOIN "
              "resource_providers AS parent_rp ON rp.parent_provider_id = "
              "parent_rp.id")


def final_select(I, stmt, binds):
    """the statement the function ends with: providers (joined with their
    root row) restricted by the WHERE clause the real code assembled"""
    t = I.db.tables[T]
    text = ' '.join(str(stmt).split())
    frm = text.split(' FROM ', 1)[1].split(' WHERE ')[0]
    I.ex.oblige('C13.sql.final_from', frm == FINAL_FROM, 'A', {'from': frm})
    view = t.clone()
    view.name = 'rp'
    where = stmt.whereclause

    def member(k):
        root = z3.Select(t.data['root_provider_id'], k)
        return z3.And(z3.Select(t.exists, k),
                      z3.Not(z3.Select(t.null['root_provider_id'], k)),
                      z3.Select(t.exists, root),
                      I.db.pred(where, view, k, binds))
    return _Rows(member)


def id_set_contract(tag):
    """helper returning the internal ids of the providers with some property:
    an uninterpreted set, recorded for the specification"""
    def stub(I, args, kwargs):
        s = I.fresh_set(tag, 'int')
        I.ghost.setdefault('c13.sets', []).append((tag, s, args))
        return s
    return stub


def registry():
    reg = lib.base_registry()
    reg['fields'].update(classes.FIELDS)
    reg['fields'].update(F.FIELDS)
    reg['getattr'] = lib.context_getattr_hook
    reg['selects']['provider_ids_from_uuid'] = F.provider_ids_select
    reg['selects']['_get_all_by_filters_from_db'] = final_select
    c = reg['calls']
    c[id(copy.deepcopy)] = lambda I, a, k: _copy(a[0])
    c[id(res_ctx.provider_ids_matching_required_traits)] = \
        id_set_contract('with_required_traits')
    c[id(res_ctx.get_provider_ids_having_any_trait)] = \
        id_set_contract('with_forbidden_trait')
    c[id(res_ctx.provider_ids_matching_aggregates)] = \
        id_set_contract('in_aggregates')

    def with_resource(I, a, k):
        s = I.fresh_set('with_resource', 'int')
        I.ghost.setdefault('c13.sets', []).append(('with_resource', s, a))
        return _PairSet(s)
    c[id(res_ctx.get_providers_with_resource)] = with_resource

    def ids_from_names(I, a, k):
        # TraitNotFound for an unknown name, else {name: id}
        if I.ex.branch(z3.Bool(I.ex.fresh_name('unknown_forbidden_trait'))):
            I.raise_(exception.TraitNotFound)
        return _TraitMap()
    c[id(trait_obj.ids_from_names)] = ids_from_names
    return reg


class _TraitMap(Native):
    def truth(self, I):
        return True

    def getattr(self, I, name):
        if name == 'values':
            return BoundMethod(self, _Const(self))
        raise Undecided('trait map .%s' % name)


class _Const(Native):
    def __init__(self, v):
        self.v = v

    def call(self, I, args, kwargs):
        return self.v


class _PairSet(Native):
    """set of (provider id, root id) tuples: only its first components are
    used, through a generator"""

    def __init__(self, ids):
        self.ids = ids

    def iter_value(self, I):
        return self

    def sequence(self, I, name):
        seq = I.loop_sequence(self.ids, name)
        base = seq.element

        class _S(object):
            len = seq.len
            origin = self.ids

            @staticmethod
            def element(I_, i):
                return (base(I_, i), I_.fresh('root_id', 'int'))
        return _S()


def _copy(v):
    if isinstance(v, VDict):
        d = VDict({k: _copy(x) for k, x in v.items.items()})
        d.present = dict(v.present) if v.present else None
        return d
    if isinstance(v, VList):
        return VList([_copy(x) for x in v.items])
    if isinstance(v, VSet):
        return VSet(set(v.items))
    return v


def script(ex, shape, canary=False):
    """shape: which filters are supplied (a frozenset of keys)"""
    I = Interp(ex, registry())
    I.db = GhostDB(I, 'db')
    for h in I.db.row_invariants():
        ex.hyp(h)
    ctx = lib.CtxStub()
    I.ghost['ctx'] = ctx
    t = I.db.tables[T]
    depth = z3.Function('depth', z3.IntSort(), z3.IntSort())
    ex.hyp(F.forest_all(t, depth))
    f = VDict()
    vals = {}
    if 'name' in shape:
        vals['name'] = f.items['name'] = I.fresh('name', 'str')
    if 'uuid' in shape:
        vals['uuid'] = f.items['uuid'] = I.fresh('uuid', 'str')
        # the query schema only admits uuids: never the empty string
        ex.assume(ops.z3bool(I.truth_term(vals['uuid'])))
    if 'in_tree' in shape:
        vals['in_tree'] = f.items['in_tree'] = I.fresh('in_tree', 'str')
        ex.assume(ops.z3bool(I.truth_term(vals['in_tree'])))
    if 'member_of' in shape:
        f.items['member_of'] = VList([VList([I.fresh('agg', 'str')])])
    if 'forbidden_aggs' in shape:
        f.items['forbidden_aggs'] = VList([I.fresh('bad_agg', 'str')])
    if 'required_traits' in shape:
        f.items['required_traits'] = VList([VSet()])
        f.items['required_traits'].items[0] = VList([I.fresh('trait', 'str')])
    if 'forbidden_traits' in shape:
        f.items['forbidden_traits'] = VList([I.fresh('bad_trait', 'str')])
    nres = sum(1 for s in shape if s.startswith('resources'))
    if nres:
        f.items['resources'] = VDict({('RC%d' % i): I.fresh('amount', 'int')
                                      for i in range(nres)})
        for i in range(nres):
            ex.assume(ctx.rc_cache.known(to_term('RC%d' % i, 'str'))
                      if 'unknown_rc' not in shape else z3.BoolVal(True))
    try:
        res = I.call(rp_obj._get_all_by_filters_from_db, [ctx, f], {})
    except PyRaise as pr:
        ex.oblige('C13.T.raises_only_for_unknown_names', issubclass(
            pr.exc.cls, (exception.TraitNotFound,
                         exception.ResourceClassNotFound)), 'T',
            {'raised': pr.exc.cls.__name__, 'filters': sorted(shape)})
        # ... and before any id set was computed
        ex.oblige('C13.T.unknown_names_reported_first',
                  not I.ghost.get('c13.sets') and
                  'c13.result' not in I.ghost, 'T',
                  {'raised': pr.exc.cls.__name__, 'filters': sorted(shape)})
        return
    sets = {}
    for tag, s, a in I.ghost.get('c13.sets', []):
        sets.setdefault(tag, []).append((s, a))
    k = z3.Int('k!c13')
    conj = [z3.Select(t.exists, k)]
    for col in ('name', 'uuid'):
        if col in shape:
            ct, cn = t.col(col, k)
            # (a NULL column equals nothing)
            conj.append(z3.And(z3.Not(ops.z3bool(cn)), ct == vals[col].t))
    if 'in_tree' in shape:
        x = z3.Int('x!c13')
        conj.append(z3.Exists([x], z3.And(
            z3.Select(t.exists, x),
            z3.Select(t.data['uuid'], x) == vals['in_tree'].t,
            z3.Select(t.data['root_provider_id'], k) ==
            z3.Select(t.data['root_provider_id'], x))))
    expect = {'required_traits': 'with_required_traits',
              'forbidden_traits': 'with_forbidden_trait'}
    # every supplied filter consulted its helper exactly once (unless an
    # earlier filter already emptied the result) and the result respects it
    def the(tag, idx=0):
        lst = sets.get(tag, [])
        return lst[idx][0] if len(lst) > idx else None
    short = isinstance(res, VList) and not res.items       # `return []`
    spec_sets = []
    if 'required_traits' in shape:
        spec_sets.append(('with_required_traits', 0, True))
    if 'forbidden_traits' in shape:
        spec_sets.append(('with_forbidden_trait', 0, False))
    agg_i = 0
    if 'member_of' in shape:
        spec_sets.append(('in_aggregates', agg_i, True))
        agg_i += 1
    if 'forbidden_aggs' in shape:
        spec_sets.append(('in_aggregates', agg_i, False))
    for i in range(nres):
        spec_sets.append(('with_resource', i, True))
    missing = False
    for tag, idx, positive in spec_sets:
        s = the(tag, idx)
        if s is None:
            missing = True
            continue
        conj.append(z3.Select(s.arr, k) if positive
                    else z3.Not(z3.Select(s.arr, k)))
    spec = z3.And(*conj)
    if short:
        # nothing matches: justified only if the spec is unsatisfiable for
        # every provider (a helper returned the empty set, or the tree is
        # unknown); helpers not consulted can only make it smaller
        ex.oblige('C13.T.empty_answer_is_exact', ops.forall(
            [k], z3.Not(spec), patterns=[z3.Select(t.exists, k)]), 'T',
            {'filters': sorted(shape)})
        return
    ex.oblige('C13.T.every_supplied_filter_applied', not missing, 'T',
              {'filters': sorted(shape),
               'consulted': sorted((tg, len(v)) for tg, v in sets.items())})
    member = I.ghost.get('c13.result')
    if member is None:
        raise Undecided('no final statement executed')
    if canary:
        # dropping the name filter from the specification must be refuted
        ex.oblige('C13.canary.selected', ops.forall(
            [k], member(k) == z3.And(*conj[:1] + conj[2:]),
            patterns=[z3.Select(t.exists, k)]), 'canary')
        return
    ex.oblige('C13.T.selected_iff_all_filters_hold', ops.forall(
        [k], member(k) == spec, patterns=[z3.Select(t.exists, k)]), 'T',
        {'filters': sorted(shape)})


SHAPES = []
_keys = ['name', 'uuid', 'in_tree', 'member_of', 'forbidden_aggs',
         'required_traits', 'forbidden_traits', 'resources1']
import itertools as _it
for n in range(0, 3):
    for c in _it.combinations(_keys, n):
        SHAPES.append(frozenset(c))
SHAPES.append(frozenset(_keys))
SHAPES.append(frozenset(['resources1', 'resources2']))
SHAPES.append(frozenset(['resources1', 'resources2', 'required_traits',
                         'member_of', 'in_tree']))
SHAPES.append(frozenset(['resources1', 'unknown_rc', 'required_traits']))
SHAPES.append(frozenset(['resources1', 'unknown_rc', 'member_of', 'name']))
SHAPES.append(frozenset(['forbidden_traits', 'required_traits', 'member_of']))


def replay_c13(r):
    sys.path.insert(0, os.path.join(runner.VERIF, 'replay'))
    import c13
    return c13.search(r, TIER[0])


TIER = ['quick']


def build(tier, seed):
    chk = runner.Check('C13', tier, seed)
    TIER[0] = tier
    for sh in SHAPES:
        chk.script('filters{%s}' % ','.join(sorted(sh)),
                   (lambda s: lambda ex: script(ex, s))(sh),
                   ['placement/objects/resource_provider.py:_get_all_by_filters_from_db'])
    chk.canary('canary.name_filter',
               lambda ex: script(ex, frozenset(['name', 'member_of']), True))
    chk.replayer('C13.', replay_c13)
    chk.fallback('B4.c13.reference_evaluation', lambda: replay_c13(None),
                 '4 topologies (flat with reserved / ratios / units and usage, nested, sharing, mixed) x every single filter value, 60 (quick) or all pairs, and 30 / 200 random combinations of 3-5 filters (name, uuid, in_tree, member_of incl. in: / ! / !in: / unknown aggregates, required incl. in: / ! / unknown, resources incl. unknown class), compared with a reference evaluation over the raw rows',
                 always=True)
    chk.assume('A-int', 'A-heap', 'A-sql', 'A-key', 'A-txn', 'A-lib')
    return chk


if __name__ == '__main__':
    runner.main(build)
