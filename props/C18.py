"""C18 -- a crash at any point leaves a state satisfying the core invariants.

Under A-txn (a top-level enginefacade transaction is atomic: a crash commits
it wholly or not at all) the surviving state is the state after some prefix
of the committed top-level transactions of the request.  Obligations:
 (1) handler level, every write operation x every path (success and error):
     all writes to the invariant-bearing tables happen in ONE top-level
     writer transaction; the writes of every other transaction touch only
     auxiliary tables (projects, users, consumer types, consumers);
 (2) object level, the signature 'one writer transaction' of the contracts
     used in (1) is established by body proofs: the six provider mutators,
     ResourceProvider.create / save / destroy, ResourceClass.create /
     destroy / save, Trait.destroy, and replace_all (every attempt is one
     transaction, failed attempts roll back, re-reads write nothing);
 (3) each such transaction preserves capacity safety, referential integrity
     and the forest property (C01 / C08 / C09 obligations, same scripts), and
     the auxiliary tables are not mentioned by those invariants -- so every
     prefix state satisfies them.
Always-on bounded stand-in: crash injection before every SQL statement of a
16-request write corpus on the real stack."""
import sys
import os
sys.path.insert(0, os.path.dirname(os.path.dirname(os.path.abspath(__file__))))

import z3

from pyvc.core import Undecided
from pyvc.interp import Interp, PyRaise, LoopSpec
from pyvc.values import Sym, Obj, VDict, VList, SList, SSet, SMap
from pyvc.ghostdb import GhostDB
from pyvc import runner, ops
from contracts import lib, classes, objects, handlers as H
from props import common, mutators
import C04
import C09
import C19

from placement import exception
from placement.objects import allocation as alloc_obj
from placement.objects import resource_provider as rp_obj

CORE = C04.CORE_ONE_TXN
AUX = ('projects', 'users', 'consumer_types', 'consumers')
WRITE_OPS = C04.WRITE_OPS + [
    ('PUT', '/traits/{name}'), ('DELETE', '/traits/{name}'),
    ('POST', '/resource_classes'), ('PUT', '/resource_classes/{name}'),
    ('DELETE', '/resource_classes/{name}'),
]


def make_script(route, method, wobj):
    op = '%s %s' % (method, route)

    def script(ex):
        I, ctx, ver, req = common.new_interp(ex, common.full_registry())
        out = common.run(I, wobj, req)
        writes = [e for e in I.events if e[0] == 'db.write']
        rolled = set(e[1] for e in I.events if e[0] == 'txn.rollback')
        modes = dict((e[1], e[2]) for e in I.events if e[0] == 'txn.begin')
        live = [e for e in writes if e[3] not in rolled]
        core_txns = sorted(set(e[3] for e in live if e[1] in CORE), key=str)
        info = {'operation': op, 'txns': [str(t) for t in core_txns],
                'outcome': out[0]}
        ex.oblige('C18.T.core_writes_in_one_transaction', len(core_txns) <= 1,
                  'T', dict(info, signature=op + ' writes its invariant-'
                            'bearing rows in more than one transaction'))
        ex.oblige('C18.T.core_writes_in_a_writer_transaction',
                  all(modes.get(t) == 'writer' for t in core_txns), 'T',
                  dict(info, signature=op + ' writes outside a writer '
                       'transaction'))
        other = sorted(set(e[1] for e in live
                           if e[3] not in core_txns and e[1] not in AUX
                           and e[1] not in ('traits', 'resource_classes',
                                            'placement_aggregates')))
        ex.oblige('C18.T.other_transactions_touch_auxiliary_tables_only',
                  not other, 'T', dict(info, tables=other,
                                       signature=op + ' writes %s outside its '
                                       'main transaction' % other))
    return script


# --------------------------------------------------------------------------
# replace_all: every attempt is one transaction
def ra_inv(I, frame, i, seq):
    db0 = I.ghost.setdefault('c18.ra_db', I.db)
    r = frame.locals['retries']
    same = all(I.db.tables[t].exists is db0.tables[t].exists and
               all(I.db.tables[t].data[c] is db0.tables[t].data[c]
                   for c in db0.tables[t].data) for t in db0.tables)
    out = [z3.BoolVal(same)]
    out.append(r.t >= 0 if isinstance(r, Sym) else z3.BoolVal(r >= 0))
    out.append(_uuids_set(I, frame.locals['alloc_list']))
    return out


def _uuids_set(I, allocs):
    """every allocation names a provider object with a uuid"""
    j = z3.Int('j!rauu')
    rp = z3.Select(I.fld(classes.ALLOC, 'resource_provider'),
                   z3.Select(allocs.arr, j))
    return ops.forall([j], z3.Implies(
        z3.And(j >= 0, j < allocs.len),
        z3.Not(z3.Select(I.fld_none(classes.RP, 'uuid'), rp))),
        patterns=[z3.Select(allocs.arr, j)])


def ra_seen_inv(I, frame, i, seq):
    """seen_rps has an entry for the uuids enumerated so far"""
    seen = frame.locals['seen_rps']
    if not isinstance(seen, SMap):
        raise Undecided('seen_rps is %r' % (seen,))
    j = z3.Int('j!ra')
    u = z3.Const('u!raseen', ops.to_term('x', 'str').sort())
    return [ops.forall([j], z3.Implies(
        z3.And(j >= 0, j < i),
        z3.Select(seen.dom, ops.to_term(seq.element(I, j), 'str')))),
        ops.forall([u], z3.Implies(
            z3.Select(seen.dom, u),
            z3.Not(z3.Select(I.fld_none(classes.RP, 'uuid'),
                             z3.Select(seen.val, u)))),
            patterns=[z3.Select(seen.val, u)])]


def ra_fill_entry(I, frame, seq):
    I.ghost['c18.rp0'] = I.fld(classes.ALLOC, 'resource_provider')


def ra_fill_inv(I, frame, i, seq):
    """the allocations not yet visited still name the provider object they
    named when the uuid set was built; the visited ones name a re-read one"""
    seen = frame.locals['seen_rps']
    allocs = frame.locals['alloc_list']
    f0 = I.ghost['c18.rp0']
    f = I.fld(classes.ALLOC, 'resource_provider')
    j = z3.Int('j!rafill')
    a = z3.Select(allocs.arr, j)
    uu0 = z3.Select(I.fld(classes.RP, 'uuid'), z3.Select(f0, a))
    return [
        ops.forall([j], z3.Implies(z3.And(j >= i, j < allocs.len),
                                   z3.Select(f, a) == z3.Select(f0, a)),
                   patterns=[z3.Select(allocs.arr, j)]),
        ops.forall([j], z3.Implies(z3.And(j >= 0, j < allocs.len),
                                   z3.Select(seen.dom, uu0)),
                   patterns=[z3.Select(allocs.arr, j)]),
        _uuids_set(I, allocs),
    ]


def script_replace_all(ex):
    reg = lib.base_registry()
    reg['fields'].update(classes.FIELDS)
    reg['getattr'] = lib.context_getattr_hook
    objects.install(reg, only=('ResourceProvider.get_by_uuid',))
    reg['loops'][('replace_all', 1)] = LoopSpec(
        invariant=ra_inv, name='C18.replace_all.retry',
        keep=('context', 'alloc_list'),
        modifies_fields=(('Allocation', 'resource_provider'),))
    reg['loops'][('replace_all', 2)] = LoopSpec(
        invariant=ra_seen_inv, name='C18.replace_all.reread',
        keep=('context', 'alloc_list', 'alloc_rp_uuids'))
    reg['loops'][('replace_all', 3)] = LoopSpec(
        invariant=ra_fill_inv, on_entry=ra_fill_entry,
        name='C18.replace_all.rebind',
        keep=('context', 'alloc_list', 'alloc_rp_uuids', 'seen_rps'),
        modifies_fields=(('Allocation', 'resource_provider'),))
    reg['havoc_types'] = {('replace_all', 'seen_rps'):
                          ('map', 'str', ('obj', classes.RP))}

    def set_allocations(I, a, k):
        """_set_allocations: one writer transaction (its own decorator:
        checked by C01's script of the real function); raises leave nothing"""
        lib.txn_enter(I, 'writer')
        which = I.ex.choose(3, tag='_set_allocations')
        if which:
            exc = (exception.ResourceProviderConcurrentUpdateDetected,
                   exception.InvalidInventory)[which - 1]
            try:
                I.raise_(exc)
            except PyRaise as pr:
                lib.txn_exit(I, pr.exc)
                raise
        I.db.havoc(['allocations', 'consumers', 'resource_providers'])
        for tb in ('allocations', 'consumers', 'resource_providers'):
            I.event('db.write', tb, 'contract:_set_allocations', I.db._tid())
        lib.txn_exit(I, None)
    reg['calls'][id(alloc_obj._set_allocations)] = set_allocations
    I = Interp(ex, reg)
    I.db = GhostDB(I, 'db')
    for h in I.db.row_invariants():
        ex.hyp(h)
    ctx = lib.CtxStub()
    I.ghost['ctx'] = ctx
    allocs = I.fresh_list('alloc_list', ('obj', classes.ALLOC))
    j = z3.Int('j!rapre')
    rp = z3.Select(I.fld(classes.ALLOC, 'resource_provider'),
                   z3.Select(allocs.arr, j))
    ex.hyp(ops.forall([j], z3.Implies(
        z3.And(j >= 0, j < allocs.len),
        z3.Not(z3.Select(I.fld_none(classes.RP, 'uuid'), rp))),
        patterns=[z3.Select(allocs.arr, j)]))
    j2 = z3.Int('j2!rapre')
    ex.hyp(ops.forall([j, j2], z3.Implies(
        z3.And(j >= 0, j < j2, j2 < allocs.len),
        z3.Select(allocs.arr, j) != z3.Select(allocs.arr, j2)),
        patterns=[z3.MultiPattern(z3.Select(allocs.arr, j),
                                  z3.Select(allocs.arr, j2))]))
    # [placement]allocation_conflict_retry_count counts attempts: not negative
    # (the option declares no minimum; a negative value retries for ever)
    rc = ctx.getattr(I, 'config').getattr(I, 'placement').getattr(
        I, 'allocation_conflict_retry_count')
    ex.assume(rc.t >= 0)
    db0 = I.db.snapshot()
    try:
        I.call(alloc_obj.replace_all, [ctx, allocs], {})
    except PyRaise as pr:
        ex.oblige('C18.replace_all.raises.class', issubclass(pr.exc.cls, (
            exception.ResourceProviderConcurrentUpdateDetected,
            exception.InvalidInventory, exception.NotFound)), 'C',
            {'raised': pr.exc.cls.__name__})
        ex.oblige('C18.T.replace_all.failure_leaves_nothing',
                  C09.unchanged(I, db0), 'T')
        lib.oblige_one_writer_txn(I, 'C18.replace_all', 'T')
        return
    lib.oblige_one_writer_txn(I, 'C18.replace_all', 'T')


def script_delete_all(ex):
    """alloc_obj.delete_all: the allocation rows go in one writer transaction,
    the consumers left without allocations in a later one"""
    from placement.objects import consumer as consumer_obj
    reg = lib.base_registry()
    reg['fields'].update(classes.FIELDS)
    reg['getattr'] = lib.context_getattr_hook

    def stub(table, what):
        def f(I, a, k):
            lib.txn_enter(I, 'writer')
            I.db.havoc([table])
            I.event('db.write', table, 'contract:' + what, I.db._tid())
            lib.txn_exit(I, None)
        return f
    reg['calls'][id(alloc_obj._delete_allocations_by_ids)] = \
        stub('allocations', '_delete_allocations_by_ids')
    reg['calls'][id(consumer_obj.delete_consumers_if_no_allocations)] = \
        stub('consumers', 'delete_consumers_if_no_allocations')
    I = Interp(ex, reg)
    I.db = GhostDB(I, 'db')
    ctx = lib.CtxStub()
    I.ghost['ctx'] = ctx
    allocs = I.fresh_list('alloc_list', ('obj', classes.ALLOC))
    j = z3.Int('j!dapre')
    a = z3.Select(allocs.arr, j)
    ex.hyp(ops.forall([j], z3.Implies(
        z3.And(j >= 0, j < allocs.len),
        z3.Not(z3.Select(I.fld_none(classes.CONSUMER, 'uuid'), z3.Select(
            I.fld(classes.ALLOC, 'consumer'), a)))),
        patterns=[z3.Select(allocs.arr, j)]))
    I.call(alloc_obj.delete_all, [ctx, allocs], {})
    ws = [e for e in I.events if e[0] == 'db.write']
    core = sorted(set(e[3] for e in ws if e[1] in CORE), key=str)
    aux_before = [e for e in ws if e[1] not in CORE and core and
                  ws.index(e) < min(ws.index(x) for x in ws if x[1] in CORE)]
    ex.oblige('C18.T.delete_all.allocations_in_one_transaction',
              len(core) == 1, 'T')
    ex.oblige('C18.T.delete_all.consumers_removed_afterwards',
              not aux_before, 'T')
    # the wrappers of the two callees
    import inspect
    for fn, nm in ((alloc_obj._delete_allocations_by_ids, 'by_ids'),
                   (consumer_obj.delete_consumers_if_no_allocations, 'consumers')):
        wrapped = hasattr(fn, '__wrapped__') and \
            fn.__code__.co_filename.endswith('enginefacade.py')
        ex.oblige('C18.T.delete_all.%s_is_a_writer' % nm, wrapped, 'T')


def replay_c18(r):
    sys.path.insert(0, os.path.join(runner.VERIF, 'replay'))
    import c18
    return c18.search(r, TIER[0])


TIER = ['quick']


def build(tier, seed):
    chk = runner.Check('C18', tier, seed)
    TIER[0] = tier
    for route, method, wobj in H.routes():
        if (method, route) in WRITE_OPS:
            chk.script('%s %s' % (method, route),
                       make_script(route, method, wobj),
                       common.handler_names(wobj))
    chk.script('delete_all', script_delete_all,
               ['placement/objects/allocation.py:delete_all'])
    chk.script('replace_all', script_replace_all,
               ['placement/objects/allocation.py:replace_all'])
    chk.script('ResourceProvider.create', C09.script_create,
               ['placement/objects/resource_provider.py:ResourceProvider.create'])
    chk.script('ResourceProvider.save', C09.script_update,
               ['placement/objects/resource_provider.py:ResourceProvider.save'])
    chk.script('ResourceProvider.destroy', C09.script_delete,
               ['placement/objects/resource_provider.py:ResourceProvider.destroy'])
    chk.script('ResourceClass.create', C19.script_rc_create,
               ['placement/objects/resource_class.py:ResourceClass.create'])
    chk.script('ResourceClass.destroy', C19.script_rc_destroy,
               ['placement/objects/resource_class.py:ResourceClass.destroy'])
    chk.script('ResourceClass.save', C19.script_rc_save,
               ['placement/objects/resource_class.py:ResourceClass.save'])
    chk.script('Trait.destroy', C19.script_trait_destroy,
               ['placement/objects/trait.py:Trait.destroy'])
    mutators.add(chk)
    chk.keep_prefixes = ('C18.', 'mut.', 'typestate.', 'frame.')
    # of the shared scripts only the transaction-signature obligations (and
    # what they need) are kept here; their other obligations are C09 / C19's
    chk.keep_suffixes = ('.one_writer_txn',)
    chk.replayer('C18.', replay_c18)
    chk.replayer('C09.', replay_c18)
    chk.replayer('C19.', replay_c18)
    chk.replayer('mut.', replay_c18)
    chk.fallback('B4.c18.crash_injection', lambda: replay_c18(None),
                 '16 write requests (multi-provider / multi-consumer allocation writes, inventory / trait / aggregate replacement, reshapes with and without allocations, subtree moves, provider creation / deletion, class and trait creation) x a crash before every SQL statement each executes (quick: every second one beyond 40): surviving state checked for capacity, references, forest, and compared with the states before / after the request',
                 always=True)
    chk.assume('A-txn', 'A-lib', 'A-heap', 'A-orm', 'A-sql', 'A-key',
               'A-nofault')
    return chk


if __name__ == '__main__':
    runner.main(build)
