"""C10 -- generations move forward on every change and only then."""
import sys
import os
sys.path.insert(0, os.path.dirname(os.path.dirname(os.path.abspath(__file__))))

import z3

from pyvc import runner
from pyvc.interp import PyRaise
from contracts import handlers as H
from props import common, gen_scripts, leafs, C05, mutators


def readonly_script(route, method, wobj):
    op = '%s %s' % (method, route)

    def script(ex):
        I, ctx, ver, req = common.new_interp(ex)
        common.run(I, wobj, req)
        writes = [e for e in I.events if e[0] == 'db.write']
        ex.oblige('C10.T.readonly', not writes, 'T',
                  {'operation': op, 'signature': op + ' read only',
                   'writes': repr(writes)[:200]})
    return script


def aggregates_flag_script(route, method, wobj):
    def script(ex):
        I, ctx, ver, req = common.new_interp(ex)
        common.run(I, wobj, req)
        for e in I.events:
            if e[0] == 'call' and e[1] == 'ResourceProvider.set_aggregates':
                flag = e[3].get('increment_generation', False)
                t = I.truth_term(flag)
                t = z3.BoolVal(t) if isinstance(t, bool) else t
                ex.oblige('C10.T.aggregates_generation_from_1_19',
                          t == (ver.minor >= 19), 'T',
                          {'operation': 'PUT aggregates',
                           'signature': 'PUT aggregates increment flag'})
    return script


def replay_c10(r):
    sys.path.insert(0, os.path.join(runner.VERIF, 'replay'))
    import c10
    return c10.run()


def build(tier, seed):
    chk = C05.build(tier, seed, prop='C10', keep=('C10.',))
    chk.fallbacks = []
    chk.replayers = {}
    for route, method, wobj in H.routes():
        if method == 'GET' and route not in ('/', ''):
            chk.script('readonly %s %s' % (method, route),
                       readonly_script(route, method, wobj),
                       common.handler_names(wobj))
        if (method, route) == ('PUT', '/resource_providers/{uuid}/aggregates'):
            chk.script('aggregates flag', aggregates_flag_script(route, method, wobj),
                       common.handler_names(wobj))
    chk.replayer('', replay_c10)
    chk.fallback('B4.c10.write_sequences', lambda: replay_c10(None),
                 '15 successful writes incl. corner cases (empty trait / aggregate lists, clearing allocations) + every GET + one refused write, at microversions 1.39 / 1.19 / 1.12; generations compared before/after', always=True)
    leafs.add(chk, ['cas.consumer'])
    # _set_allocations bumps the generation of every provider and consumer
    # the request names exactly once, inside the write transaction, and
    # nobody else's (inductive proof of its two generation loops, shared
    # with C01)
    import C01
    chk.script('set_allocations', C01.script_set,
               ['placement/objects/allocation.py:_set_allocations'])
    mutators.add(chk)
    chk.keep_prefixes = chk.keep_prefixes + ('mut.', 'C01.set.')
    return chk


if __name__ == '__main__':
    runner.main(build)
