"""C20 -- limit and randomisation only select from the full candidate set.

Obligations over the real RequestWideSearchContext.limit_results (body proof
with loop invariants) and AllocationCandidates._get_by_requests (limit applied
to the final, filtered candidate set; proof against the callee contracts)."""
import sys
import os
sys.path.insert(0, os.path.dirname(os.path.dirname(os.path.abspath(__file__))))

import random
import z3

from pyvc.core import Undecided
from pyvc.interp import Interp, PyRaise
from pyvc.values import Sym, Obj, VDict, VList, SList, SSet, SMap, Native
from pyvc import runner, ops
from contracts import lib, classes
from contracts import candidates as CC

from placement.objects import allocation_candidate as ac
from placement.objects import research_context as res_ctx


def getattr_hook(I, v, name):
    if name in ('_ctx', '_context') and isinstance(v, Obj):
        return I.ghost['ctx']
    return NotImplemented


def registry():
    reg = lib.base_registry()
    reg['fields'].update(classes.FIELDS)
    reg['fields'].update(CC.FIELDS)
    reg['loops'].update(CC.LOOPS)
    reg['havoc_types'] = dict(CC.HAVOC_TYPES)
    reg['getattr'] = getattr_hook
    reg['calls'][id(random.sample)] = CC.sample_contract
    reg['calls'][id(random.shuffle)] = CC.shuffle_contract
    return reg


def setup_limit(I):
    ex = I.ex
    ctx = lib.CtxStub()
    I.ghost['ctx'] = ctx
    rw = I.fresh('rw_ctx', ('obj', CC.RWSC))
    areqs = I.fresh_list('areqs', ('obj', CC.AREQ))
    sums = I.fresh_list('sums', ('obj', CC.PSUM))
    for f in CC.limit_requires(I, areqs, sums):
        ex.hyp(f)
    limit = I.read_field(rw, '_limit')
    # the query schema and RequestWideParams admit only limit >= 1
    ex.assume(z3.Or(limit.none, limit.t >= 1))
    randomize = ctx.getattr(I, 'config').getattr(I, 'placement').getattr(
        I, 'randomize_allocation_candidates')
    return ctx, rw, areqs, sums, limit, randomize


def script_limit(ex, mutate=None):
    I = Interp(ex, registry())
    ctx, rw, areqs, sums, limit, randomize = setup_limit(I)
    arr0, len0 = areqs.arr, areqs.len
    try:
        res = I.call(res_ctx.RequestWideSearchContext.limit_results,
                     [rw, areqs, sums], {})
    except PyRaise as pr:
        ex.oblige('C20.limit.no_raise', False, 'T',
                  {'raised': pr.exc.cls.__name__, 'args': repr(pr.exc.args)})
        return
    if not (isinstance(res, tuple) and len(res) == 2 and
            all(isinstance(x, SList) for x in res)):
        raise Undecided('limit_results returned %r' % (res,))
    out_a, out_s = res
    ex.oblige('C20.limit.frame.input_length', areqs.len == len0, 'A')
    post = CC.limit_ensures(I, limit, randomize.t, areqs, sums,
                            out_a, out_s, arr0)
    if mutate:
        post = mutate(I, post, out_a, out_s, limit)
    for name, f in post.items():
        ex.oblige('C20.T.limit.%s' % name, f, 'canary' if mutate else 'T')
    # determinism: no call into random unless randomisation is configured
    rnd = I.events_of('random')
    ex.oblige('C20.T.limit.random_only_if_configured',
              z3.Implies(z3.Not(randomize.t), z3.BoolVal(not rnd)), 'T')


def canary_limit(ex):
    """the negation of the count clause must be refuted on every path"""
    def mut(I, post, out_a, out_s, limit):
        return {'canary_count': z3.Not(post['count'])}
    script_limit(ex, mut)


# --------------------------------------------------------------------------
# _get_by_requests: limit_results is applied to the complete, filtered set
class _Ctor(Native):
    pass


def registry_gbr():
    reg = registry()

    def rw_ctor(I, a, k):
        o = I.alloc(CC.RWSC)
        I.write_field(o, '_limit', I.fresh('limit', 'int', True))
        I.write_field(o, '_nested_aware', I.fresh('nested_aware', 'bool'))
        I.write_field(o, 'has_trees', I.fresh('has_trees', 'bool'))
        I.write_field(o, 'multi_group_rcs', I.make_set([]))
        I.ghost['rw'] = o
        return o
    reg['classes'][res_ctx.RequestWideSearchContext] = rw_ctor
    reg['calls'][id(res_ctx.get_sharing_providers)] = \
        lambda I, a, k: I.fresh_set('sharing', 'int')

    def rg_ctor(I, a, k):
        o = I.alloc(res_ctx.RequestGroupSearchContext)
        # resource-class ids of the group: irrelevant to C20
        I.write_field(o, 'rcs', VList([0]))
        return o
    reg['classes'][res_ctx.RequestGroupSearchContext] = rg_ctor

    def one_request(I, a, k):
        out = I.fresh_list('one', ('obj', CC.AREQ))
        I.event('one_request', out)
        return out
    reg['calls'][id(ac.AllocationCandidates._get_by_one_request)] = \
        one_request

    def merge(I, a, k):
        out = (I.fresh_list('merged', ('obj', CC.AREQ)),
               I.fresh_list('merged_sums', ('obj', CC.PSUM)))
        for f in CC.limit_requires(I, out[0], out[1]):
            I.ex.hyp(f)
        I.event('merge', out)
        return out
    reg['calls'][id(ac._merge_candidates)] = merge

    def exclude(I, a, k):
        """assumed contract: an order-preserving filter of both lists --
        modelled as uninterpreted functions of the input lists, so that only
        a composition that applies it to the merged lists themselves yields
        EXCL(merged)"""
        rw, la, ls = a[0], a[1], a[2]
        fl = z3.Function('excl_len', z3.IntSort(), la.arr.sort(), z3.IntSort())
        fa = z3.Function('excl_arr', z3.IntSort(), la.arr.sort(), la.arr.sort())
        sl = z3.Function('excl_slen', z3.IntSort(), la.arr.sort(),
                         z3.IntSort(), ls.arr.sort(), z3.IntSort())
        sa = z3.Function('excl_sarr', z3.IntSort(), la.arr.sort(),
                         z3.IntSort(), ls.arr.sort(), ls.arr.sort())
        oa = SList(fl(la.len, la.arr), fa(la.len, la.arr), la.ety, 'excl')
        os_ = SList(sl(la.len, la.arr, ls.len, ls.arr),
                    sa(la.len, la.arr, ls.len, ls.arr), ls.ety, 'excl_s')
        I.ex.assume(z3.And(oa.len >= 0, oa.len <= la.len, os_.len >= 0))
        for f in CC.limit_requires(I, oa, os_):
            I.ex.hyp(f)
        I.event('exclude', (la, ls), (oa, os_))
        return (oa, os_)
    reg['calls'][id(res_ctx.RequestWideSearchContext.exclude_nested_providers)] \
        = exclude
    reg['calls'][id(res_ctx.RequestWideSearchContext.limit_results)] = \
        CC.limit_contract
    return reg


def script_gbr(ex, ngroups=1):
    I = Interp(ex, registry_gbr())
    ctx = lib.CtxStub()
    I.ghost['ctx'] = ctx
    from placement import lib as plib
    groups = VDict()
    for g in range(ngroups):
        grp = I.alloc(plib.RequestGroup)
        I.write_field(grp, 'use_same_provider', I.fresh('usp', 'bool'))
        groups.items['' if g == 0 else str(g)] = grp
    rqparams = I.alloc(plib.RequestWideParams)
    try:
        res = I.call(ac.AllocationCandidates._get_by_requests.__func__,
                     [ac.AllocationCandidates, ctx, groups, rqparams], {})
    except PyRaise as pr:
        raise Undecided('_get_by_requests raised %s %r' % (pr.exc.cls.__name__, pr.exc.args))
    merges = I.events_of('merge')
    if not merges:
        # a group without candidates: ([], []) -- M = 0, nothing to limit
        ok = isinstance(res, tuple) and all(
            isinstance(x, VList) and not x.items for x in res)
        ex.oblige('C20.T.gbr.empty_shortcut', ok, 'T')
        return
    merged = merges[-1][1]
    rw = I.ghost['rw']
    limit = I.read_field(rw, '_limit')
    ex.assume(z3.Or(limit.none, limit.t >= 1))
    randomize = ctx.getattr(I, 'config').getattr(I, 'placement').getattr(
        I, 'randomize_allocation_candidates')
    # the complete result ("the M returned without a limit") is
    # EXCL(merged); the limited one must be selected from exactly that
    la, ls = merged
    full_a = SList(z3.Function('excl_len', z3.IntSort(), la.arr.sort(),
                               z3.IntSort())(la.len, la.arr),
                   z3.Function('excl_arr', z3.IntSort(), la.arr.sort(),
                               la.arr.sort())(la.len, la.arr), la.ety, 'full')
    full_s = SList(z3.Function('excl_slen', z3.IntSort(), la.arr.sort(),
                               z3.IntSort(), ls.arr.sort(), z3.IntSort())(
                                   la.len, la.arr, ls.len, ls.arr),
                   z3.Function('excl_sarr', z3.IntSort(), la.arr.sort(),
                               z3.IntSort(), ls.arr.sort(), ls.arr.sort())(
                                   la.len, la.arr, ls.len, ls.arr), ls.ety,
                   'full_s')
    if not (isinstance(res, tuple) and len(res) == 2 and
            all(isinstance(x, SList) for x in res)):
        raise Undecided('_get_by_requests returned %r' % (res,))
    out_a, out_s = res
    arr0 = I.ghost.get('limit.arr0', full_a.arr)
    post = CC.limit_ensures(I, limit, randomize.t, full_a, full_s,
                            out_a, out_s, full_a.arr)
    for name, f in post.items():
        ex.oblige('C20.T.gbr.%s' % name, f, 'T')


def script_gbr2(ex):
    script_gbr(ex, 2)


TIER = ['quick']


def replay_c20(r):
    sys.path.insert(0, os.path.join(runner.VERIF, 'replay'))
    import c20
    if TIER[0] == 'quick':
        return c20.search(getattr(r, 'model', None), seeds=2,
                          minors=(16, 28, 39))
    return c20.search(getattr(r, 'model', None), seeds=8)


def build(tier, seed):
    chk = runner.Check('C20', tier, seed)
    TIER[0] = tier
    chk.script('limit_results', script_limit,
               ['placement/objects/research_context.py:RequestWideSearchContext.limit_results'])
    chk.script('get_by_requests.1', script_gbr,
               ['placement/objects/allocation_candidate.py:AllocationCandidates._get_by_requests'])
    chk.script('get_by_requests.2', script_gbr2,
               ['placement/objects/allocation_candidate.py:AllocationCandidates._get_by_requests'])
    chk.canary('canary.limit.count', canary_limit)
    chk.replayer('C20.', replay_c20)
    chk.fallback('B4.c20.limit_grid', lambda: replay_c20(None),
                 '4 topologies (flat, nested, sharing, mixed) x 8 queries x limits 1..M+1 x randomize off/on x 2 (quick) / 8 (thorough) repetitions x microversions 1.16/1.28/1.39 (quick) or 1.10/1.16/1.28/1.29/1.39 (thorough)',
                 always=True)
    chk.assume('A-int', 'A-heap', 'A-lib', 'A-order')
    return chk


if __name__ == '__main__':
    runner.main(build)
