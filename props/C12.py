"""C12 -- consumers exist exactly while they hold allocations."""
import sys
import os
sys.path.insert(0, os.path.dirname(os.path.dirname(os.path.abspath(__file__))))

import z3

from pyvc import runner, ops
from pyvc.interp import PyRaise
from pyvc.values import Obj, SList, VList, Sym
from pyvc.ops import to_term
from contracts import handlers as H, classes, objects
from props import common, gen_scripts, leafs, C04

ALLOC_OPS = [('PUT', '/allocations/{consumer_uuid}'), ('POST', '/allocations'),
             ('POST', '/reshaper')]


def handler_script(route, method, wobj):
    """(a) a request answered with an error removes the consumers it created
    (C04 obligations, restated for the consumers table); (b) a request that
    succeeds does not leave a consumer it created without allocations."""
    op = '%s %s' % (method, route)
    c04 = C04.make_script(route, method, wobj)

    def script(ex):
        from placement.handlers import allocation as alloc_handler
        reg = common.full_registry()
        from placement.handlers import util as hutil_
        reg['watch'] = {id(alloc_handler.delete_consumers): 'delete_consumers',
                        id(hutil_.update_consumers): 'update_consumers'}
        I, ctx, ver, req = common.new_interp(ex, reg)
        db0 = I.db.snapshot()
        out = common.run(I, wobj, req)
        info = {'operation': op}
        created = [e for e in I.events if e[0] == 'created.consumer']
        deleted = [e for e in I.events if e[0] == 'deleted.consumer']
        if out[0] == 'raise':
            if method == 'PUT':
                same = I.db.same_core_state(db0, ('consumers',))
                ex.oblige('C12.T.error_removes_created_consumer', same, 'T', dict(
                    info, signature=op + ' error leaves a created consumer'))
            return
        # a request answered with success has handed its allocations to the
        # write transaction, after bringing the consumers' attributes up to
        # date
        written = [x for x in I.events if x[0] == 'replace_all' or
                   (x[0] == 'call' and x[1] in ('reshaper.reshape',
                                                'alloc_obj.replace_all'))]
        ex.oblige('C12.T.success_means_handed_to_the_writer', bool(written),
                  'T', dict(info, signature=op + ' success without write'))
        entered = [x for x in I.events if x[0] == 'enter' and
                   x[1] == 'update_consumers']
        ex.oblige('C12.T.success_updates_consumer_attributes', bool(entered),
                  'T', dict(info, signature=op + ' success without '
                            'attribute update'))
        if method == 'PUT':
            for e in created:
                cobj = e[1]
                was_deleted = any(d[1].ref.eq(cobj.ref) for d in deleted)
                writes = [x for x in I.events if x[0] == 'replace_all']
                nonempty = z3.BoolVal(False)
                for w in writes:
                    al = w[1]
                    if isinstance(al, SList):
                        nonempty = z3.Or(nonempty, al.len > 0)
                    elif isinstance(al, VList) and al.items:
                        nonempty = z3.BoolVal(True)
                ex.oblige('C12.T.created_consumer_holds_allocations',
                          z3.Or(z3.BoolVal(was_deleted), nonempty), 'T', dict(
                              info, signature=op + ' success keeps an empty consumer'))
            # ... and the handler's own clean-up removes a consumer on
            # success only when nothing was written for it
            if deleted:
                writes = [x for x in I.events if x[0] == 'replace_all']
                nonempty = z3.BoolVal(False)
                for w in writes:
                    al = w[1]
                    if isinstance(al, SList):
                        nonempty = z3.Or(nonempty, al.len > 0)
                    elif isinstance(al, VList) and al.items:
                        nonempty = z3.BoolVal(True)
                    elif not isinstance(al, VList):
                        nonempty = z3.BoolVal(True)     # unknown shape
                ex.oblige('C12.T.consumer_with_allocations_not_deleted',
                          z3.Not(nonempty), 'T', dict(
                              info, signature=op + ' success deletes a '
                              'consumer that holds allocations'))
        else:
            # multi-consumer requests: the clean-up of consumers without
            # allocations is reached on success
            cleanup = [e for e in I.events if e[0] == 'enter' and
                       e[1] == 'delete_consumers']
            ex.oblige('C12.T.success_cleanup_of_empty_consumers', bool(cleanup),
                      'T', dict(info, signature=op + ' success without clean-up'))
    return script


def attributes_script(ex):
    """ensure_consumer: placeholder project / user exactly when the body has
    no project_id; consumer type looked up exactly from 1.38."""
    from placement.handlers import util as hutil
    reg = common.full_registry()
    del reg['calls'][id(hutil.ensure_consumer)]
    I, ctx, ver, req = common.new_interp(ex, reg)
    pid = I.fresh('project_id', 'str', nullable=True)
    uid = I.fresh('user_id', 'str', nullable=True)
    args = [ctx, I.fresh('consumer_uuid', 'str'), pid, uid,
            I.fresh('consumer_generation', 'int', nullable=True),
            I.fresh('consumer_type', 'str', nullable=True), ver]
    try:
        res = I.call(hutil.ensure_consumer, args, {})
    except PyRaise:
        return
    calls = [e for e in I.events if e[0] == 'call']
    pg = [e for e in calls if e[1] == 'Project.get_by_external_id']
    ug = [e for e in calls if e[1] == 'User.get_by_external_id']
    cfgp = I.ghost.get(('cfgval', ('placement', 'incomplete_consumer_project_id')))
    cfgu = I.ghost.get(('cfgval', ('placement', 'incomplete_consumer_user_id')))
    if pg:
        used = to_term(pg[0][2][1], 'str')
        want = z3.If(pid.none, cfgp.t if cfgp is not None else used, pid.t)
        ex.oblige('C12.T.project_or_placeholder', used == want, 'T',
                  {'signature': 'ensure_consumer project'})
    if ug:
        used = to_term(ug[0][2][1], 'str')
        want = z3.If(pid.none, cfgu.t if cfgu is not None else used, uid.t)
        ex.oblige('C12.T.user_or_placeholder', used == want, 'T',
                  {'signature': 'ensure_consumer user'})
    typed = any(e[1] == 'get_or_create_consumer_type_id' for e in calls)
    ex.oblige('C12.T.type_from_1_38', z3.BoolVal(typed) == (ver.minor >= 38),
              'T', {'signature': 'ensure_consumer consumer type'})


def script_delete_all_cleanup(ex):
    """alloc_obj.delete_all (DELETE /allocations/{consumer}): after the rows
    are gone every consumer one of them belonged to is examined by
    delete_consumers_if_no_allocations (whose SQL removes those without
    allocations -- bounded stand-in), so no consumer outlives its last
    allocation"""
    from pyvc.interp import Interp
    from pyvc.values import SSet
    from contracts import lib
    from placement.objects import allocation as alloc_obj
    from placement.objects import consumer as consumer_obj
    reg = lib.base_registry()
    reg['fields'].update(classes.FIELDS)
    reg['getattr'] = lib.context_getattr_hook
    calls = []
    reg['calls'][id(alloc_obj._delete_allocations_by_ids)] = \
        lambda I, a, k: calls.append(('by_ids', a))
    reg['calls'][id(consumer_obj.delete_consumers_if_no_allocations)] = \
        lambda I, a, k: calls.append(('cleanup', a))
    I = Interp(ex, reg)
    ctx = I.ghost['ctx'] = lib.CtxStub()
    allocs = I.fresh_list('alloc_list', ('obj', classes.ALLOC))
    j = z3.Int('j!c12da')
    a = z3.Select(allocs.arr, j)
    cu = z3.Select(I.fld(classes.CONSUMER, 'uuid'),
                   z3.Select(I.fld(classes.ALLOC, 'consumer'), a))
    ex.hyp(ops.forall([j], z3.Implies(
        z3.And(j >= 0, j < allocs.len),
        z3.Not(z3.Select(I.fld_none(classes.CONSUMER, 'uuid'), z3.Select(
            I.fld(classes.ALLOC, 'consumer'), a)))),
        patterns=[z3.Select(allocs.arr, j)]))
    I.call(alloc_obj.delete_all, [ctx, allocs], {})
    kinds = [c[0] for c in calls]
    ex.oblige('C12.T.delete_all.rows_then_consumer_cleanup',
              kinds == ['by_ids', 'cleanup'], 'T', {'calls': kinds})
    if kinds != ['by_ids', 'cleanup']:
        return
    uu = calls[1][1][1]
    if not isinstance(uu, SSet):
        ex.oblige('C12.T.delete_all.every_consumer_examined', False, 'T',
                  {'arg': repr(uu)[:100]})
        return
    j0 = I.fresh('j0', 'int').t
    ex.oblige('C12.T.delete_all.every_consumer_examined', z3.Implies(
        z3.And(j0 >= 0, j0 < allocs.len),
        z3.Select(uu.arr, z3.substitute(cu, (j, j0)))), 'T')
    ids = calls[0][1][1]
    ok = isinstance(ids, SList)
    if ok:
        ex.oblige('C12.T.delete_all.every_row_named', z3.And(
            ids.len == allocs.len, z3.Implies(
                z3.And(j0 >= 0, j0 < allocs.len),
                z3.Select(ids.arr, j0) == z3.Select(
                    I.fld(classes.ALLOC, 'id'),
                    z3.Select(allocs.arr, j0)))), 'T')
    else:
        ex.oblige('C12.T.delete_all.every_row_named', False, 'T',
                  {'arg': repr(ids)[:100]})


def replay_c12(r):
    sys.path.insert(0, os.path.join(runner.VERIF, 'replay'))
    import c12
    return c12.run()


def build(tier, seed):
    chk = runner.Check('C12', tier, seed)
    chk.script('handlers.util.ensure_consumer', gen_scripts.ensure_consumer_script,
               ['placement/handlers/util.py:ensure_consumer',
                'placement/handlers/util.py:_create_consumer'])
    chk.script('ensure_consumer attributes', attributes_script,
               ['placement/handlers/util.py:ensure_consumer'])
    for route, method, wobj in H.routes():
        if (method, route) in ALLOC_OPS:
            chk.script('%s %s' % (method, route),
                       handler_script(route, method, wobj),
                       common.handler_names(wobj))
    chk.script('delete_all cleanup', script_delete_all_cleanup,
               ['placement/objects/allocation.py:delete_all'])
    leafs.add(chk, ['consumer.delete'])
    # an existing consumer named by a successful write takes the requested
    # project, user and consumer type (inductive proof of the real loop,
    # shared with C11)
    import C11
    chk.script('update_consumers', C11.script_update_consumers,
               ['placement/handlers/util.py:update_consumers'])
    chk.keep_prefixes = ('C12.', 'EC.created_flag', 'EC.new_generation_zero',
                         'leaf.', 'typestate.', 'H.', 'frame.', 'C11.')
    chk.replayer('', replay_c12)
    chk.fallback('B4.c12.sequences', lambda: replay_c12(None),
                 'request sequences (create, empty write for unknown consumer, '
                 'clear, re-create with null, rejected first write, POST move / '
                 'clear, attribute change, DELETE, create again) at microversions '
                 '1.39 / 1.28 / 1.12 / 1.8 / 1.1; consumers vs allocations tables '
                 'compared after every request', always=True)
    chk.assume('A-txn', 'A-lib', 'A-heap', 'A-nofault', 'A-key')
    return chk


if __name__ == '__main__':
    runner.main(build)
