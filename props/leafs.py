"""C-level obligations on the leaf functions of the object layer whose bodies
talk to the database through the interpreted statement fragment (Tier A).
Shared by several properties (each lists the ones its proof relies on)."""
import sys
import os
sys.path.insert(0, os.path.dirname(os.path.dirname(os.path.abspath(__file__))))

import z3

from pyvc.core import Undecided
from pyvc.interp import Interp, PyRaise
from pyvc.values import Sym, Obj
from pyvc.ghostdb import GhostDB
from pyvc import ops
from pyvc.ops import to_term
from contracts import lib, classes, web, handlers as H
from props import common

from placement import exception
from placement.objects import consumer as consumer_obj
from placement.objects import resource_provider as rp_obj


def _setup(ex, cls, fields):
    reg = common.full_registry()
    I = Interp(ex, reg)
    I.db = GhostDB(I, 'db')
    for h in I.db.row_invariants():
        ex.hyp(h)
    I.ghost['ctx'] = lib.CtxStub()
    o = I.fresh('self', ('obj', cls))
    for f in fields:
        ex.assume(z3.Not(z3.Select(I.fld_none(cls, f), o.ref)))
    return I, o


def _others_unchanged(I, t0, t1, key):
    k = z3.Const('k!frame', key.sort())
    parts = [z3.Select(t1.exists, k) == z3.Select(t0.exists, k)]
    for c in t0.data:
        parts.append(z3.Select(t1.data[c], k) == z3.Select(t0.data[c], k))
    return ops.forall([k], z3.Implies(k != key, z3.And(*parts)))


def script_cas(cls, table, conflict, name):
    """increment_generation: compare-and-swap of the generation column."""
    def script(ex):
        I, o = _setup(ex, cls, ('id', 'generation'))
        lib.txn_enter(I, 'writer')
        t0 = I.db.tables[table]
        rid = to_term(I.read_field(o, 'id'), 'int')
        g = to_term(I.read_field(o, 'generation'), 'int')
        others0 = {tn: t for tn, t in I.db.tables.items() if tn != table}
        try:
            I.call(getattr(cls, 'increment_generation'), [o], {})
        except PyRaise as pr:
            ex.oblige(name + '.raises_class', issubclass(pr.exc.cls, conflict),
                      'C', {'raised': pr.exc.cls.__name__})
            # refused: the row did not carry the object's generation
            ex.oblige(name + '.refused_only_if_stale', z3.Not(z3.And(
                z3.Select(t0.exists, rid),
                z3.Select(t0.data['generation'], rid) == g)), 'C')
            t1 = I.db.tables[table]
            ex.oblige(name + '.refused_changes_nothing', z3.And(
                t1.exists == t0.exists,
                t1.data['generation'] == t0.data['generation']), 'C')
            return
        t1 = I.db.tables[table]
        ex.oblige(name + '.success_only_if_current', z3.And(
            z3.Select(t0.exists, rid),
            z3.Select(t0.data['generation'], rid) == g), 'C')
        ex.oblige(name + '.bumps_by_one', z3.And(
            z3.Select(t1.data['generation'], rid) == g + 1,
            to_term(I.read_field(o, 'generation'), 'int') == g + 1), 'C')
        ex.oblige(name + '.frame', z3.And(
            _others_unchanged(I, t0, t1, rid),
            z3.Select(t1.exists, rid),
            *[z3.Select(t1.data[c], rid) == z3.Select(t0.data[c], rid)
              for c in t0.data if c != 'generation']), 'C')
        ex.oblige(name + '.other_tables', all(
            I.db.tables[tn] is t for tn, t in others0.items()), 'C')
    return script


def script_consumer_delete(ex):
    """Consumer.delete(): the row with the object's id is gone afterwards,
    whatever its generation; nothing else changes."""
    I, o = _setup(ex, consumer_obj.Consumer, ('id',))
    t0 = I.db.tables['consumers']
    cid = to_term(I.read_field(o, 'id'), 'int')
    try:
        I.call(consumer_obj.Consumer.delete, [o], {})
    except PyRaise as pr:
        ex.oblige('leaf.consumer.delete.raises', False, 'C',
                  {'raised': pr.exc.cls.__name__})
        return
    t1 = I.db.tables['consumers']
    ex.oblige('leaf.consumer.delete.removed',
              z3.Not(z3.Select(t1.exists, cid)), 'C')
    ex.oblige('leaf.consumer.delete.frame', _others_unchanged(I, t0, t1, cid),
              'C')
    tx = [e for e in I.events if e[0] == 'txn.begin']
    ex.oblige('leaf.consumer.delete.own_writer_txn',
              len(tx) == 1 and tx[0][2] == 'writer', 'C')


def script_consumer_update(ex):
    """Consumer.update(): project / user / type written only when id and
    generation match; the generation is not touched."""
    I, o = _setup(ex, consumer_obj.Consumer, ('id', 'generation', 'project',
                                              'user'))
    for sub, cls in (('project', 'Project'), ('user', 'User')):
        so = z3.Select(I.fld(consumer_obj.Consumer, sub), o.ref)
        ex.assume(z3.Not(z3.Select(I.fld_none(cls, 'id'), so)))
    t0 = I.db.tables['consumers']
    cid = to_term(I.read_field(o, 'id'), 'int')
    g = to_term(I.read_field(o, 'generation'), 'int')
    try:
        I.call(consumer_obj.Consumer.update, [o], {})
    except PyRaise as pr:
        ex.oblige('leaf.consumer.update.raises', False, 'C',
                  {'raised': pr.exc.cls.__name__})
        return
    t1 = I.db.tables['consumers']
    ex.oblige('leaf.consumer.update.generation_untouched',
              z3.And(t1.data['generation'] == t0.data['generation'],
                     t1.exists == t0.exists), 'C')
    stale = z3.Not(z3.And(z3.Select(t0.exists, cid),
                          z3.Select(t0.data['generation'], cid) == g))
    ex.oblige('leaf.consumer.update.guarded', z3.Implies(stale, z3.And(*[
        t1.data[c] == t0.data[c] for c in t0.data])), 'C')
    ex.oblige('leaf.consumer.update.frame', _others_unchanged(I, t0, t1, cid),
              'C')


LEAFS = {
    'cas.provider': (script_cas(rp_obj.ResourceProvider, 'resource_providers',
                                exception.ResourceProviderConcurrentUpdateDetected,
                                'leaf.cas.provider'),
                     'placement/objects/resource_provider.py:ResourceProvider.increment_generation'),
    'cas.consumer': (script_cas(consumer_obj.Consumer, 'consumers',
                                exception.ConcurrentUpdateDetected,
                                'leaf.cas.consumer'),
                     'placement/objects/consumer.py:Consumer.increment_generation'),
    'consumer.delete': (script_consumer_delete,
                        'placement/objects/consumer.py:Consumer.delete'),
    'consumer.update': (script_consumer_update,
                        'placement/objects/consumer.py:Consumer.update'),
}


def add(chk, names):
    for n in names:
        fn, where = LEAFS[n]
        chk.script('leaf:' + n, fn, [where])
