"""C16 -- every operation is authenticated and authorised before it has any
effect.  Exhaustive over the real route table x methods x version overloads."""
import sys
import os
sys.path.insert(0, os.path.dirname(os.path.dirname(os.path.abspath(__file__))))

import types
import z3

from pyvc.core import Undecided, PathEnd
from pyvc.interp import Interp, PyRaise
from pyvc.values import Sym, Obj, VDict, Native, BoundMethod, ExcVal
from pyvc import runner, ops
from contracts import lib, web, handlers as H

from placement import exception
from placement import policies
from placement import handler as handler_mod


def documented_rule(method, route):
    """Names of the rules whose DocumentedRuleDefault.operations contain the
    operation (read from the real rule objects)."""
    out = []
    for r in policies.list_rules():
        for op in getattr(r, 'operations', []) or []:
            if op['method'] == method and op['path'] == route:
                out.append(r.name)
    return out


class Effect(Exception):
    pass


class CanStub(Native):
    """context.can(rule, target): records the call; the authorised branch
    ends the path (what follows is not C16's concern), the refused branch
    raises PolicyNotAuthorized."""

    def call(self, I, args, kwargs):
        rule = args[1] if len(args) > 1 else kwargs.get('action')
        target = args[2] if len(args) > 2 else kwargs.get('target')
        fatal = kwargs.get('fatal', args[3] if len(args) > 3 else True)
        I.event('can', rule, target, fatal)
        if I.ex.choose(2, tag='authorised?') == 0:
            I.event('authorised')
            raise PathEnd()
        I.event('refused')
        if fatal is not True:
            return False
        I.raise_(exception.PolicyNotAuthorized, action=rule)


class C16Ctx(lib.CtxStub):
    def getattr(self, I, name):
        if name == 'can':
            return BoundMethod(self, CanStub())
        if name in ('rc_cache', 'trait_cache', 'ct_cache', 'session'):
            I.event('effect', 'context.' + name)
        return lib.CtxStub.getattr(self, I, name)


def effect_hook(I, fn, args, kwargs):
    """Any call into the object layer / database helpers is an effect (it
    reads or writes stored state)."""
    r = lib.function_hook(I, fn, args, kwargs)
    if r is not NotImplemented:
        return r
    mod = getattr(fn, '__module__', '') or ''
    if mod.startswith('placement.objects') or mod in (
            'placement.handlers.util', 'placement.db_api'):
        I.event('effect', '%s.%s' % (mod, fn.__qualname__))
        raise Effect()
    return NotImplemented


CALLER_INDEPENDENT = (404, 405, 406, 415)


def make_script(route, method, wobj):
    op = '%s %s' % (method, route)
    want = documented_rule(method, route)

    def script(ex):
        reg = H.web_registry()
        reg['function_hook'] = effect_hook
        I = Interp(ex, reg)
        ctx = C16Ctx()
        I.ghost['ctx'] = ctx
        ver = web.fresh_version(I)
        req = web.ReqStub(ctx, ver)
        outcome = None
        try:
            H.run_handler(I, wobj, req)
            outcome = ('return', None)
        except PyRaise as pr:
            outcome = ('raise', pr.exc)
        except Effect:
            outcome = ('effect', None)
        except PathEnd:
            outcome = ('authorised', None)
        evs = I.events
        cans = [e for e in evs if e[0] == 'can']
        before = []
        for e in evs:
            if e[0] == 'can':
                break
            before.append(e)
        effects_before = [e for e in before if e[0] in ('effect', 'extract_json',
                                                        'validate_query_params',
                                                        'json.dumps',
                                                        'response.set')]
        info = {'operation': op, 'signature': op}
        if outcome[0] == 'authorised':
            ex.oblige('C16.T.can_first', not effects_before, 'T',
                      dict(info, events=repr(before)[:300]))
            rule = cans[0][1]
            ex.oblige('C16.T.rule', isinstance(rule, str) and [rule] == want,
                      'T', dict(info, used=repr(rule), documented=want))
            ex.oblige('C16.T.fatal', cans[0][3] is True, 'T', info)
            if route == '/usages':
                tgt = cans[0][2]
                ok = isinstance(tgt, VDict) and 'project_id' in tgt.items
                ex.oblige('C16.T.usages_target', ok, 'T', info)
            raise PathEnd()
        if outcome[0] == 'effect':
            # an effect was reached: it must come after an authorised can --
            # but the authorised branch ends the path, so this is before it
            ex.oblige('C16.T.no_effect_unauthorised', False, 'T',
                      dict(info, events=repr(evs)[-300:]))
            return
        if outcome[0] == 'return':
            ex.oblige('C16.T.no_success_without_can', False, 'T', info)
            return
        exc = outcome[1]
        if cans:
            # refused: the refusal must leave the handler as such
            ex.oblige('C16.T.refusal_propagates',
                      issubclass(exc.cls, exception.PolicyNotAuthorized), 'T',
                      dict(info, raised=exc.cls.__name__))
            after = evs[evs.index(cans[0]):]
            ex.oblige('C16.T.refusal_no_effect',
                      not [e for e in after if e[0] in ('effect', 'response.set')],
                      'T', info)
        else:
            st = H.status_of(exc)
            ex.oblige('C16.T.early_exit_caller_independent',
                      st in CALLER_INDEPENDENT and not effects_before, 'T',
                      dict(info, raised=exc.cls.__name__, status=st, args=repr(exc.args)[:200]))
    return script


def replay_c16(r):
    sys.path.insert(0, os.path.join(runner.VERIF, 'replay'))
    import c16
    info = dict(r.ob.info)
    if 'operation' not in info:
        return {'reproduced': False}
    return c16.replay(info, r.model)


def build(tier, seed):
    chk = runner.Check('C16', tier, seed)
    for route, method, wobj in H.routes():
        if route in ('/', ''):
            continue
        fns = H.innermost_handlers(wobj)
        chk.script('%s %s' % (method, route), make_script(route, method, wobj),
                   ['%s:%s' % (f.__code__.co_filename.replace('/repo/', ''),
                               f.__qualname__) for f in fns])
        # every documented operation has exactly one rule
        chk.lemma('C16.unique_rule[%s %s]' % (method, route),
                  z3.BoolVal(len(documented_rule(method, route)) == 1), kind='C',
                  info={'operation': '%s %s' % (method, route)})
    add_policy_lemmas(chk)
    chk.script('deploy', script_deploy, ['placement/deploy.py:deploy'])
    chk.script('RequestContext.can', script_context_can,
               ['placement/context.py:RequestContext.can'])
    chk.script('PlacementHandler.__call__', script_handler_403,
               ['placement/handler.py:PlacementHandler.__call__'])
    for cn in ('NoAuthMiddleware', 'PlacementKeystoneContext'):
        chk.script(cn, script_auth_middleware(cn),
                   ['placement/auth.py:%s.__call__' % cn])
    chk.replayer('C16.T.', replay_c16)
    chk.replayer('C16.policy.', replay_c16)
    chk.assume('A-lib', 'A-heap')
    chk.trusted = ['oslo.policy Enforcer.authorize', 'keystonemiddleware',
                   'webob.dec.wsgify', 'routes.Mapper']
    return chk



# ===========================================================================
# default policy: check strings of the real rule objects as z3 formulas

def parse_check(s, rules, atoms, depth=0):
    s = s.strip()
    if depth > 10:
        raise Undecided('policy rule recursion')
    # lowest precedence: or, then and
    for op, mk in ((' or ', z3.Or), (' and ', z3.And)):
        parts = _split(s, op)
        if len(parts) > 1:
            return mk(*[parse_check(p, rules, atoms, depth) for p in parts])
    if s.startswith('(') and s.endswith(')'):
        return parse_check(s[1:-1], rules, atoms, depth)
    if s.startswith('not '):
        return z3.Not(parse_check(s[4:], rules, atoms, depth))
    if s == '@' or s == '':
        return z3.BoolVal(True)
    if s == '!':
        return z3.BoolVal(False)
    kind, _, val = s.partition(':')
    if kind == 'rule':
        if val not in rules:
            raise Undecided('unknown rule %s' % val)
        return parse_check(rules[val], rules, atoms, depth + 1)
    if kind == 'role':
        return atoms.setdefault('role:' + val, z3.Bool('role_' + val))
    if kind == 'project_id' and val == '%(project_id)s':
        return atoms.setdefault('project_match', z3.Bool('project_match'))
    raise Undecided('policy check %r not modelled' % s)


def _split(s, op):
    out, depth, cur, i = [], 0, '', 0
    while i < len(s):
        if s[i] == '(':
            depth += 1
        elif s[i] == ')':
            depth -= 1
        if depth == 0 and s.startswith(op, i):
            out.append(cur)
            cur = ''
            i += len(op)
            continue
        cur += s[i]
        i += 1
    out.append(cur)
    return out


def add_policy_lemmas(chk):
    rules = {r.name: r.check_str for r in policies.list_rules()}
    atoms = {}
    admin = atoms.setdefault('role:admin', z3.Bool('role_admin'))
    service = atoms.setdefault('role:service', z3.Bool('role_service'))
    reader = atoms.setdefault('role:reader', z3.Bool('role_reader'))
    pm = atoms.setdefault('project_match', z3.Bool('project_match'))
    for r in policies.list_rules():
        ops_ = getattr(r, 'operations', None)
        if not ops_:
            continue
        try:
            f = parse_check(r.check_str, rules, atoms)
        except Undecided as u:
            chk.undecided.append('policy %s: %s' % (r.name, u))
            continue
        if r.name == 'placement:reshaper:reshape':
            want = service
        elif r.name == 'placement:usages':
            want = z3.Or(admin, service, z3.And(reader, pm))
        else:
            want = z3.Or(admin, service)
        chk.lemma('C16.policy.default[%s]' % r.name, f == want, kind='C',
                  info={'rule': r.name, 'check_str': r.check_str,
                        'signature': r.name})


# ===========================================================================
# middleware and context

def script_context_can(ex):
    """RequestContext.can: with fatal (the default) a refusal raises
    PolicyNotAuthorized; it never returns a true value on refusal."""
    from placement import context as ctx_mod
    from placement import policy as policy_mod
    reg = H.web_registry()
    refused = {}

    def authorize(I, args, kwargs):
        I.event('authorize', args[1], args[2])
        if I.ex.choose(2) == 1:
            refused['yes'] = True
            I.raise_(exception.PolicyNotAuthorized, action=args[1])
        return True
    reg['calls'][id(policy_mod.authorize)] = authorize
    I = Interp(ex, reg)

    class Self(Native):
        def getattr(self, I_, name):
            return I_.fresh('ctx.' + name, 'str', nullable=True)
    refused.clear()
    try:
        r = I.call(ctx_mod.RequestContext.can, [Self(), 'some:rule'], {})
    except PyRaise as pr:
        ex.oblige('C16.can.refusal_raises',
                  issubclass(pr.exc.cls, exception.PolicyNotAuthorized) and
                  bool(refused), 'C')
        return
    ex.oblige('C16.can.returns_only_when_authorised', not refused, 'C')
    evs = [e for e in I.events if e[0] == 'authorize']
    tgt = evs[0][2]
    ex.oblige('C16.can.default_target',
              isinstance(tgt, VDict) and set(tgt.items) == {'project_id', 'user_id'},
              'C')


def script_handler_403(ex):
    """PlacementHandler.__call__ maps PolicyNotAuthorized to 403 and NotFound
    to 404."""
    import webob.exc
    reg = H.web_registry()
    which = {}

    def dispatch(I, args, kwargs):
        k = I.ex.choose(3)
        which['k'] = k
        if k == 0:
            I.raise_(exception.PolicyNotAuthorized, action='x')
        if k == 1:
            I.raise_(exception.NotFound)
        return 'response'
    reg['calls'][id(handler_mod.dispatch)] = dispatch
    I = Interp(ex, reg)
    ctx = lib.CtxStub()

    class Env(Native):
        def getitem(self, I_, k):
            return ctx

        def getattr(self, I_, n):
            class Get(Native):
                def call(self, I__, a, kw):
                    return None
            return BoundMethod(self, Get())

    class Self(Native):
        def getattr(self, I_, n):
            return H.Opaque('self.' + n) if False else None
    try:
        r = I.call(handler_mod.PlacementHandler.__call__,
                   [Self(), Env(), None], {})
    except PyRaise as pr:
        st = H.status_of(pr.exc)
        ex.oblige('C16.handler.403', which.get('k') != 0 or st == 403, 'C')
        ex.oblige('C16.handler.404', which.get('k') != 1 or st == 404, 'C')
        return
    ex.oblige('C16.handler.passthrough', which.get('k') == 2, 'C')


def script_auth_middleware(cls_name):
    from placement import auth
    import webob.exc

    def script(ex):
        reg = H.web_registry()
        I = Interp(ex, reg)
        cls = getattr(auth, cls_name)
        raw = cls.__dict__['__call__']
        fn = getattr(raw, 'func', raw)
        path = Sym(z3.Const('PATH_INFO', web.StrSort), 'str')
        has_token = z3.Bool('has_token')
        user_none = z3.Bool('user_id_is_none')

        class Headers(Native):
            def contains(self, I_, k):
                return has_token if k == 'X-Auth-Token' else z3.Bool('hdr.' + k)

            def getitem(self, I_, k):
                return I_.fresh('hdr', 'str')

            def setitem(self, I_, k, v):
                pass

            def getattr(self, I_, n):
                class G(Native):
                    def call(self, I__, a, kw):
                        return I__.fresh('hdrget', 'str', nullable=True)
                return BoundMethod(self, G())

        class Env(Native):
            def getitem(self, I_, k):
                if k == 'PATH_INFO':
                    return path
                return I_.fresh('env', 'str')

            def setitem(self, I_, k, v):
                I_.event('environ.set', k)

            def getattr(self, I_, n):
                class G(Native):
                    def call(self, I__, a, kw):
                        if n == 'keys':
                            return H.VList([])
                        return None
                return BoundMethod(self, G())

        class Req(Native):
            def getattr(self, I_, n):
                return {'environ': Env(), 'headers': Headers()}[n]

        class Ctx(Native):
            def getattr(self, I_, n):
                if n == 'user_id':
                    return Sym(z3.Const('ctx.user_id', web.StrSort), 'str',
                               user_none)
                raise Undecided('ctx.' + n)

        class FromEnviron(Native):
            def call(self, I_, a, kw):
                return Ctx()
        reg['classes'][auth.context.RequestContext] = None
        reg.setdefault('getattr_class', {})

        def gh(I_, v, name):
            if v is auth.context.RequestContext and name == 'from_environ':
                return FromEnviron()
            return lib.context_getattr_hook(I_, v, name)
        reg['getattr'] = gh

        class Self(Native):
            def getattr(self, I_, n):
                if n == 'application':
                    return 'APPLICATION'
                raise Undecided('self.' + n)
        r = I.call(fn, [Self(), Req()], {})
        is_root = z3.Or(path.t == web.str_const('/'),
                        path.t == web.str_const(''))
        passed = (r == 'APPLICATION')
        refused = isinstance(r, ExcVal) and H.status_of(r) == 401
        ex.oblige('C16.401.%s.pass_or_401' % cls_name, passed or refused, 'C')
        if passed:
            cred = has_token if cls_name == 'NoAuthMiddleware' else z3.Not(user_none)
            ex.oblige('C16.401.%s.no_credentials_only_root' % cls_name,
                      z3.Or(cred, is_root), 'C')
    return script


# --------------------------------------------------------------------------
# deploy(): the stacking order of the middleware
class _Layer(Native):
    def __init__(self, name, inner):
        self.name = name
        self.inner = inner

    def chain(self):
        out, cur = [], self
        while isinstance(cur, _Layer):
            out.append(cur.name)
            cur = cur.inner
        return out


class _Factory(Native):
    def __init__(self, name):
        self.name = name

    def truth(self, I):
        return True

    def call(self, I, args, kwargs):
        return _Layer(self.name, args[0] if args else None)


class _Conf(Native):
    """oslo.config namespace for deploy(): every option deploy() reads is an
    unconstrained value"""

    def __init__(self, path=()):
        self.path = path

    def getattr(self, I, name):
        p = self.path + (name,)
        if len(p) == 1:
            return I.ghost.setdefault(('dconf', p), _Conf(p))
        key = ('dconfval', p)
        if key not in I.ghost:
            ty = 'str' if p == ('api', 'auth_strategy') else 'bool'
            I.ghost[key] = I.fresh('conf.' + '.'.join(p), ty)
        return I.ghost[key]

    def contains(self, I, key):
        return I.ghost.setdefault(('dconf.has', key),
                                  I.fresh('conf.has.%s' % key, 'bool')).t

    def kwargs_items(self):
        return {}


def script_deploy(ex):
    """deploy(conf) for every configuration: requests reach the handler only
    through authentication, then the request context, then the fault wrapper
    and microversion parsing -- in that order from the outside in"""
    import warnings
    from placement import deploy, fault_wrap, requestlog, auth as pauth
    from placement import handler as handler_mod
    from microversion_parse import middleware as mp_middleware
    from pyvc.interp import Interp
    import oslo_middleware
    reg = lib.base_registry()
    c, k = reg['calls'], reg['classes']
    k[handler_mod.PlacementHandler] = lambda I, a, kw: _Layer('handler', None)
    k[mp_middleware.MicroversionMiddleware] = \
        lambda I, a, kw: _Layer('microversion', a[0])
    k[fault_wrap.FaultWrapper] = lambda I, a, kw: _Layer('fault', a[0])
    k[pauth.PlacementKeystoneContext] = lambda I, a, kw: _Layer('context', a[0])
    kinds = []

    def noauth(I, a, kw):
        kinds.append('noauth')
        return _Layer('auth', a[0])

    def keystone(I, a, kw):
        kinds.append('keystone')
        return _Factory('auth')
    k[pauth.NoAuthMiddleware] = noauth
    k[requestlog.RequestLog] = lambda I, a, kw: _Layer('request_log', a[0])
    k[oslo_middleware.HTTPProxyToWSGI] = lambda I, a, kw: _Layer('proxy', a[0])
    c[id(pauth.filter_factory)] = keystone
    c[id(oslo_middleware.CORS.factory)] = lambda I, a, kw: _Factory('cors')
    c[id(oslo_middleware.CORS.factory.__func__)] = \
        lambda I, a, kw: _Factory('cors')
    c[id(warnings.filterwarnings)] = lambda I, a, kw: None
    if deploy.os_profiler_web is not None:
        f = deploy.os_profiler_web.WsgiMiddleware.factory
        c[id(getattr(f, '__func__', f))] = lambda I, a, kw: _Factory('profiler')
        c[id(f)] = lambda I, a, kw: _Factory('profiler')
    I = Interp(ex, reg)
    conf = _Conf()
    try:
        app = I.call(deploy.deploy, [conf], {})
    except PyRaise as pr:
        raise Undecided('deploy() raised %s %r' % (pr.exc.cls.__name__,
                                                   pr.exc.args))
    if not isinstance(app, _Layer):
        raise Undecided('deploy() returned %r' % (app,))
    chain = app.chain()
    pos = {n: i for i, n in enumerate(chain)}
    need = ('auth', 'context', 'fault', 'microversion', 'handler')
    ok = all(n in pos for n in need) and \
        pos['auth'] < pos['context'] < pos['fault'] < pos['microversion'] \
        < pos['handler'] and chain.count('auth') == 1
    ex.oblige('C16.T.deploy.auth_then_context_then_handler', ok, 'T',
              {'chain': chain})
    # the unauthenticated test middleware stands in for keystone only when
    # the operator asked for it
    strategy = I.ghost.get(('dconfval', ('api', 'auth_strategy')))
    if strategy is None or len(kinds) != 1:
        ex.oblige('C16.T.deploy.noauth_only_when_configured', False, 'T',
                  {'auth middlewares built': kinds})
    else:
        from pyvc.values import StrSort
        ex.oblige('C16.T.deploy.noauth_only_when_configured',
                  z3.BoolVal(kinds[0] == 'noauth') ==
                  (strategy.t == I.str_const('noauth2')
                   if hasattr(I, 'str_const') else
                   ops.to_term('noauth2', 'str') == strategy.t), 'T',
                  {'auth middleware': kinds[0]})


if __name__ == '__main__':
    runner.main(build)
