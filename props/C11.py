"""C11 -- reads report exactly the state produced by the successful writes.

The property quantifies over whole request histories against the documented
meaning of every route; what contracts reach are the translation steps
between JSON and objects on which that meaning rests:
  (1) inventory writes (PUT / POST inventories, PUT inventory, POST
      /reshaper): every Inventory object handed to the object layer carries,
      for every field, the value the request gave for THAT class, or the
      documented default when the request omitted it (real handlers, JSON
      body symbolic, any number of classes);
  (2) update_consumers: after the call every consumer of the request carries
      the requested project, user and (when given) consumer type, and
      Consumer.update() ran after the last change of each (inductive proof of
      the real loop);
  (3) usages are sums of allocations: the ghost usage aggregate is by
      construction the sum of the allocation rows (A-sum) and _set_allocations
      is proved to add exactly the written amounts (C01.set.post.exact, same
      script).
Always-on bounded stand-in: scripted and random histories on the real stack
against a reference model, every read view compared after every request."""
import sys
import os
sys.path.insert(0, os.path.dirname(os.path.dirname(os.path.abspath(__file__))))

import z3

from pyvc.core import Undecided
from pyvc.interp import Interp, PyRaise, LoopSpec
from pyvc.values import Sym, Obj, VDict, VList, SList, SMap, StrSort
from pyvc.ghostdb import GhostDB
from pyvc import runner, ops
from pyvc.ops import to_term
from contracts import lib, classes, web, handlers as H
from props import common
import C01

from placement.handlers import inventory as inv_handler
from placement.handlers import util as hutil

DEFAULTS = dict(inv_handler.INVENTORY_DEFAULTS)
FIELDS = ('total', 'reserved', 'min_unit', 'max_unit', 'step_size',
          'allocation_ratio')
INV_OPS = {
    ('PUT', '/resource_providers/{uuid}/inventories'):
        ('ResourceProvider.set_inventory', 'map'),
    ('POST', '/resource_providers/{uuid}/inventories'):
        ('ResourceProvider.add_inventory', 'one'),
    ('PUT', '/resource_providers/{uuid}/inventories/{resource_class}'):
        ('ResourceProvider.update_inventory', 'one'),
    ('POST', '/reshaper'): ('reshaper.reshape', 'nested'),
}


def expected(I, jobj, field):
    """value the request gives for `field` (JsonObj of one inventory), or the
    documented default"""
    v = jobj.items.get(field)
    dflt = DEFAULTS.get(field)
    ty = 'real' if field == 'allocation_ratio' else 'int'
    if v is None:
        return to_term(dflt, ty)
    vt = to_term(v, ty) if not (ty == 'real' and getattr(v, 'ty', None) == 'int') \
        else z3.ToReal(v.t)
    pres = (jobj.present or {}).get(field)
    if pres is None:
        return vt
    return z3.If(pres, vt, to_term(dflt, ty))


def check_values(ex, I, values, jobj, info):
    """values: field -> engine value handed to make_inventory_object"""
    for f in FIELDS:
        ty = 'real' if f == 'allocation_ratio' else 'int'
        if f not in values:
            ex.oblige('C11.T.inventory_field.%s' % f, False, 'T',
                      dict(info, field=f, missing=True))
            continue
        got = values[f]
        gt = z3.ToReal(got.t) if (ty == 'real' and getattr(got, 'ty', None) == 'int') \
            else to_term(got, ty)
        ex.oblige('C11.T.inventory_field.%s' % f, gt == expected(I, jobj, f),
                  'T', dict(info, field=f))


def make_inv_script(route, method, wobj):
    op = '%s %s' % (method, route)
    target, shape = INV_OPS[(method, route)]

    def script(ex):
        reg = common.full_registry()
        orig_extract = reg['calls'][id(__import__(
            'placement.util', fromlist=['x']).extract_json)]

        def extract(I, a, k):
            inst = orig_extract(I, a, k)
            if isinstance(inst, VDict) and 'c11.body' not in I.ghost:
                I.ghost['c11.body'] = inst
                I.ghost['c11.map'] = inst.items.get('inventories')
            return inst
        reg['calls'][id(__import__('placement.util',
                                   fromlist=['x']).extract_json)] = extract
        info = {'operation': op, 'signature': op + ' inventory fields'}

        def mio(I, a, k):
            """make_inventory_object(resource_provider, resource_class,
            **data): `data` must be the request's values / the defaults"""
            body = I.ghost.get('c11.body')
            if body is not None:
                rc = to_term(a[1], 'str')
                if shape == 'one':
                    jobj = body
                elif shape == 'map':
                    jm = I.ghost['c11.map']
                    ex.oblige('C11.T.inventory_class_from_request',
                              z3.Select(jm.dom, rc), 'T', info)
                    jobj = jm.value_at(I, rc)
                else:
                    fr = I.callstack[-1]
                    uu = to_term(fr.locals['rp_uuid'], 'str')
                    outer = I.ghost['c11.map']
                    ex.oblige('C11.T.reshape_provider_from_request',
                              z3.Select(outer.dom, uu), 'T', info)
                    inner = outer.value_at(I, uu).items['inventories']
                    ex.oblige('C11.T.inventory_class_from_request',
                              z3.Select(inner.dom, rc), 'T', info)
                    jobj = inner.value_at(I, rc)
                I.ghost['c11.checked'] = I.ghost.get('c11.checked', 0) + 1
                check_values(ex, I, k, jobj, info)
            return I.call_real_function(inv_handler.make_inventory_object,
                                        a, k)
        reg['calls'][id(inv_handler.make_inventory_object)] = mio
        I, ctx, ver, req = common.new_interp(ex, reg)
        common.run(I, wobj, req)
        calls = [e for e in I.events if e[0] == 'call' and e[1] == target]
        if calls and shape == 'map':
            # the list handed to set_inventory holds one record per key of
            # the request's `inventories` object: it was filled, once per
            # iteration and unconditionally, by loops that run over that
            # object (every element's class and values are checked above)
            from pyvc.interp import _ReplayColl
            x, ok = calls[-1][2][1], True
            while isinstance(x, _ReplayColl):
                ok = ok and x.unconditional and x.kind in ('list', 'dict')
                x = x.seq.origin
            ok = ok and x is I.ghost.get('c11.map')
            ex.oblige('C11.T.every_requested_class_handed_over', ok, 'T',
                      dict(info, handed=repr(calls[-1][2][1])[:80]))
        if calls and shape == 'one':
            # the object that reaches the object layer was checked
            ex.oblige('C11.T.inventory_checked_before_write',
                      I.ghost.get('c11.checked', 0) >= 1, 'T', info)
    return script


# --------------------------------------------------------------------------
# update_consumers
def uc_ghost(I):
    g = I.ghost
    if 'c11.rowp' not in g:
        mk = lambda n, s: z3.Const(I.ex.fresh_name(n),
                                   z3.ArraySort(z3.IntSort(), s))
        g['c11.rowp'] = mk('row_project', z3.IntSort())
        g['c11.rowu'] = mk('row_user', z3.IntSort())
        g['c11.rowt'] = mk('row_type', z3.IntSort())
        g['c11.rowtn'] = mk('row_type_null', z3.BoolSort())
    return g


def obj_fields(I, c):
    C = classes.CONSUMER
    p = z3.Select(I.fld(C, 'project'), c)
    u = z3.Select(I.fld(C, 'user'), c)
    return (z3.Select(I.fld('Project', 'id'), p),
            z3.Select(I.fld('User', 'id'), u),
            z3.Select(I.fld(C, 'consumer_type_id'), c),
            z3.Select(I.fld_none(C, 'consumer_type_id'), c))


def row_matches(I, c):
    g = uc_ghost(I)
    pid, uid, t, tn = obj_fields(I, c)
    return z3.And(z3.Select(g['c11.rowp'], c) == pid,
                  z3.Select(g['c11.rowu'], c) == uid,
                  z3.Select(g['c11.rowtn'], c) == tn,
                  z3.Implies(z3.Not(tn), z3.Select(g['c11.rowt'], c) == t))


def update_stub(I, a, k):
    """Consumer.update(): the row takes the object's project, user and type
    (body proof: leaf consumer.update)"""
    g = uc_ghost(I)
    c = a[0].ref
    pid, uid, t, tn = obj_fields(I, c)
    g['c11.rowp'] = z3.Store(g['c11.rowp'], c, pid)
    g['c11.rowu'] = z3.Store(g['c11.rowu'], c, uid)
    g['c11.rowt'] = z3.Store(g['c11.rowt'], c, t)
    g['c11.rowtn'] = z3.Store(g['c11.rowtn'], c, tn)
    I.event('consumer.update', a[0])
    return None


def requested(I, attrs, c):
    C = classes.CONSUMER
    uu = z3.Select(I.fld(C, 'uuid'), c)
    ra = z3.Select(attrs.val, uu)
    return (z3.Select(I.fld('RequestAttr', 'project'), ra),
            z3.Select(I.fld('RequestAttr', 'user'), ra),
            z3.Select(I.fld('RequestAttr', 'consumer_type_id'), ra),
            z3.Select(I.fld_none('RequestAttr', 'consumer_type_id'), ra))


def _type_kept(I, c):
    C = classes.CONSUMER
    t0, n0 = I.ghost['c11.type0']
    tn = z3.Select(I.fld_none(C, 'consumer_type_id'), c)
    return z3.And(tn == z3.Select(n0, c),
                  z3.Implies(z3.Not(tn), z3.Select(
                      I.fld(C, 'consumer_type_id'), c) == z3.Select(t0, c)))


def done(I, attrs, c):
    """consumer c carries what the request asked for, and its row agrees"""
    C = classes.CONSUMER
    rp, ru, rt, rtn = requested(I, attrs, c)
    ext = lambda cls, o: z3.Select(I.fld(cls, 'external_id'), o)
    p = z3.Select(I.fld(C, 'project'), c)
    u = z3.Select(I.fld(C, 'user'), c)
    return z3.And(
        ext('Project', p) == ext('Project', rp),
        ext('User', u) == ext('User', ru),
        z3.Implies(z3.And(z3.Not(rtn), rt != 0), z3.And(
            z3.Not(z3.Select(I.fld_none(C, 'consumer_type_id'), c)),
            z3.Select(I.fld(C, 'consumer_type_id'), c) == rt)),
        # no type in the request (microversion < 1.38): the consumer keeps
        # the type it had
        z3.Implies(z3.Or(rtn, rt == 0), _type_kept(I, c)),
        row_matches(I, c))


def uc_inv(I, frame, i, seq):
    consumers = frame.locals['consumers']
    attrs = frame.locals['request_attrs']
    j = z3.Int('j!uc')
    c = z3.Select(consumers.arr, j)
    return [
        ops.forall([j], z3.Implies(z3.And(j >= 0, j < i), done(I, attrs, c)),
                   patterns=[z3.Select(consumers.arr, j)]),
        ops.forall([j], z3.Implies(z3.And(j >= i, j < consumers.len),
                                   row_matches(I, c)),
                   patterns=[z3.Select(consumers.arr, j)]),
    ]


def script_update_consumers(ex):
    from placement.objects import consumer as consumer_obj
    reg = lib.base_registry()
    reg['fields'].update(classes.FIELDS)
    reg['getattr'] = lib.context_getattr_hook
    reg['calls'][id(consumer_obj.Consumer.update)] = update_stub
    reg['loops'][('update_consumers', 1)] = LoopSpec(
        invariant=uc_inv, name='C11.update_consumers',
        keep=('consumers', 'request_attrs'),
        modifies_fields=(('Consumer', 'project', 'keepnull'),
                         ('Consumer', 'user', 'keepnull'),
                         ('Consumer', 'consumer_type_id')))
    I = Interp(ex, reg)
    I.ghost['ctx'] = lib.CtxStub()
    C = classes.CONSUMER
    consumers = I.fresh_list('consumers', ('obj', C))
    attrs = I.fresh_map('request_attrs', 'str', ('obj', common.RequestAttr))
    I.ghost['c11.type0'] = (I.fld(C, 'consumer_type_id'),
                            I.fld_none(C, 'consumer_type_id'))
    j, j2 = z3.Ints('j!ucpre j2!ucpre')
    c, c2 = z3.Select(consumers.arr, j), z3.Select(consumers.arr, j2)
    nn = lambda cls, f, o: z3.Not(z3.Select(I.fld_none(cls, f), o))
    p = z3.Select(I.fld(C, 'project'), c)
    u = z3.Select(I.fld(C, 'user'), c)
    uu = z3.Select(I.fld(C, 'uuid'), c)
    ra = z3.Select(attrs.val, uu)
    rp = z3.Select(I.fld('RequestAttr', 'project'), ra)
    ru = z3.Select(I.fld('RequestAttr', 'user'), ra)
    inr = z3.And(j >= 0, j < consumers.len)
    ex.hyp(ops.forall([j], z3.Implies(inr, z3.And(
        nn(C, 'uuid', c), nn(C, 'project', c), nn(C, 'user', c),
        nn('Project', 'external_id', p), nn('User', 'external_id', u),
        z3.Select(attrs.dom, uu),
        nn('Project', 'external_id', rp), nn('User', 'external_id', ru),
        row_matches(I, c))), patterns=[z3.Select(consumers.arr, j)]))
    # one entry per consumer of the request: distinct objects, distinct uuids
    ex.hyp(ops.forall([j, j2], z3.Implies(
        z3.And(inr, j2 >= 0, j2 < consumers.len, j != j2),
        z3.And(c != c2, uu != z3.Select(I.fld(C, 'uuid'), c2))),
        patterns=[z3.MultiPattern(z3.Select(consumers.arr, j),
                                  z3.Select(consumers.arr, j2))]))
    try:
        I.call(hutil.update_consumers, [consumers, attrs], {})
    except PyRaise as pr:
        ex.oblige('C11.T.update_consumers.no_raise', False, 'T',
                  {'raised': pr.exc.cls.__name__, 'args': repr(pr.exc.args)})
        return
    ex.oblige('C11.T.update_consumers.every_consumer_as_requested', ops.forall(
        [j], z3.Implies(inr, done(I, attrs, c)),
        patterns=[z3.Select(consumers.arr, j)]), 'T')


def replay_c11(r):
    sys.path.insert(0, os.path.join(runner.VERIF, 'replay'))
    import c11
    return c11.search(r, TIER[0])


TIER = ['quick']


def build(tier, seed):
    chk = runner.Check('C11', tier, seed)
    TIER[0] = tier
    for route, method, wobj in H.routes():
        if (method, route) in INV_OPS:
            chk.script('inventory fields %s %s' % (method, route),
                       make_inv_script(route, method, wobj),
                       common.handler_names(wobj))
    chk.script('update_consumers', script_update_consumers,
               ['placement/handlers/util.py:update_consumers'])
    chk.script('_set_inventory split', script_set_inventory_split,
               ['placement/objects/resource_provider.py:_set_inventory'])
    chk.script('inventory.find', script_find,
               ['placement/objects/inventory.py:find'])
    chk.script('_add_inventory_to_provider', script_add_inventory,
               ['placement/objects/resource_provider.py:_add_inventory_to_provider'])
    chk.script('_update_inventory_for_provider', script_update_inventory,
               ['placement/objects/resource_provider.py:_update_inventory_for_provider'])
    chk.script('_serialize_inventory', script_serialize_inventory,
               ['placement/handlers/inventory.py:_serialize_inventory'])
    chk.script('_serialize_inventories', script_serialize_inventories,
               ['placement/handlers/inventory.py:_serialize_inventories'])
    chk.script('_serialize_provider', script_serialize_provider,
               ['placement/handlers/resource_provider.py:_serialize_provider'])
    chk.script('set_allocations', C01.script_set,
               ['placement/objects/allocation.py:_set_allocations'])
    chk.keep_prefixes = ('C11.', 'C01.set.post.exact', 'C01.set.post.never',
                         'frame.')
    chk.replayer('C11.', replay_c11)
    chk.replayer('C01.', replay_c11)
    chk.fallback('B4.c11.reference_model', lambda: replay_c11(None),
                 'a scripted history (consumer project / user / type changed one at a time and together, allocations moved, inventory fields dropped after having been set) and 12 (quick) / 120 (thorough) random histories of 40 / 60 requests over 3 providers, 3 consumers, 3 classes, 3 traits, 2 aggregates, 2 projects, 2 users, 2 consumer types incl. POST /reshaper, at microversions 1.37-1.39; after every request every read view (provider, inventories, traits, aggregates, usages, allocations per provider and per consumer, usages per project / user / consumer type) is compared with a reference model updated by the documented meaning of the successful writes',
                 always=True)
    chk.assume('A-int', 'A-real', 'A-heap', 'A-lib', 'A-sum', 'A-sql')
    return chk



# --------------------------------------------------------------------------
# object layer: the rows written carry the fields of the Inventory objects
from placement.objects import inventory as inv_obj_mod
from placement.objects import resource_provider as rp_obj_mod
from pyvc.values import sort_of
from pyvc.ghostdb import PAIR

INV = classes.INV
FQ = 'find'


def find_inv(I, frame, i, seq):
    """no record before index i has the class looked for"""
    lst = frame.locals['inventories']
    want = to_term(frame.locals['res_class'], 'str')
    j = z3.Int('j!find')
    return [ops.forall([j], z3.Implies(
        z3.And(j >= 0, j < i),
        z3.Or(z3.Select(I.fld_none(INV, 'resource_class'),
                        z3.Select(lst.arr, j)),
              z3.Select(I.fld(INV, 'resource_class'),
                        z3.Select(lst.arr, j)) != want)),
        patterns=[z3.Select(lst.arr, j)])]


def script_set_inventory_split(ex):
    """_set_inventory hands each helper exactly its share: the classes of the
    request that have no row yet go to _add_inventory_to_provider, those with
    a row to _update_inventory_for_provider, the stored classes the request
    does not name to _delete_inventory_from_provider (each with the request's
    own record list); a helper is skipped only when its share is empty.  With
    the helper body proofs (find / add / update here, the delete in C08) the
    provider is left with exactly the requested records."""
    from pyvc.values import SSet
    reg = lib.base_registry()
    reg['fields'].update(classes.FIELDS)
    reg['getattr'] = lib.context_getattr_hook
    calls = {}

    def rec(name):
        def stub(I, a, k):
            calls.setdefault(name, []).append(a)
            return VList([]) if name == 'update' else None
        return stub
    reg['calls'][id(rp_obj_mod._delete_inventory_from_provider)] = rec('delete')
    reg['calls'][id(rp_obj_mod._add_inventory_to_provider)] = rec('add')
    reg['calls'][id(rp_obj_mod._update_inventory_for_provider)] = rec('update')
    reg['calls'][id(rp_obj_mod.ResourceProvider.increment_generation)] = \
        rec('cas')
    box = {}

    def current(I, a, k):
        box['existing'] = I.fresh_set('existing_resources', 'int')
        return box['existing']
    reg['calls'][id(rp_obj_mod._get_current_inventory_resources)] = current
    I = Interp(ex, reg)
    ctx = I.ghost['ctx'] = lib.CtxStub()
    rp = I.fresh('rp', ('obj', classes.RP))
    lst = I.fresh_list('inv_list', ('obj', INV))
    j = z3.Int('j!split')
    e = z3.Select(lst.arr, j)
    ex.hyp(ops.forall([j], z3.Implies(
        z3.And(j >= 0, j < lst.len),
        z3.Not(z3.Select(I.fld_none(INV, 'resource_class'), e))),
        patterns=[z3.Select(lst.arr, j)]))
    fn = rp_obj_mod._set_inventory
    fn = getattr(fn, '__wrapped__', fn)
    try:
        I.call(fn, [ctx, rp, lst], {})
    except PyRaise as pr:
        if pr.exc.cls.__name__ == 'ResourceClassNotFound':
            return          # an unknown class name: nothing was handed on
        raise Undecided('_set_inventory raised %s' % pr.exc.cls.__name__)
    existing = box['existing']
    x = z3.Int('x!split')
    cid = ctx.rc_cache.f_id
    named = z3.Exists([j], z3.And(
        j >= 0, j < lst.len,
        cid(z3.Select(I.fld(INV, 'resource_class'), e)) == x))
    shares = {'add': z3.And(named, z3.Not(z3.Select(existing.arr, x))),
              'update': z3.And(named, z3.Select(existing.arr, x)),
              'delete': z3.And(z3.Not(named), z3.Select(existing.arr, x))}
    for name, share in sorted(shares.items()):
        got = calls.get(name, [])
        if not got:
            ex.oblige('C11.T.set_inventory.%s_skipped_only_if_nothing_to_%s'
                      % (name, name),
                      ops.forall([x], z3.Not(share)), 'T')
            continue
        a = got[-1]
        ids = a[-1]
        ok = len(got) == 1 and isinstance(ids, SSet) and a[1] is rp and \
            (name == 'delete' or a[2] is lst)
        if not ok:
            ex.oblige('C11.T.set_inventory.%s_gets_its_share' % name, False,
                      'T', {'args': repr(a)[:200]})
            continue
        x0 = I.fresh('x0', 'int').t
        ex.oblige('C11.T.set_inventory.%s_gets_its_share' % name,
                  z3.Select(ids.arr, x0) ==
                  z3.substitute(share, (x, x0)), 'T')
    ex.oblige('C11.T.set_inventory.ends_with_the_generation_check',
              len(calls.get('cas', [])) == 1, 'T')


def script_find(ex):
    reg = lib.base_registry()
    reg['fields'].update(classes.FIELDS)
    reg['loops'][(FQ, 1)] = LoopSpec(invariant=find_inv, name='C11.find',
                                     keep=('inventories', 'res_class'))
    I = Interp(ex, reg)
    lst = I.fresh_list('inventories', ('obj', INV))
    want = I.fresh('res_class', 'str')
    res = I.call(inv_obj_mod.find, [lst, want], {})
    j = z3.Int('j!findpost')
    cls_j = z3.Select(I.fld(INV, 'resource_class'), z3.Select(lst.arr, j))
    nn_j = z3.Not(z3.Select(I.fld_none(INV, 'resource_class'),
                            z3.Select(lst.arr, j)))
    inr = z3.And(j >= 0, j < lst.len)
    if res is None:
        ex.oblige('C11.C.find.none_only_if_absent', ops.forall(
            [j], z3.Implies(inr, z3.Not(z3.And(nn_j, cls_j == want.t))),
            patterns=[z3.Select(lst.arr, j)]), 'C')
        return
    if not isinstance(res, Obj):
        raise Undecided('find returned %r' % (res,))
    ex.oblige('C11.C.find.returns_a_record_of_that_class', z3.And(
        z3.Exists([j], z3.And(inr, z3.Select(lst.arr, j) == res.ref)),
        z3.Not(z3.Select(I.fld_none(INV, 'resource_class'), res.ref)),
        z3.Select(I.fld(INV, 'resource_class'), res.ref) == want.t), 'C')


def find_contract(I, a, k):
    """inventory.find (body proof: script_find): the record of that class in
    the list, or None"""
    lst, want = a[0], a[1]
    if not isinstance(lst, SList):
        raise Undecided('find over %r' % (lst,))
    wt = to_term(want, 'str')
    j = z3.Int('j!findc')
    e = z3.Select(lst.arr, j)
    hit = z3.And(j >= 0, j < lst.len,
                 z3.Not(z3.Select(I.fld_none(INV, 'resource_class'), e)),
                 z3.Select(I.fld(INV, 'resource_class'), e) == wt)
    if I.ex.branch(z3.Bool(I.ex.fresh_name('found'))):
        w = z3.Int(I.ex.fresh_name('find.at'))
        I.ex.assume(z3.substitute(hit, (j, w)))
        return Obj(INV, z3.Select(lst.arr, w))
    I.ex.hyp(ops.forall([j], z3.Not(hit), patterns=[z3.Select(lst.arr, j)]))
    return None


AQ = '_add_inventory_to_provider'
INV_COLS = ('total', 'reserved', 'min_unit', 'max_unit', 'step_size',
            'allocation_ratio')


def _row_is(I, t, key, inv_ref):
    fs = [z3.Select(t.exists, key)]
    for c in INV_COLS:
        fs.append(z3.Select(t.data[c], key) == z3.Select(I.fld(INV, c), inv_ref))
    return z3.And(*fs)


def add_entry(I, frame, seq):
    I.ghost['c11.inv0'] = I.db.tables['inventories']


def add_inv(I, frame, i, seq):
    """the classes enumerated so far have a row carrying the fields of THE
    record of that class; every other row is as before"""
    t0 = I.ghost['c11.inv0']
    t = I.db.tables['inventories']
    rp = frame.locals['rp']
    rid = to_term(I.read_field(rp, 'id'), 'int')
    to_add = seq.origin
    el = I.ghost['c11.el']
    lst = frame.locals['inv_list']
    ps = sort_of(PAIR)
    k = z3.Const('k!add', ps)
    krp, krc = ps.accessor(0, 0)(k), ps.accessor(0, 1)(k)
    done = z3.And(krp == rid, z3.Select(to_add.arr, krc), seq.idx(krc) < i)
    same = z3.And(z3.Select(t.exists, k) == z3.Select(t0.exists, k),
                  *[z3.Select(t.data[c], k) == z3.Select(t0.data[c], k)
                    for c in INV_COLS])
    return [ops.forall([k], z3.If(
        done, _row_is(I, t, k, z3.Select(lst.arr, el(krc))), same),
        patterns=[z3.Select(t.exists, k)])]


def script_add_inventory(ex):
    reg = lib.base_registry()
    reg['fields'].update(classes.FIELDS)
    reg['getattr'] = lib.context_getattr_hook
    reg['calls'][id(inv_obj_mod.find)] = find_contract
    reg['loops'][(AQ, 1)] = LoopSpec(
        invariant=add_inv, on_entry=add_entry, name='C11.add_inventory',
        keep=('ctx', 'rp', 'inv_list', 'to_add'), modifies_db=('inventories',))
    I = Interp(ex, reg)
    I.db = GhostDB(I, 'db')
    for h in I.db.row_invariants():
        ex.hyp(h)
    ctx = lib.CtxStub()
    I.ghost['ctx'] = ctx
    rp = I.fresh('rp', ('obj', classes.RP))
    ex.assume(z3.Not(z3.Select(I.fld_none(classes.RP, 'id'), rp.ref)))
    lst = I.fresh_list('inv_list', ('obj', INV))
    to_add = I.fresh_set('to_add', 'int')
    cache = ctx.rc_cache
    el = z3.Function(ex.fresh_name('record_of'), z3.IntSort(), z3.IntSort())
    I.ghost['c11.el'] = el
    x = z3.Int('x!addpre')
    j, j2 = z3.Ints('j!addpre j2!addpre')
    e = z3.Select(lst.arr, el(x))
    nn = lambda f, o: z3.Not(z3.Select(I.fld_none(INV, f), o))
    # to_add holds known class ids, each with its record in the list (the
    # callers derive to_add from the list); one record per class
    ex.hyp(ops.forall([x], z3.Implies(z3.Select(to_add.arr, x), z3.And(
        cache.known_id(x), el(x) >= 0, el(x) < lst.len,
        nn('resource_class', e),
        z3.Select(I.fld(INV, 'resource_class'), e) == cache.f_str(x),
        nn('total', e))), patterns=[z3.Select(to_add.arr, x)]))
    cj = z3.Select(I.fld(INV, 'resource_class'), z3.Select(lst.arr, j))
    cj2 = z3.Select(I.fld(INV, 'resource_class'), z3.Select(lst.arr, j2))
    ex.hyp(ops.forall([j, j2], z3.Implies(
        z3.And(j >= 0, j < j2, j2 < lst.len), cj != cj2),
        patterns=[z3.MultiPattern(z3.Select(lst.arr, j),
                                  z3.Select(lst.arr, j2))]))
    t0 = I.db.tables['inventories']
    rid = to_term(I.read_field(rp, 'id'), 'int')
    lib.txn_enter(I, 'writer')
    from oslo_db import exception as db_exc
    try:
        I.call(rp_obj_mod._add_inventory_to_provider, [ctx, rp, lst, to_add], {})
    except PyRaise as pr:
        ex.oblige('C11.C.add_inventory.raises.class',
                  issubclass(pr.exc.cls, db_exc.DBDuplicateEntry), 'C',
                  {'raised': pr.exc.cls.__name__, 'args': repr(pr.exc.args)})
        return
    t = I.db.tables['inventories']
    ps = sort_of(PAIR)
    k = z3.Const('k!addpost', ps)
    krp, krc = ps.accessor(0, 0)(k), ps.accessor(0, 1)(k)
    mine = z3.And(krp == rid, z3.Select(to_add.arr, krc))
    ex.oblige('C11.T.add_inventory.rows_carry_the_records', ops.forall(
        [k], z3.Implies(mine, _row_is(I, t, k, z3.Select(lst.arr, el(krc)))),
        patterns=[z3.Select(t.exists, k)]), 'T')
    ex.oblige('C11.T.add_inventory.nothing_else_changes', ops.forall(
        [k], z3.Implies(z3.Not(mine), z3.And(
            z3.Select(t.exists, k) == z3.Select(t0.exists, k),
            *[z3.Select(t.data[c], k) == z3.Select(t0.data[c], k)
              for c in INV_COLS])), patterns=[z3.Select(t.exists, k)]), 'T')


UQ2 = '_update_inventory_for_provider'


class _UsageRow(object):
    """row of the SUM(used) query of _update_inventory_for_provider"""


def usage_select(I, stmt, binds):
    """SELECT sum(allocations.used) AS usage WHERE provider = ?0 AND class =
    ?1: one row; NULL when there is no allocation row (A-sum)"""
    from pyvc import sqltext
    from pyvc.values import Native, BoundMethod
    text, values = sqltext.normal_form(stmt, binds)
    want = ("SELECT sum(allocations.used) AS usage FROM allocations WHERE "
            "allocations.resource_provider_id = ?0 AND "
            "allocations.resource_class_id = ?1")
    I.ex.oblige('C11.sql.update_inventory_usage', text == want, 'A',
                {'built': text})
    if text != want or len(values) != 2:
        raise Undecided('usage SELECT differs from its spec')
    key = sort_of(PAIR).mk(to_term(values[0], 'int'), to_term(values[1], 'int'))
    row = I.alloc(_UsageRow)
    null = z3.Bool(I.ex.fresh_name('usage_null'))
    I.ex.assume(z3.Implies(null, z3.Select(I.db.usage, key) == 0))
    I.write_field(row, 'usage', Sym(z3.Select(I.db.usage, key), 'int', null))

    class _Res(Native):
        def getattr(self_, I_, name):
            if name == 'first':
                class _F(Native):
                    def call(s, I__, a, k):
                        return row
                return BoundMethod(self_, _F())
            raise Undecided('result.%s' % name)
    return _Res()


def upd_entry(I, frame, seq):
    I.ghost['c11.inv0u'] = I.db.tables['inventories']


def upd_inv2(I, frame, i, seq):
    t0 = I.ghost['c11.inv0u']
    t = I.db.tables['inventories']
    rp = frame.locals['rp']
    rid = to_term(I.read_field(rp, 'id'), 'int')
    to_update = seq.origin
    el = I.ghost['c11.el']
    lst = frame.locals['inv_list']
    ps = sort_of(PAIR)
    k = z3.Const('k!upd2', ps)
    krp, krc = ps.accessor(0, 0)(k), ps.accessor(0, 1)(k)
    done = z3.And(krp == rid, z3.Select(to_update.arr, krc),
                  seq.idx(krc) < i)
    same = z3.And(z3.Select(t.exists, k) == z3.Select(t0.exists, k),
                  *[z3.Select(t.data[c], k) == z3.Select(t0.data[c], k)
                    for c in INV_COLS])
    return [ops.forall([k], z3.If(
        done, _row_is(I, t, k, z3.Select(lst.arr, el(krc))), same),
        patterns=[z3.Select(t.exists, k)])]


def script_update_inventory(ex):
    from placement import exception as E
    reg = lib.base_registry()
    reg['fields'].update(classes.FIELDS)
    reg['fields'][('_UsageRow', 'usage')] = __import__('pyvc.interp', fromlist=['FieldSpec']).FieldSpec('int', True)
    reg['getattr'] = lib.context_getattr_hook
    reg['calls'][id(inv_obj_mod.find)] = find_contract
    reg['selects'][UQ2] = usage_select
    reg['loops'][(UQ2, 1)] = LoopSpec(
        invariant=upd_inv2, on_entry=upd_entry, name='C11.update_inventory',
        keep=('ctx', 'rp', 'inv_list', 'to_update'),
        modifies_db=('inventories',))
    reg['havoc_types'] = {(UQ2, 'exceeded'): ('list', ('tuple', ('str', 'str')))}
    I = Interp(ex, reg)
    I.db = GhostDB(I, 'db')
    for h in I.db.row_invariants():
        ex.hyp(h)
    ctx = lib.CtxStub()
    I.ghost['ctx'] = ctx
    rp = I.fresh('rp', ('obj', classes.RP))
    ex.assume(z3.And(
        z3.Not(z3.Select(I.fld_none(classes.RP, 'id'), rp.ref)),
        z3.Not(z3.Select(I.fld_none(classes.RP, 'uuid'), rp.ref))))
    lst = I.fresh_list('inv_list', ('obj', INV))
    to_update = I.fresh_set('to_update', 'int')
    cache = ctx.rc_cache
    el = z3.Function(ex.fresh_name('record_of'), z3.IntSort(), z3.IntSort())
    I.ghost['c11.el'] = el
    x = z3.Int('x!updpre')
    j, j2 = z3.Ints('j!updpre j2!updpre')
    e = z3.Select(lst.arr, el(x))
    nn = lambda f, o: z3.Not(z3.Select(I.fld_none(INV, f), o))
    ex.hyp(ops.forall([x], z3.Implies(z3.Select(to_update.arr, x), z3.And(
        cache.known_id(x), el(x) >= 0, el(x) < lst.len,
        nn('resource_class', e), nn('total', e),
        z3.Select(I.fld(INV, 'resource_class'), e) == cache.f_str(x))),
        patterns=[z3.Select(to_update.arr, x)]))
    cj = z3.Select(I.fld(INV, 'resource_class'), z3.Select(lst.arr, j))
    cj2 = z3.Select(I.fld(INV, 'resource_class'), z3.Select(lst.arr, j2))
    ex.hyp(ops.forall([j, j2], z3.Implies(
        z3.And(j >= 0, j < j2, j2 < lst.len), cj != cj2),
        patterns=[z3.MultiPattern(z3.Select(lst.arr, j),
                                  z3.Select(lst.arr, j2))]))
    t0 = I.db.tables['inventories']
    rid = to_term(I.read_field(rp, 'id'), 'int')
    lib.txn_enter(I, 'writer')
    try:
        I.call(rp_obj_mod._update_inventory_for_provider,
               [ctx, rp, lst, to_update], {})
    except PyRaise as pr:
        ex.oblige('C11.C.update_inventory.raises.class', issubclass(
            pr.exc.cls, E.InventoryWithResourceClassNotFound), 'C',
            {'raised': pr.exc.cls.__name__, 'args': repr(pr.exc.args)})
        return
    t = I.db.tables['inventories']
    ps = sort_of(PAIR)
    k = z3.Const('k!updpost', ps)
    krp, krc = ps.accessor(0, 0)(k), ps.accessor(0, 1)(k)
    mine = z3.And(krp == rid, z3.Select(to_update.arr, krc))
    ex.oblige('C11.T.update_inventory.rows_carry_the_records', ops.forall(
        [k], z3.Implies(mine, _row_is(I, t, k, z3.Select(lst.arr, el(krc)))),
        patterns=[z3.Select(t.exists, k)]), 'T')
    ex.oblige('C11.T.update_inventory.nothing_else_changes', ops.forall(
        [k], z3.Implies(z3.Not(mine), z3.And(
            z3.Select(t.exists, k) == z3.Select(t0.exists, k),
            *[z3.Select(t.data[c], k) == z3.Select(t0.data[c], k)
              for c in INV_COLS])), patterns=[z3.Select(t.exists, k)]), 'T')


# --------------------------------------------------------------------------
# read side: the serialisers report the fields of the objects they are given
def _eq(I, a, b):
    return ops.z3bool(I.truth_term(I._b(I.eq(a, b))))


def script_serialize_inventory(ex):
    reg = H.web_registry()
    I = Interp(ex, reg)
    inv = I.fresh('inventory', ('obj', INV))
    gen = I.fresh('generation', 'int', nullable=True)
    out = I.call(inv_handler._serialize_inventory, [inv, gen], {})
    if not isinstance(out, VDict):
        raise Undecided('_serialize_inventory returned %r' % (out,))
    fields = list(inv_handler.OUTPUT_INVENTORY_FIELDS)
    ex.oblige('C11.T.serialize_inventory.keys',
              set(out.items) - {'resource_provider_generation'} == set(fields),
              'T', {'keys': sorted(out.items)})
    for f in fields:
        if f in out.items:
            ex.oblige('C11.T.serialize_inventory.%s' % f,
                      _eq(I, out.items[f], I.read_field(inv, f)), 'T')
    if 'resource_provider_generation' in out.items:
        ex.oblige('C11.T.serialize_inventory.generation',
                  _eq(I, out.items['resource_provider_generation'], gen), 'T')


def script_serialize_inventories(ex):
    reg = H.web_registry()
    I = Interp(ex, reg)
    lst = I.fresh_list('inventories', ('obj', INV))
    j, j2 = z3.Ints('j!ser j2!ser')
    e = z3.Select(lst.arr, j)
    ex.hyp(ops.forall([j], z3.Implies(
        z3.And(j >= 0, j < lst.len),
        z3.Not(z3.Select(I.fld_none(INV, 'resource_class'), e))),
        patterns=[z3.Select(lst.arr, j)]))
    # one inventory per class on a provider (unique key of the table)
    ex.hyp(ops.forall([j, j2], z3.Implies(
        z3.And(j >= 0, j < j2, j2 < lst.len),
        z3.Select(I.fld(INV, 'resource_class'), e) !=
        z3.Select(I.fld(INV, 'resource_class'), z3.Select(lst.arr, j2))),
        patterns=[z3.MultiPattern(z3.Select(lst.arr, j),
                                  z3.Select(lst.arr, j2))]))
    gen = I.fresh('generation', 'int')
    res = I.call(inv_handler._serialize_inventories, [lst, gen], {})
    if not (isinstance(res, tuple) and isinstance(res[0], VDict)):
        raise Undecided('_serialize_inventories returned %r' % (res,))
    body = res[0]
    ex.oblige('C11.T.serialize_inventories.generation',
              _eq(I, body.items.get('resource_provider_generation'), gen), 'T')
    coll = body.items.get('inventories')
    seq = I.loop_sequence(coll, 'ser') if not hasattr(coll, 'sequence') \
        else coll.sequence(I, 'ser', 'items')
    q = z3.Int(ex.fresh_name('q.ser'))
    ex.assume(z3.And(q >= 0, q < seq.len))
    entry = seq.element(I, q)
    if not (isinstance(entry, tuple) and isinstance(entry[1], VDict)):
        raise Undecided('inventories entry %r' % (entry,))
    key, data = entry
    kt = to_term(key, 'str')
    # the entry under class `key` reports the fields of THE inventory of that
    # class in the list
    w = z3.Int('w!ser')
    ew = z3.Select(lst.arr, w)
    same = [z3.Select(I.fld(INV, 'resource_class'), ew) == kt]
    for f in inv_handler.OUTPUT_INVENTORY_FIELDS:
        if f not in data.items:
            ex.oblige('C11.T.serialize_inventories.field_present', False, 'T',
                      {'field': f})
            return
        v = data.items[f]
        ty = 'real' if f == 'allocation_ratio' else 'int'
        if f == 'resource_class':
            continue
        same.append(to_term(v, ty) == z3.Select(I.fld(INV, f), ew))
    ex.oblige('C11.T.serialize_inventories.entry_reports_its_inventory',
              z3.Exists([w], z3.And(w >= 0, w < lst.len, *same)), 'T')
    j0 = z3.Int('j0!ser')
    qv = z3.Int('qv!ser')
    kq = seq.element(I, qv)
    kq = to_term(kq[0] if isinstance(kq, tuple) else kq, 'str')
    ex.oblige('C11.T.serialize_inventories.every_inventory_reported', z3.Implies(
        z3.And(j0 >= 0, j0 < lst.len),
        z3.Exists([qv], z3.And(qv >= 0, qv < seq.len, kq == z3.Select(
            I.fld(INV, 'resource_class'), z3.Select(lst.arr, j0))))), 'T')


def script_serialize_provider(ex):
    from placement.handlers import resource_provider as rp_handler
    reg = H.web_registry()
    I = Interp(ex, reg)
    ctx = lib.CtxStub()
    I.ghost['ctx'] = ctx
    ver = web.fresh_version(I)
    env = web.EnvironStub(ctx, ver)
    rp = I.fresh('rp', ('obj', classes.RP))
    reg['calls'][id(__import__('placement.util', fromlist=['x'])
                    .resource_provider_url)] = \
        lambda I_, a, k: I_.fresh('url', 'str')
    out = I.call(rp_handler._serialize_provider, [env, rp, ver], {})
    if not isinstance(out, VDict):
        raise Undecided('_serialize_provider returned %r' % (out,))
    for f in ('uuid', 'name', 'generation'):
        ex.oblige('C11.T.serialize_provider.%s' % f,
                  f in out.items and _eq(I, out.items[f], I.read_field(rp, f))
                  if f in out.items else False, 'T')
    tree = 'parent_provider_uuid' in out.items
    ex.oblige('C11.T.serialize_provider.tree_fields_from_1_14', z3.And(
        z3.BoolVal('root_provider_uuid' in out.items) == z3.BoolVal(tree),
        z3.BoolVal(tree) == (ver.minor >= 14)), 'T')
    if tree:
        for f in ('parent_provider_uuid', 'root_provider_uuid'):
            ex.oblige('C11.T.serialize_provider.%s' % f,
                      _eq(I, out.items[f], I.read_field(rp, f)), 'T')


if __name__ == '__main__':
    runner.main(build)
