"""C05 -- a write guarded by a provider generation succeeds only against that
generation."""
import sys
import os
sys.path.insert(0, os.path.dirname(os.path.dirname(os.path.abspath(__file__))))

from pyvc import runner
from contracts import handlers as H
from props import common, gen_scripts, leafs, mutators


def replay_c05(r):
    sys.path.insert(0, os.path.join(runner.VERIF, 'replay'))
    import c05
    return c05.replay({}, getattr(r, 'model', None))


def build(tier, seed, prop='C05', keep=('C05.',)):
    chk = runner.Check(prop, tier, seed)
    ops_ = set(gen_scripts.GUARDED) | set(gen_scripts.DERIVED)
    for route, method, wobj in H.routes():
        if (method, route) in ops_:
            chk.script('%s %s' % (method, route),
                       gen_scripts.provider_script(route, method, wobj),
                       common.handler_names(wobj))
    if prop == 'C05':
        from props import C05_reshaper
        chk.script('POST /reshaper guard', C05_reshaper.script,
                   ['placement/handlers/reshaper.py:reshape'])
    leafs.add(chk, ['cas.provider'])
    mutators.add(chk)
    chk.replayer('C05.', replay_c05)
    chk.fallback('B4.c05.stale_and_races', lambda: replay_c05(None),
                 'every guarded operation x every stale generation sequentially; 8 two/three-request interleavings at transaction granularity (competing guarded write, plus a rename that read the provider earlier)', always=True)
    chk.keep_prefixes = keep + ('leaf.', 'typestate.', 'H.', 'frame.', 'mut.')
    chk.assume('A-txn', 'A-lib', 'A-heap', 'A-nofault', 'A-key')
    return chk


if __name__ == '__main__':
    runner.main(build)
