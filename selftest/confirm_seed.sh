#!/bin/bash
# usage: confirm_seed.sh <dir with patch.diff demo.py meta.json> <seed id>
# Confirms in a scratch worktree: patch applies, baseline passes with it, demo
# exits 1 with it and 0 without it.  On success copies it to /verif/seeded/<id>.
D=$1; ID=$2
WT=$(mktemp -d /tmp/seedconf.XXXXXX)
git -C /repo worktree add --detach "$WT" HEAD >/dev/null 2>&1 || exit 3
res="{}"
( cd "$WT" && /venv/bin/python "$D/demo.py" >/dev/null 2>&1 ); clean=$?
( cd "$WT" && git apply "$D/patch.diff" ) ; ap=$?
"$(dirname "$0")/run_baseline.sh" "$WT" > "$WT/.baseline.out" 2>&1; base=$?
( cd "$WT" && /venv/bin/python "$D/demo.py" > "$WT/.demo.out" 2>&1 ); patched=$?
echo "$ID apply=$ap baseline=$base demo_clean=$clean demo_patched=$patched"
if [ $ap = 0 ] && [ $base = 0 ] && [ $clean = 0 ] && [ $patched = 1 ]; then
  mkdir -p /verif/seeded/$ID
  cp "$D/patch.diff" "$D/demo.py" /verif/seeded/$ID/
  python3 - "$D/meta.json" /verif/seeded/$ID/meta.json "$(tail -1 $WT/.baseline.out)" <<'PY'
import json,sys
m=json.load(open(sys.argv[1]))
m['confirmed_by_main']={'ran':['git apply patch.diff (scratch worktree of /repo HEAD): ok','pinned baseline with patch: '+sys.argv[3],'demo.py on clean tree: exit 0','demo.py with patch: exit 1']}
json.dump(m,open(sys.argv[2],'w'),indent=1)
PY
fi
git -C /repo worktree remove --force "$WT" >/dev/null 2>&1; rm -rf "$WT"
