#!/bin/bash
# usage: run_baseline.sh <tree>  -- runs the pinned suite in that tree and reports
# which of the stable-pass tests of /root/.vp/BASELINE.json no longer pass
cd "$1" || exit 2
out=$(mktemp /tmp/junit.XXXXXX.xml)
/venv/bin/python -m pytest -ra -q -p no:cacheprovider --timeout=900 --continue-on-collection-errors --junitxml=$out >/dev/null 2>&1
/venv/bin/python - "$out" <<'PY'
import sys, json, xml.etree.ElementTree as ET
t=ET.parse(sys.argv[1]); ok=set()
for tc in t.iter('testcase'):
    if not any(c.tag in ('failure','error','skipped') for c in tc):
        ok.add(tc.get('classname')+'::'+tc.get('name'))
want=json.load(open('/root/.vp/BASELINE.json'))['stable_pass']
missing=[w for w in want if w not in ok]
print('baseline tests passing: %d/%d'%(len(want)-len(missing),len(want)))
for m in missing: print('NOT PASSING:',m)
sys.exit(1 if missing else 0)
PY
rc=$?; rm -f $out; exit $rc
