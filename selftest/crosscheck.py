"""CPython cross-check of the symbolic executor: on CONCRETE inputs the
outcome CPython computes for the real function (return value, or class of the
exception raised) must be AMONG the outcomes the interpreter explores
(library stubs such as is_uuid_like answer symbolically even for concrete
arguments, so the interpreter may explore more than one outcome: an
over-approximation, never a miss).  Run: .venv/bin/python
selftest/crosscheck.py"""
import os
import sys
sys.path.insert(0, os.path.dirname(os.path.dirname(os.path.abspath(__file__))))
sys.path.insert(0, os.path.join(os.path.dirname(os.path.dirname(
    os.path.abspath(__file__))), 'props'))

from pyvc.core import Explorer
from pyvc.interp import Interp, PyRaise
from pyvc.values import VList, VDict, VSet
from contracts import handlers as H
from props import common
from placement import util as putil

STRINGS = ['VCPU:1', 'VCPU:1,MEMORY_MB:512', 'VCPU', 'VCPU:', ':1', 'VCPU:abc',
           'VCPU:0', 'VCPU:-3', 'VCPU:1:2', '', ' ', 'VCPU:1,', 'A:1,A:2',
           'in:a,b', 'a', '!a', '!in:a,b', 'in:', '!', 'in:a,,b', 'a,b',
           '!in:', 'in:!a', 'x' * 40, 'a b', 'in: a,b ']
FUNCS = [putil.normalize_resources_qs_param, putil.normalize_member_of_qs_param,
         putil.normalize_in_tree_qs_params]


def unlift(v):
    if isinstance(v, VList):
        return [unlift(x) for x in v.items]
    if isinstance(v, VDict):
        return {k: unlift(x) for k, x in v.items.items()}
    if isinstance(v, VSet):
        return set(v.items)
    if isinstance(v, tuple):
        return tuple(unlift(x) for x in v)
    return v


def real(fn, arg):
    try:
        return ('return', fn(arg))
    except Exception as e:
        return ('raise', type(e).__name__)


def symbolic(fn, arg):
    out = []

    def script(ex):
        reg = common.full_registry()
        for f in FUNCS:
            reg['calls'].pop(id(f), None)
        I = Interp(ex, reg)
        try:
            out.append(('return', unlift(I.call(fn, [arg], {}))))
        except PyRaise as pr:
            out.append(('raise', pr.exc.cls.__name__))
    ex = Explorer()
    ex.explore(script)
    return out


def main():
    bad = 0
    over = 0
    n = 0
    for fn in FUNCS:
        for s in STRINGS:
            n += 1
            want = real(fn, s)
            got = symbolic(fn, s)
            if len(got) > 1:
                over += 1
            if want not in got:
                bad += 1
                print('MISS %s(%r): CPython %r, interpreter %r'
                      % (fn.__name__, s, want, got))
    print('%d concrete runs compared, %d misses, %d over-approximated'
          % (n, bad, over))
    return 1 if bad else 0


if __name__ == '__main__':
    sys.exit(main())
