#!/bin/bash
# usage: matrix.sh [out.tsv]  -- every seeded change and every revert-of-fix
# mutant against the check of its own property (scratch worktrees only)
cd "$(dirname "$0")/.."
OUT=${1:-selftest/matrix.tsv}
: > "$OUT.tmp"
jobs_file=$(mktemp)
for d in seeded/*/; do
  id=$(basename "$d"); prop=${id:0:3}
  [ -f "props/$prop.py" ] && echo "$d/patch.diff $prop $id" >> "$jobs_file"
done
while read -r m prop; do
  echo "selftest/mutants/$m $prop mutant:${m%.diff}" >> "$jobs_file"
done <<'EOM'
revert_23cbbde.diff C04
revert_23cbbde.diff C12
revert_c355594.diff C05
revert_3320c3c.diff C15
revert_677ec99.diff C15
revert_dd505a5.diff C06
revert_9ba7ec1.diff C06
revert_7746f36.diff C12
revert_cf6c9bd.diff C02
revert_e45de5a.diff C19
revert_5d46fd1.diff C19
revert_cdf4a1e.diff C13
revert_4a4d402.diff C13
revert_095947f.diff C15
revert_e063a90.diff C15
revert_6e180d2.diff C15
c11_add_inventory_swaps_units.diff C11
c02_capacity_reserved_after_ratio.diff C02
c02_request_drops_unit_amounts.diff C02
c02_request_maps_root.diff C02
c02_single_copy_drops_request.diff C02
c02_single_wrong_summary.diff C02
c02_copy_loses_mappings.diff C02
c02_consolidate_mappings_first_only.diff C02
c13_skip_forbidden_when_member_of.diff C13
c12_put_cleanup_or.diff C12
c12_post_skips_write.diff C12
c16_deploy_noauth_flipped.diff C16
c11_update_consumers_type_or.diff C11
c11_set_inventory_drops_add.diff C11
c02_summaries_inverted_early_return.diff C02
c05_reshaper_guard_one_sided.diff C05
c05_reshaper_drops_empty_inventory.diff C05
EOM
run_one() {
  patch=$1; prop=$2; id=$3
  out=$(timeout 2400 selftest/run_on_patch.sh "$patch" "$prop" quick 2>&1)
  rc=$?
  viol=$(echo "$out" | grep -c "^VIOLATION")
  how=$(echo "$out" | grep "^VIOLATION" | sed 's/.*replay=[^ ]*\/[A-Z0-9]*-//; s/\.json.*//' | sort -u | head -3 | tr '\n' ',')
  nf=$(echo "$out" | grep "^VIOLATION" | grep -c "no-failing-input-found")
  echo -e "$id\t$prop\texit=$rc\tviolations=$viol\twithout_input=$nf\t$how"
}
export -f run_one
cat "$jobs_file" | xargs -P 3 -L 1 bash -c 'run_one "$0" "$1" "$2"' >> "$OUT.tmp"
sort "$OUT.tmp" > "$OUT"; rm -f "$OUT.tmp" "$jobs_file"
