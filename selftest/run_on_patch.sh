#!/bin/bash
# usage: run_on_patch.sh <patch.diff> <prop> [tier]
# Applies a patch to a scratch worktree of /repo (never to /repo itself), runs
# the property check against that tree, removes the worktree.
set -u
PATCH=$(readlink -f "$1"); PROP=$2; TIER=${3:-quick}
V=$(cd "$(dirname "$0")/.." && pwd)
WT=$(mktemp -d /tmp/pyvc_mut.XXXXXX)
git -C /repo worktree add --detach "$WT" HEAD >/dev/null 2>&1 || exit 3
( cd "$WT" && git apply "$PATCH" ) || { echo "patch does not apply"; git -C /repo worktree remove --force "$WT"; exit 3; }
out=$(cd "$V" && PYTHONPATH="$WT" PYVC_REPO="$WT" VERIF_EVIDENCE_DIR="$WT/.evidence" .venv/bin/python props/$PROP.py --tier $TIER 2>&1)
rc=$?
echo "$out" | grep -v "^WARNING"
git -C /repo worktree remove --force "$WT" >/dev/null 2>&1
rm -rf "$WT"
exit $rc
