#!/bin/bash
# usage: replay_on_patch.sh <patch> <replay module> [args]
PATCH=$(readlink -f "$1"); MOD=$2; shift 2
WT=$(mktemp -d /tmp/pyvc_mut.XXXXXX)
git -C /repo worktree add --detach "$WT" HEAD >/dev/null 2>&1 || exit 3
( cd "$WT" && git apply "$PATCH" ) || { git -C /repo worktree remove --force "$WT"; exit 3; }
( cd /verif && PYTHONPATH="$WT" PYVC_REPO="$WT" .venv/bin/python replay/$MOD.py "$@" 2>&1 | grep -v "^WARNING" | tail -25 )
git -C /repo worktree remove --force "$WT" >/dev/null 2>&1; rm -rf "$WT"
