#!/usr/bin/env python3
"""Mutation self-test of the *proofs alone* (bounded stand-ins and replays
switched off with PYVC_PROOF_ONLY=1): small AST mutations of one real
function, each applied in a scratch worktree, the property's check run on it.

usage: mutate.py <repo file> <qualified function> <prop> [max] [seed]
prints one line per mutant: <line>:<what> -> killed(exit) | SURVIVED
"""
import ast
import copy
import os
import random
import subprocess
import sys
import tempfile

V = os.path.dirname(os.path.dirname(os.path.abspath(__file__)))
CMP = {ast.Lt: ast.LtE, ast.LtE: ast.Lt, ast.Gt: ast.GtE, ast.GtE: ast.Gt,
       ast.Eq: ast.NotEq, ast.NotEq: ast.Eq, ast.In: ast.NotIn,
       ast.NotIn: ast.In, ast.Is: ast.IsNot, ast.IsNot: ast.Is}
ARI = {ast.Add: ast.Sub, ast.Sub: ast.Add, ast.Mult: ast.FloorDiv,
       ast.Mod: ast.Mult}


def find(tree, qual):
    parts = qual.split('.')
    node = tree
    for p in parts:
        node = [n for n in ast.walk(node) if isinstance(
            n, (ast.FunctionDef, ast.ClassDef)) and n.name == p and n is not node][0]
    return node


def sites(fn):
    out = []
    for n in ast.walk(fn):
        if isinstance(n, ast.Compare) and len(n.ops) == 1 and type(n.ops[0]) in CMP:
            out.append(('cmp', n))
        elif isinstance(n, ast.BoolOp):
            out.append(('bool', n))
        elif isinstance(n, ast.BinOp) and type(n.op) in ARI:
            out.append(('ari', n))
        elif isinstance(n, ast.UnaryOp) and isinstance(n.op, ast.Not):
            out.append(('not', n))
        elif isinstance(n, ast.Constant) and isinstance(n.value, int) and \
                not isinstance(n.value, bool):
            out.append(('const', n))
        elif isinstance(n, (ast.AugAssign, ast.Expr, ast.Continue, ast.Raise)) and \
                not (isinstance(n, ast.Expr) and isinstance(n.value, ast.Constant)):
            out.append(('del', n))
    return out


def mutate(tree, fn, idx):
    t2 = copy.deepcopy(tree)
    fn2 = find(t2, QUAL)
    kind, n = sites(fn2)[idx]
    what = '%s %s' % (kind, ast.unparse(n)[:60].replace('\n', ' '))
    line = n.lineno
    if kind == 'cmp':
        n.ops = [CMP[type(n.ops[0])]()]
    elif kind == 'bool':
        n.op = ast.Or() if isinstance(n.op, ast.And) else ast.And()
    elif kind == 'ari':
        n.op = ARI[type(n.op)]()
    elif kind == 'not':
        new = n.operand
        for parent in ast.walk(fn2):
            for f, v in ast.iter_fields(parent):
                if v is n:
                    setattr(parent, f, new)
                elif isinstance(v, list) and n in v:
                    v[v.index(n)] = new
    elif kind == 'const':
        n.value = n.value + 1
    elif kind == 'del':
        for parent in ast.walk(fn2):
            for f, v in ast.iter_fields(parent):
                if isinstance(v, list) and n in v:
                    v[v.index(n)] = ast.copy_location(ast.Pass(), n)
    return fn2, line, what


def main():
    global QUAL
    path, QUAL, prop = sys.argv[1:4]
    mx = int(sys.argv[4]) if len(sys.argv) > 4 else 12
    rnd = random.Random(int(sys.argv[5]) if len(sys.argv) > 5 else 0)
    src = open(os.path.join('/repo', path)).read()
    tree = ast.parse(src)
    fn = find(tree, QUAL)
    n = len(sites(fn))
    idxs = list(range(n))
    rnd.shuffle(idxs)
    lines = src.splitlines(keepends=True)
    start = (fn.decorator_list[0].lineno if fn.decorator_list else fn.lineno) - 1
    end = fn.end_lineno
    indent = ' ' * fn.col_offset
    for idx in idxs[:mx]:
        fn2, line, what = mutate(tree, fn, idx)
        body = ''.join(indent + l + '\n' for l in ast.unparse(fn2).splitlines())
        new_src = ''.join(lines[:start]) + body + ''.join(lines[end:])
        wt = tempfile.mkdtemp(prefix='pyvc_mut.', dir='/tmp')
        subprocess.run(['git', '-C', '/repo', 'worktree', 'add', '--detach',
                        wt, 'HEAD'], capture_output=True)
        try:
            open(os.path.join(wt, path), 'w').write(new_src)
            env = dict(os.environ, PYTHONPATH=wt, PYVC_REPO=wt,
                       VERIF_EVIDENCE_DIR=os.path.join(wt, '.evidence'),
                       PYVC_PROOF_ONLY='1')
            r = subprocess.run([os.path.join(V, '.venv/bin/python'),
                                os.path.join(V, 'props', prop + '.py'),
                                '--tier', 'quick'], cwd=V, env=env,
                               capture_output=True, text=True, timeout=2400)
            rc = r.returncode
            why = [l for l in r.stdout.splitlines()
                   if l.startswith(('VIOLATION', 'UNDECIDED', 'FAILED', 'UNKNOWN'))]
            tag = 'SURVIVED' if rc == 0 else 'killed(%d) %s' % (
                rc, (why[0][:110] if why else ''))
            print('%s:%d %-70s -> %s' % (QUAL, line, what, tag), flush=True)
        finally:
            subprocess.run(['git', '-C', '/repo', 'worktree', 'remove',
                            '--force', wt], capture_output=True)
            subprocess.run(['rm', '-rf', wt])


if __name__ == '__main__':
    main()
