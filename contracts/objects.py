"""Sidecar: contracts of the object layer as seen by the HTTP handlers.

Every entry names a real function, its transaction signature (sequence of
top-level transactions it opens: 'R' reader, 'W' writer), the tables a
writer may change, the exception classes it may raise and the shape of its
result.  On every run two mechanical cross-checks tie the table to the code
(props/common.py:contract_crosschecks):
  * raises  >= the statically derived raise set of the real body;
  * txns    == the decorator-derived transaction signature of the real body.
Semantic clauses (generation compare-and-swap, consumer rows) are attached
where a property needs them; those are proved against the bodies by the
C-level scripts of C05/C06/C10.
"""
import z3
import webob.exc

from oslo_db import exception as db_exc

from pyvc.core import Undecided
from pyvc.values import (Sym, Obj, VList, VDict, SList, SSet, SMap, Native,
                         BoundMethod, ExcVal, Opaque, StrSort, sort_of)
from pyvc.interp import PyRaise
from pyvc import ops
from pyvc.ops import to_term, from_term
from contracts import lib, classes

from placement import exception as E
from placement.objects import allocation as alloc_obj
from placement.objects import allocation_candidate as ac_obj
from placement.objects import consumer as consumer_obj
from placement.objects import consumer_type as ct_obj
from placement.objects import inventory as inv_obj
from placement.objects import project as project_obj
from placement.objects import reshaper as reshaper_obj
from placement.objects import resource_class as rc_obj
from placement.objects import resource_provider as rp_obj
from placement.objects import trait as trait_obj
from placement.objects import usage as usage_obj
from placement.objects import user as user_obj

RP = rp_obj.ResourceProvider
CORE = ('resource_providers', 'inventories', 'allocations', 'consumers',
        'resource_provider_traits', 'resource_provider_aggregates')
AUX = ('projects', 'users', 'consumer_types', 'placement_aggregates',
       'traits', 'resource_classes')


class Contract(object):
    def __init__(self, target, name, txns, raises=(), writes=(), result=None,
                 model=None, method_of=None, excluded=None, guards=None,
                 writes_by_txn=None):
        # writes_by_txn: for several consecutive transactions, the tables
        # each of them writes (default: every transaction all of `writes`)
        self.writes_by_txn = writes_by_txn
        # guards: {exception class: fn(I, args, kwargs) -> z3 Bool / bool}:
        # the class can be raised only when the condition holds
        self.guards = dict(guards or {})
        # excluded: {exception class: reason} -- classes the static analysis
        # derives for the body but that cannot occur, with the invariant that
        # rules them out (reported as assumptions)
        self.excluded = dict(excluded or {})
        self.target = target
        self.name = name
        self.txns = txns
        self.raises = tuple(raises)
        self.writes = tuple(writes)
        self.result = result
        self.model = model
        self.method_of = method_of

    def __call__(self, I, args, kwargs):
        if args and isinstance(args[0], type):
            args = list(args[1:])          # classmethod: drop cls
        I.event('call', self.name, tuple(args), dict(kwargs))
        hook = I.registry.get('contract_pre')
        if hook is not None:
            hook(I, self, args, kwargs)
        # which way out: 0 = normal, k = k-th declared exception
        which = I.ex.choose(len(self.raises) + 1, tag=self.name) \
            if self.raises else 0
        result = None
        for ti, mode in enumerate(self.txns):
            last = ti == len(self.txns) - 1
            lib.txn_enter(I, 'writer' if mode == 'W' else 'reader')
            try:
                if mode == 'W':
                    t = lib.current_txn(I)
                    for tb in (self.writes_by_txn[ti] if self.writes_by_txn
                               else self.writes):
                        I.db.writes.append((tb, 'contract:' + self.name, ()))
                        I.event('db.write', tb, 'contract:' + self.name,
                                t['id'] if t else None)
                if last:
                    if which and self.raises[which - 1] in self.guards:
                        g = self.guards[self.raises[which - 1]](I, args, kwargs)
                        I.ex.assume(g if not isinstance(g, bool) else z3.BoolVal(g))
                    if which:
                        exc = ExcVal(self.raises[which - 1], (),
                                     lib.exc_fields(self.raises[which - 1], (),
                                                    {'_tables': self.writes[:1]}
                                                    if issubclass(self.raises[which - 1], db_exc.DBDuplicateEntry) else {}))
                        if self.model is not None:
                            self.model(I, self, args, kwargs, exc)
                        I.event('contract.raised', self.name, exc.cls)
                        raise PyRaise(exc)
                    if self.model is not None:
                        result = self.model(I, self, args, kwargs, None)
                    elif mode == 'W' and self.writes:
                        I.db.havoc([w for w in self.writes])
            except PyRaise as pr:
                lib.txn_exit(I, pr.exc)
                raise
            lib.txn_exit(I, None)
        if not self.txns:
            t = lib.current_txn(I)
            for tb in self.writes:
                I.db.writes.append((tb, 'contract:' + self.name, ()))
                I.event('db.write', tb, 'contract:' + self.name,
                        t['id'] if t else None)
            if which and self.raises[which - 1] in self.guards:
                g = self.guards[self.raises[which - 1]](I, args, kwargs)
                I.ex.assume(g if not isinstance(g, bool) else z3.BoolVal(g))
            if which:
                raise PyRaise(ExcVal(self.raises[which - 1], (),
                                     lib.exc_fields(self.raises[which - 1], (), {})))
            if self.model is not None:
                result = self.model(I, self, args, kwargs, None)
        if result is None and self.result is not None:
            result = self.result(I, args, kwargs)
        I.event('return', self.name)
        return result


# --------------------------------------------------------------------------
# result constructors

def new_obj(cls, **fields):
    def mk(I, args, kwargs):
        o = I.alloc(cls)
        for f, ty in fields.items():
            nullable = ty.endswith('?')
            I.write_field(o, f, I.fresh('%s.%s' % (cls.__name__, f),
                                        ty.rstrip('?'), nullable=nullable))
        return o
    return mk


def obj_list(cls):
    def mk(I, args, kwargs):
        return I.fresh_list(cls.__name__ + 's', ('obj', cls))
    return mk


def provider_from_db(I, uuid_term=None):
    """A ResourceProvider object loaded from the ghost database."""
    db = I.db
    t = db.tables['resource_providers']
    rid = z3.Int(I.ex.fresh_name('rp.id'))
    I.ex.assume(z3.And(rid > 0, z3.Select(t.exists, rid)))
    if uuid_term is not None:
        I.ex.assume(z3.Select(t.data['uuid'], rid) == uuid_term)
    o = I.alloc(RP)
    I.write_field(o, 'id', Sym(rid, 'int'))
    I.write_field(o, 'uuid', Sym(z3.Select(t.data['uuid'], rid), 'str'))
    I.write_field(o, 'generation',
                  Sym(z3.Select(t.data['generation'], rid), 'int'))
    I.write_field(o, 'name', I.fresh('rp.name', 'str'))
    I.write_field(o, 'parent_provider_uuid',
                  I.fresh('rp.parent', 'str', nullable=True))
    I.write_field(o, 'root_provider_uuid', I.fresh('rp.root', 'str'))
    I.event('read.provider', o, rid, z3.Select(t.data['generation'], rid))
    return o


def m_get_provider(I, c, args, kwargs, exc):
    if exc is not None:
        return None
    uuid = args[1] if len(args) > 1 else kwargs.get('uuid')
    return provider_from_db(I, to_term(uuid, 'str'))


def cas_provider(I, rp):
    """ResourceProvider.increment_generation (contract proved against the
    body in C05.cas.rp): the row must carry the object's generation."""
    db = I.db
    t = db.tables['resource_providers']
    rid = to_term(I.read_field(rp, 'id'), 'int')
    g = to_term(I.read_field(rp, 'generation'), 'int')
    ok = z3.And(z3.Select(t.exists, rid),
                z3.Select(t.data['generation'], rid) == g)
    txn = lib.current_txn(I)
    I.event('cas.provider', rp, rid, g, ok, txn['id'] if txn else None)
    return rid, g, ok


def m_provider_mutator(tables, conflict=E.ResourceProviderConcurrentUpdateDetected,
                       always_bumps=True, rp_arg=0):
    """Model of set_inventory / add_inventory / update_inventory /
    delete_inventory / set_traits / set_aggregates: generation CAS on the
    provider inside the writer transaction."""
    def model(I, c, args, kwargs, exc):
        rp = args[rp_arg]
        db = I.db
        t = db.tables['resource_providers']
        bump = True
        if c.name == 'ResourceProvider.set_aggregates':
            inc = kwargs.get('increment_generation',
                             args[2] if len(args) > 2 else False)
            bump = I.truth(inc)
        if c.name == 'ResourceProvider.set_traits':
            bump = I.ex.branch(z3.Bool(I.ex.fresh_name('traits_changed')))
        if not bump:
            if exc is not None and issubclass(exc.cls, conflict):
                raise Undecided.__new__(Undecided)   # infeasible combination
            if exc is None:
                if c.name == 'ResourceProvider.set_traits':
                    # nothing to add or remove: _set_traits returns without
                    # writing (mut._set_traits.bumps_iff: bumps iff it wrote)
                    txn = lib.current_txn(I)
                    I.event('mutator.nochange', c.name,
                            txn['id'] if txn else None)
                else:
                    db.havoc(tables)
            return None
        rid, g, ok = cas_provider(I, rp)
        if exc is not None:
            if issubclass(exc.cls, conflict):
                I.ex.assume(z3.Not(ok))
            return None
        I.ex.assume(ok)
        db.havoc(tables)
        nt = db.tables['resource_providers'].clone()
        nt.data['generation'] = z3.Store(t.data['generation'], rid, g + 1)
        db.tables['resource_providers'] = nt
        I.write_field(rp, 'generation', Sym(g + 1, 'int'))
        return None

    def wrapped(I, c, args, kwargs, exc):
        try:
            return model(I, c, args, kwargs, exc)
        except Undecided:
            from pyvc.core import Infeasible
            raise Infeasible()
    return wrapped


def m_assign_id(I, c, args, kwargs, exc):
    if exc is None:
        if c.writes:
            I.db.havoc(list(c.writes))
        I.write_field(args[0], 'id', I.fresh('new.id', 'int'))
        if I.field_spec(args[0].cls, 'created_at'):
            I.write_field(args[0], 'created_at', I.fresh('created_at', 'str'))


def m_rp_create(I, c, args, kwargs, exc):
    """ResourceProvider.create: ObjectActionError for a missing / self /
    unknown parent (and for objects with an id); else a fresh row."""
    if exc is None:
        I.db.havoc(['resource_providers'])
        o = args[0]
        I.write_field(o, 'id', I.fresh('rp.id', 'int'))
        I.write_field(o, 'generation', 0)
        I.write_field(o, 'root_provider_uuid', I.fresh('rp.root', 'str'))


def g_rc_create_oae(I, args, kwargs):
    """ResourceClass.create: ObjectActionError when it has an id, lacks a name
    or the name is not in the CUSTOM_ namespace."""
    o = args[0]
    idn = ops.z3bool(ops.none_flag(I.read_field(o, 'id')))
    name = I.read_field(o, 'name')
    nt = to_term(name, 'str')
    return z3.Or(z3.Not(idn), z3.Not(ops.z3bool(I.truth_term(name))),
                 z3.Not(z3.Function('custom_prefixed', StrSort,
                                    z3.BoolSort())(nt)))


def alloc_list_model(I, c, args, kwargs, exc):
    """Allocation lists loaded from the database: every element has a
    consumer with project and user, and a provider."""
    if exc is not None:
        return None
    lst = I.fresh_list('allocations', ('obj', alloc_obj.Allocation))
    j = z3.Int('j!allocs')
    a = z3.Select(lst.arr, j)
    cons = z3.Select(I.fld(alloc_obj.Allocation, 'consumer'), a)
    facts = [
        z3.Not(z3.Select(I.fld_none(CONSUMER, 'project'), cons)),
        z3.Not(z3.Select(I.fld_none(CONSUMER, 'user'), cons)),
        z3.Not(z3.Select(I.fld_none(CONSUMER, 'generation'), cons)),
        z3.Select(I.fld(alloc_obj.Allocation, 'used'), a) >= 1,
    ]
    I.ex.hyp(ops.forall([j], z3.Implies(z3.And(j >= 0, j < lst.len),
                                        z3.And(*facts)),
                        patterns=[z3.Select(lst.arr, j)]))
    if c.name == 'alloc_obj.get_all_by_consumer_id':
        # I_ref (C08): allocations refer to a recorded consumer, so a consumer
        # whose record this request has just inserted has none
        uuid = to_term(args[1], 'str')
        for e in I.events:
            if e[0] == 'created.consumer':
                I.ex.assume(z3.Implies(e[3] == uuid, lst.len == 0))
    I.event('read.allocations', c.name, lst, tuple(args))
    return lst


def m_opaque_list(cls):
    def model(I, c, args, kwargs, exc):
        if exc is None:
            return I.fresh_list(cls.__name__, ('obj', cls))
    return model


def g_id_set(I, args, kwargs):
    """create(): ObjectActionError only when the object already has an id or
    lacks a name."""
    o = args[0]
    idn = ops.z3bool(ops.none_flag(I.read_field(o, 'id')))
    name = I.read_field(o, 'name') if I.field_spec(o.cls, 'name') else None
    if name is None:
        return z3.Not(idn)
    return z3.Or(z3.Not(idn), z3.Not(ops.z3bool(I.truth_term(name))))


def g_id_unset(I, args, kwargs):
    """destroy() / save(): ObjectActionError only without an id."""
    o = args[0]
    return ops.z3bool(ops.none_flag(I.read_field(o, 'id')))


def g_never(I, args, kwargs):
    return False


def g_nonempty_list(pos):
    def g(I, args, kwargs):
        v = args[pos]
        return ops.z3bool(I.truth_term(v))
    return g


def table():
    """The contract table (built lazily: real objects are resolved here)."""
    C = Contract
    inv_raises = (E.ResourceProviderConcurrentUpdateDetected,
                  E.ConcurrentUpdateDetected, E.ResourceClassNotFound)
    # NB: a class listed here is one the *handler* must be prepared for
    out = [
        C(RP.get_by_uuid, 'ResourceProvider.get_by_uuid', 'RR',
          raises=(E.NotFound,), model=m_get_provider),
        C(RP.set_inventory, 'ResourceProvider.set_inventory', 'W',
          raises=inv_raises + (E.InventoryInUse,
                               E.InventoryWithResourceClassNotFound,
                               db_exc.DBDuplicateEntry),
          writes=('inventories', 'resource_providers'),
          guards={db_exc.DBDuplicateEntry: g_never},
          model=m_provider_mutator(('inventories',))),
        C(RP.add_inventory, 'ResourceProvider.add_inventory', 'W',
          raises=inv_raises + (db_exc.DBDuplicateEntry,),
          writes=('inventories', 'resource_providers'),
          model=m_provider_mutator(('inventories',))),
        C(RP.update_inventory, 'ResourceProvider.update_inventory', 'W',
          raises=inv_raises + (E.InventoryWithResourceClassNotFound,),
          writes=('inventories', 'resource_providers'),
          model=m_provider_mutator(('inventories',))),
        C(RP.delete_inventory, 'ResourceProvider.delete_inventory', 'W',
          raises=inv_raises + (E.InventoryInUse, E.NotFound),
          writes=('inventories', 'resource_providers'),
          model=m_provider_mutator(('inventories',))),
        C(RP.set_traits, 'ResourceProvider.set_traits', 'W',
          raises=(E.ResourceProviderConcurrentUpdateDetected,
                  E.ConcurrentUpdateDetected),
          writes=('resource_provider_traits', 'resource_providers'),
          model=m_provider_mutator(('resource_provider_traits',))),
        C(RP.set_aggregates, 'ResourceProvider.set_aggregates', 'W',
          raises=(E.ResourceProviderConcurrentUpdateDetected,
                  E.ConcurrentUpdateDetected, db_exc.DBDuplicateEntry),
          writes=('resource_provider_aggregates', 'placement_aggregates',
                  'resource_providers'),
          model=m_provider_mutator(('resource_provider_aggregates',
                                    'placement_aggregates'))),
        C(RP.get_aggregates, 'ResourceProvider.get_aggregates', 'R',
          result=lambda I, a, k: I.fresh_list('aggregate_uuids', 'str')),
        C(RP.create, 'ResourceProvider.create', 'W',
          raises=(E.ObjectActionError, db_exc.DBDuplicateEntry),
          writes=('resource_providers',), model=m_rp_create),
        C(RP.save, 'ResourceProvider.save', 'W',
          raises=(E.ObjectActionError, db_exc.DBDuplicateEntry),
          writes=('resource_providers',)),
        C(RP.destroy, 'ResourceProvider.destroy', 'W',
          raises=(E.CannotDeleteParentResourceProvider,
                  E.ResourceProviderInUse, E.NotFound),
          writes=('resource_providers', 'inventories',
                  'resource_provider_traits', 'resource_provider_aggregates')),
        C(rp_obj.get_all_by_filters, 'rp_obj.get_all_by_filters', 'R',
          raises=(E.ResourceClassNotFound, E.TraitNotFound),
          model=m_opaque_list(RP)),
        C(inv_obj.get_all_by_resource_provider,
          'inv_obj.get_all_by_resource_provider', 'R',
          model=m_opaque_list(inv_obj.Inventory)),
        C(alloc_obj.get_all_by_resource_provider,
          'alloc_obj.get_all_by_resource_provider', 'R',
          model=alloc_list_model),
        C(trait_obj.Trait.get_by_name, 'Trait.get_by_name', 'R',
          raises=(E.TraitNotFound,),
          result=new_obj(trait_obj.Trait, id='int', name='str')),
        C(trait_obj.Trait.create, 'Trait.create', 'W',
          raises=(E.ObjectActionError, E.TraitExists), writes=('traits',),
          guards={E.ObjectActionError: g_id_set}, model=m_assign_id),
        C(trait_obj.Trait.destroy, 'Trait.destroy', 'W',
          raises=(E.ObjectActionError, E.TraitCannotDeleteStandard,
                  E.TraitInUse, E.TraitNotFound), writes=('traits',),
          guards={E.ObjectActionError: g_id_unset}),
        C(trait_obj.get_all, 'trait_obj.get_all', 'R',
          model=m_opaque_list(trait_obj.Trait)),
        C(trait_obj.get_all_by_resource_provider,
          'trait_obj.get_all_by_resource_provider', 'R',
          model=m_opaque_list(trait_obj.Trait)),
        C(rc_obj.ResourceClass.get_by_name, 'ResourceClass.get_by_name', '',
          raises=(E.ResourceClassNotFound,),
          result=new_obj(rc_obj.ResourceClass, id='int', name='str')),
        C(rc_obj.ResourceClass.create, 'ResourceClass.create', 'RW',
          raises=(E.ObjectActionError, E.ResourceClassExists,
                  E.MaxDBRetriesExceeded), writes=('resource_classes',),
          guards={E.ObjectActionError: g_rc_create_oae}, model=m_assign_id),
        C(rc_obj.ResourceClass.destroy, 'ResourceClass.destroy', 'W',
          raises=(E.ObjectActionError, E.ResourceClassCannotDeleteStandard,
                  E.ResourceClassInUse, E.NotFound),
          writes=('resource_classes',),
          guards={E.ObjectActionError: g_id_unset}),
        C(rc_obj.ResourceClass.save, 'ResourceClass.save', 'W',
          raises=(E.ObjectActionError, E.ResourceClassCannotUpdateStandard,
                  E.ResourceClassExists, E.NotFound),
          writes=('resource_classes',),
          guards={E.ObjectActionError: g_id_unset}),
        C(rc_obj.get_all, 'rc_obj.get_all', '',
          model=m_opaque_list(rc_obj.ResourceClass)),
        C(usage_obj.get_all_by_resource_provider_uuid,
          'usage_obj.get_all_by_resource_provider_uuid', 'R',
          model=m_opaque_list(usage_obj.Usage)),
        C(usage_obj.get_all_by_project_user,
          'usage_obj.get_all_by_project_user', 'R',
          model=m_opaque_list(usage_obj.Usage)),
        C(usage_obj.get_by_consumer_type, 'usage_obj.get_by_consumer_type',
          'R', model=m_opaque_list(usage_obj.Usage)),
    ]
    return out


IREF = ('the id was read from a stored row in the same transaction and '
        'referenced rows exist (I_ref, C08)')
DEFAULT_EXCLUDED = {
    'inv_obj.get_all_by_resource_provider': {E.ResourceClassNotFound: IREF},
    'alloc_obj.get_all_by_resource_provider': {E.ResourceClassNotFound: IREF},
    'alloc_obj.get_all_by_consumer_id': {E.ResourceClassNotFound: IREF},
    'trait_obj.get_all_by_resource_provider': {E.TraitNotFound: IREF},
    'ResourceProvider.set_traits': {E.TraitNotFound: IREF},
    'usage_obj.get_all_by_resource_provider_uuid': {E.ResourceClassNotFound: IREF},
    'usage_obj.get_all_by_project_user': {E.ResourceClassNotFound: IREF},
    'usage_obj.get_by_consumer_type': {E.ResourceClassNotFound: IREF},
    'rc_obj.get_all': {E.ResourceClassNotFound: IREF},
    'ResourceProvider.save': {
        E.TraitNotFound: 'get_subtree passes only the in_tree filter',
        E.ResourceClassNotFound: 'get_subtree passes only the in_tree filter'},
    'get_or_create_consumer_type_id': {
        E.ConsumerTypeNotFound: 'caught by the function itself (the static '
                                'analysis does not follow the recursive retry)'},
}


def install(reg, only=None, skip=()):
    """Register the contracts in an interpreter registry (keyed by the real
    function objects)."""
    tbl = table()
    for c in tbl:
        for k, v in DEFAULT_EXCLUDED.get(c.name, {}).items():
            c.excluded.setdefault(k, v)
    reg.setdefault('contracts', {})
    for c in tbl:
        if only is not None and c.name not in only:
            continue
        if c.name in skip:
            continue
        reg['calls'][id(c.target)] = c
        f = getattr(c.target, '__func__', None)
        if f is not None:
            reg['calls'][id(f)] = c
        reg['contracts'][c.name] = c
    return tbl


# ==========================================================================
# consumers / allocations side

CONSUMER = consumer_obj.Consumer


def consumer_row(I, uuid_term):
    """(found, id) for the consumers row with the given uuid in the current
    ghost database (unique constraint: at most one)."""
    return unique_row(I, 'consumers', 'uuid', uuid_term)


def unique_row(I, table, col, term):
    """(found, id) of the row of `table` whose unique column `col` equals
    term, in the current ghost database."""
    t = I.db.tables[table]
    found = z3.Bool(I.ex.fresh_name('%s.found' % table))
    rid = z3.Int(I.ex.fresh_name('%s.id' % table))
    k = z3.Int('k!urow')
    I.ex.assume(z3.Implies(found, z3.And(rid > 0, z3.Select(t.exists, rid),
                                         z3.Select(t.data[col], rid) == term)))
    I.ex.hyp(z3.Implies(z3.Not(found), ops.forall(
        [k], z3.Not(z3.And(z3.Select(t.exists, k),
                           z3.Select(t.data[col], k) == term)),
        patterns=[z3.Select(t.exists, k)])))
    # quantifier-free consequence for path feasibility: two lookups of the
    # same key in the same table version agree
    memo = I.ghost.setdefault('unique_rows', {})
    key = (table, col, t.exists.sexpr(), t.data[col].sexpr(), term.sexpr())
    if key in memo:
        I.ex.assume(found == memo[key][0])
        I.ex.assume(z3.Implies(found, rid == memo[key][1]))
    else:
        memo[key] = (found, rid)
    return found, rid


def m_ext_get(table, cls):
    def model(I, c, args, kwargs, exc):
        ext = to_term(args[1], 'str')
        found, rid = unique_row(I, table, 'external_id', ext)
        if exc is not None:
            I.ex.assume(z3.Not(found))
            return None
        I.ex.assume(found)
        o = I.alloc(cls)
        I.write_field(o, 'id', Sym(rid, 'int'))
        I.write_field(o, 'external_id', Sym(ext, 'str'))
        return o
    return model


def m_ext_create(table):
    def model(I, c, args, kwargs, exc):
        self_ = args[0]
        ext = to_term(I.read_field(self_, 'external_id'), 'str')
        found, rid = unique_row(I, table, 'external_id', ext)
        if exc is not None:
            I.ex.assume(found)
            return None
        I.ex.assume(z3.Not(found))
        t = I.db.tables[table]
        nid = z3.Int(I.ex.fresh_name('newid.' + table))
        I.ex.assume(z3.And(nid > 0, z3.Not(z3.Select(t.exists, nid))))
        nt = t.clone()
        nt.exists = z3.Store(t.exists, nid, z3.BoolVal(True))
        nt.data['external_id'] = z3.Store(t.data['external_id'], nid, ext)
        I.db.tables[table] = nt
        I.write_field(self_, 'id', Sym(nid, 'int'))
        return None
    return model


def m_consumer_get(I, c, args, kwargs, exc):
    uuid = to_term(args[1], 'str')
    found, cid = consumer_row(I, uuid)
    if exc is not None:
        I.ex.assume(z3.Not(found))
        return None
    I.ex.assume(found)
    t = I.db.tables['consumers']
    o = I.alloc(CONSUMER)
    I.write_field(o, 'id', Sym(cid, 'int'))
    I.write_field(o, 'uuid', Sym(uuid, 'str'))
    I.write_field(o, 'generation', Sym(z3.Select(t.data['generation'], cid), 'int'))
    ctn = z3.Select(t.null['consumer_type_id'], cid)
    I.write_field(o, 'consumer_type_id',
                  Sym(z3.Select(t.data['consumer_type_id'], cid), 'int', ctn))
    p = I.alloc(project_obj.Project)
    I.write_field(p, 'id', Sym(z3.Select(t.data['project_id'], cid), 'int'))
    I.write_field(p, 'external_id', I.fresh('project.external_id', 'str'))
    u = I.alloc(user_obj.User)
    I.write_field(u, 'id', Sym(z3.Select(t.data['user_id'], cid), 'int'))
    I.write_field(u, 'external_id', I.fresh('user.external_id', 'str'))
    I.write_field(o, 'project', p)
    I.write_field(o, 'user', u)
    I.event('read.consumer', o, cid, z3.Select(t.data['generation'], cid))
    return o


def m_consumer_create(I, c, args, kwargs, exc):
    """Consumer.create: INSERT; the unique constraint on uuid turns a
    duplicate into ConsumerExists (A-key)."""
    self_ = args[0]
    uuid = to_term(I.read_field(self_, 'uuid'), 'str')
    found, cid = consumer_row(I, uuid)
    if exc is not None:
        I.ex.assume(found)
        return None
    I.ex.assume(z3.Not(found))
    db = I.db
    t = db.tables['consumers']
    nid = z3.Int(I.ex.fresh_name('newid.consumers'))
    I.ex.assume(z3.And(nid > 0, z3.Not(z3.Select(t.exists, nid))))
    nt = t.clone()
    nt.exists = z3.Store(t.exists, nid, z3.BoolVal(True))
    nt.data['uuid'] = z3.Store(t.data['uuid'], nid, uuid)
    nt.data['generation'] = z3.Store(t.data['generation'], nid, z3.IntVal(0))
    proj = I.read_field(self_, 'project')
    user = I.read_field(self_, 'user')
    nt.data['project_id'] = z3.Store(t.data['project_id'], nid,
                                     to_term(I.read_field(proj, 'id'), 'int'))
    nt.data['user_id'] = z3.Store(t.data['user_id'], nid,
                                  to_term(I.read_field(user, 'id'), 'int'))
    db.tables['consumers'] = nt
    I.write_field(self_, 'id', Sym(nid, 'int'))
    I.write_field(self_, 'generation', 0)
    I.event('created.consumer', self_, nid, uuid)
    return None


def m_consumer_delete(I, c, args, kwargs, exc):
    self_ = args[0]
    db = I.db
    t = db.tables['consumers']
    cid = to_term(I.read_field(self_, 'id'), 'int')
    nt = t.clone()
    nt.exists = z3.Store(t.exists, cid, z3.BoolVal(False))
    db.tables['consumers'] = nt
    I.event('deleted.consumer', self_, cid)
    return None


def m_consumer_update(I, c, args, kwargs, exc):
    """Consumer.update: attribute UPDATE guarded by id and generation; no
    row-count check (the later CAS decides)."""
    self_ = args[0]
    db = I.db
    t = db.tables['consumers']
    cid = to_term(I.read_field(self_, 'id'), 'int')
    g = to_term(I.read_field(self_, 'generation'), 'int')
    cond = z3.And(z3.Select(t.exists, cid),
                  z3.Select(t.data['generation'], cid) == g)
    nt = t.clone()
    proj = I.read_field(self_, 'project')
    user = I.read_field(self_, 'user')
    for col, val in (('project_id', to_term(I.read_field(proj, 'id'), 'int')),
                     ('user_id', to_term(I.read_field(user, 'id'), 'int'))):
        nt.data[col] = z3.If(cond, z3.Store(t.data[col], cid, val), t.data[col])
    db.tables['consumers'] = nt
    I.event('updated.consumer', self_, cid, cond)
    return None


def m_consumer_type_id(I, c, args, kwargs, exc):
    return I.fresh('consumer_type_id', 'int')


def m_replace_all(I, c, args, kwargs, exc):
    """alloc_obj.replace_all (contract assembled from the C01 / C06 / C10
    obligations on _set_allocations): runs inside the caller's transaction;
    on success every consumer and every provider of the request passed its
    generation compare-and-swap."""
    allocs = args[1]
    t = lib.current_txn(I)
    I.ex.oblige('typestate.replace_all_in_writer_txn',
                t is not None and t['mode'] == 'writer', 'A')
    I.event('replace_all', allocs, t['id'] if t else None,
            'raises' if exc is not None else 'ok',
            exc.cls if exc is not None else None)
    hook = I.registry.get('replace_all_model')
    if hook is not None:
        hook(I, allocs, exc)
    if exc is None:
        I.db.havoc(('allocations', 'aggregates', 'resource_providers'))
    return None


def alloc_side_table():
    C = Contract
    return [
        C(project_obj.Project.get_by_external_id, 'Project.get_by_external_id',
          'R', raises=(E.ProjectNotFound,),
          model=m_ext_get('projects', project_obj.Project)),
        C(project_obj.Project.create, 'Project.create', 'W',
          raises=(E.ProjectExists,), writes=('projects',),
          model=m_ext_create('projects')),
        C(user_obj.User.get_by_external_id, 'User.get_by_external_id', 'R',
          raises=(E.UserNotFound,), model=m_ext_get('users', user_obj.User)),
        C(user_obj.User.create, 'User.create', 'W', raises=(E.UserExists,),
          writes=('users',), model=m_ext_create('users')),
        C(__import__('placement.handlers.util', fromlist=['x'])
          .get_or_create_consumer_type_id, 'get_or_create_consumer_type_id',
          '', writes=('consumer_types',), model=m_consumer_type_id),
        C(CONSUMER.get_by_uuid, 'Consumer.get_by_uuid', 'R',
          raises=(E.ConsumerNotFound,), model=m_consumer_get),
        C(CONSUMER.create, 'Consumer.create', 'W', raises=(E.ConsumerExists,),
          writes=('consumers',), model=m_consumer_create),
        C(CONSUMER.update, 'Consumer.update', 'W', writes=('consumers',),
          model=m_consumer_update),
        C(CONSUMER.delete, 'Consumer.delete', 'W', writes=('consumers',),
          model=m_consumer_delete),
        C(alloc_obj.get_all_by_consumer_id, 'alloc_obj.get_all_by_consumer_id',
          'R', model=alloc_list_model),
        C(alloc_obj.replace_all, 'alloc_obj.replace_all', '',
          raises=(E.ResourceClassNotFound, E.InvalidInventory,
                  E.InvalidAllocationCapacityExceeded,
                  E.InvalidAllocationConstraintsViolated,
                  E.ConcurrentUpdateDetected,
                  E.ResourceProviderConcurrentUpdateDetected, E.NotFound),
          writes=('allocations', 'consumers', 'resource_providers'),
          model=m_replace_all),
        C(alloc_obj.delete_all, 'alloc_obj.delete_all', 'WW',
          writes=('allocations', 'consumers'),
          # _delete_allocations_by_ids, then delete_consumers_if_no_allocations
          # (body: props/C18.py:script_delete_all)
          writes_by_txn=(('allocations',), ('consumers',))),
        C(reshaper_obj.reshape, 'reshaper.reshape', 'W',
          raises=(E.ResourceClassNotFound, E.InvalidInventory,
                  E.InvalidAllocationCapacityExceeded,
                  E.InvalidAllocationConstraintsViolated,
                  E.ConcurrentUpdateDetected,
                  E.ResourceProviderConcurrentUpdateDetected,
                  E.InventoryInUse, E.InventoryWithResourceClassNotFound,
                  E.NotFound),
          writes=('allocations', 'consumers', 'resource_providers',
                  'inventories')),
    ]


_old_table = table


def table():        # noqa: F811
    return _old_table() + alloc_side_table()


# ==========================================================================
# handlers.util.ensure_consumer (contract transcribed from C06 / C12; its
# body is checked against it by props/C06.py)

def ensure_consumer_contract(I, args, kwargs):
    from placement import errors
    from placement.handlers import util as hutil
    from props.common import RequestAttr
    (ctx, consumer_uuid, project_id, user_id, consumer_generation,
     consumer_type, want_version) = args[:7]
    I.event('call', 'ensure_consumer', tuple(args), {})
    uuid = to_term(consumer_uuid, 'str')
    needs_gen = want_version._cmp(I, (1, 28), 'ge')
    # auxiliary get-or-create records: own earlier transactions
    for tb in ('projects', 'users', 'consumer_types'):
        lib.txn_enter(I, 'writer')
        I.db.writes.append((tb, 'contract:ensure_consumer', ()))
        I.event('db.write', tb, 'contract:ensure_consumer', I.txn_counter)
        lib.txn_exit(I, None)
    lib.txn_enter(I, 'reader')
    found, cid = consumer_row(I, uuid)
    t = I.db.tables['consumers']
    db_gen = z3.Select(t.data['generation'], cid)
    lib.txn_exit(I, None)
    attr = I.alloc(RequestAttr)
    proj = I.alloc(project_obj.Project)
    I.write_field(proj, 'id', I.fresh('project.id', 'int'))
    I.write_field(proj, 'external_id', I.fresh('project.external_id', 'str'))
    usr = I.alloc(user_obj.User)
    I.write_field(usr, 'id', I.fresh('user.id', 'int'))
    I.write_field(usr, 'external_id', I.fresh('user.external_id', 'str'))
    I.write_field(attr, 'project', proj)
    I.write_field(attr, 'user', usr)
    I.write_field(attr, 'consumer_type_id',
                  I.fresh('consumer_type_id', 'int', nullable=True))
    gen_none = ops.z3bool(ops.none_flag(consumer_generation))
    gen_val = to_term(consumer_generation, 'int') \
        if consumer_generation is not None else z3.IntVal(0)
    if I.ex.branch(found):
        conflict = z3.And(needs_gen, z3.Or(gen_none, gen_val != db_gen))
        if I.ex.branch(conflict):
            raise PyRaise(ExcVal(webob.exc.HTTPConflict, (), lib.exc_fields(
                webob.exc.HTTPConflict, (), {'comment': errors.CONCURRENT_UPDATE})))
        o = I.alloc(CONSUMER)
        I.write_field(o, 'id', Sym(cid, 'int'))
        I.write_field(o, 'uuid', Sym(uuid, 'str'))
        I.write_field(o, 'generation', Sym(db_gen, 'int'))
        I.write_field(o, 'project', proj)
        I.write_field(o, 'user', usr)
        I.write_field(o, 'consumer_type_id',
                      I.fresh('consumer.type', 'int', nullable=True))
        I.event('ensure_consumer.existing', o, cid, db_gen)
        return (o, False, attr)
    conflict = z3.And(needs_gen, z3.Not(gen_none))
    if I.ex.branch(conflict):
        raise PyRaise(ExcVal(webob.exc.HTTPConflict, (), lib.exc_fields(
            webob.exc.HTTPConflict, (), {'comment': errors.CONCURRENT_UPDATE})))
    # create the consumer (own writer transaction)
    lib.txn_enter(I, 'writer')
    nid = z3.Int(I.ex.fresh_name('newid.consumers'))
    t = I.db.tables['consumers']
    I.ex.assume(z3.And(nid > 0, z3.Not(z3.Select(t.exists, nid))))
    nt = t.clone()
    nt.exists = z3.Store(t.exists, nid, z3.BoolVal(True))
    nt.data['uuid'] = z3.Store(t.data['uuid'], nid, uuid)
    nt.data['generation'] = z3.Store(t.data['generation'], nid, z3.IntVal(0))
    I.db.tables['consumers'] = nt
    I.db.writes.append(('consumers', 'contract:ensure_consumer', ()))
    I.event('db.write', 'consumers', 'insert', I.txn_counter)
    lib.txn_exit(I, None)
    o = I.alloc(CONSUMER)
    I.write_field(o, 'id', Sym(nid, 'int'))
    I.write_field(o, 'uuid', Sym(uuid, 'str'))
    I.write_field(o, 'generation', 0)
    I.write_field(o, 'project', proj)
    I.write_field(o, 'user', usr)
    I.write_field(o, 'consumer_type_id',
                  I.fresh('consumer.type', 'int', nullable=True))
    I.event('created.consumer', o, nid, uuid)
    return (o, True, attr)
