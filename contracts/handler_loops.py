"""Sidecar loop invariants for the allocation-writing handlers
(handlers/allocation.py, handlers/util.py)."""
import z3

from pyvc.interp import LoopSpec
from pyvc.values import Sym, Obj, SMap, SList, StrSort
from pyvc import ops
from pyvc.ops import to_term

from contracts.classes import RP, CONSUMER, ALLOC


def _nn(I, cls, field, ref):
    return z3.Not(z3.Select(I.fld_none(cls, field), ref))


def consumer_ok(I, c, key=None):
    """facts about a Consumer object stored in a map under its uuid"""
    fs = [_nn(I, CONSUMER, f, c) for f in ('id', 'uuid', 'generation',
                                           'project', 'user')]
    for sub, cls in (('project', 'Project'), ('user', 'User')):
        o = z3.Select(I.fld(CONSUMER, sub), c)
        fs.append(_nn(I, cls, 'external_id', o))
        fs.append(_nn(I, cls, 'id', o))
    if key is not None:
        fs.append(z3.Select(I.fld(CONSUMER, 'uuid'), c) == key)
    return z3.And(*fs)


def provider_ok(I, r, key=None):
    fs = [_nn(I, RP, f, r) for f in ('id', 'uuid', 'generation')]
    if key is not None:
        fs.append(z3.Select(I.fld(RP, 'uuid'), r) == key)
    return z3.And(*fs)


def key_term(I, seq, j):
    k = seq.element(I, j)
    if isinstance(k, tuple):
        k = k[0]
    return to_term(k, 'str')


# --- _resource_providers_by_uuid ---------------------------------------------
def rps_by_uuid_inv(I, frame, i, seq):
    res = frame.locals['res']
    j = z3.Int('j!rpbu')
    k = z3.Const('k!rpbu', StrSort)
    return [
        ops.forall([j], z3.Implies(z3.And(j >= 0, j < i),
                                   z3.Select(res.dom, key_term(I, seq, j)))),
        ops.forall([k], z3.Implies(
            z3.Select(res.dom, k), provider_ok(I, z3.Select(res.val, k), k)),
            patterns=[z3.Select(res.dom, k)]),
    ]


# --- inspect_consumers ------------------------------------------------------------
def inspect_inv(I, frame, i, seq):
    consumers = frame.locals['consumers']
    attrs = frame.locals['requested_attrs']
    created = frame.locals['new_consumers_created']
    j = z3.Int('j!insp')
    k = z3.Const('k!insp', StrSort)
    q = z3.Int('q!insp')
    return [
        ops.forall([j], z3.Implies(z3.And(j >= 0, j < i),
                                   z3.Select(consumers.dom, key_term(I, seq, j)))),
        ops.forall([k], z3.Implies(
            z3.Select(consumers.dom, k),
            z3.And(consumer_ok(I, z3.Select(consumers.val, k), k),
                   z3.Select(attrs.dom, k))),
            patterns=[z3.Select(consumers.dom, k)]),
        ops.forall([q], z3.Implies(
            z3.And(q >= 0, q < created.len),
            consumer_ok(I, z3.Select(created.arr, q))),
            patterns=[z3.Select(created.arr, q)]),
    ]


LOOPS = {
    ('update_consumers', 1): LoopSpec(
        name='H.update_consumers', keep=('request_attrs',),
        modifies_db=('consumers',),
        modifies_fields=(('Consumer', 'project', 'keepnull'),
                         ('Consumer', 'user', 'keepnull'),
                         ('Consumer', 'consumer_type_id'))),
    ('_resource_providers_by_uuid', 1): LoopSpec(
        invariant=rps_by_uuid_inv, name='H.rps_by_uuid',
        keep=('ctx', 'rp_uuids')),
    ('inspect_consumers', 1): LoopSpec(
        invariant=inspect_inv, name='H.inspect_consumers',
        keep=('context', 'data', 'want_version'),
        modifies_db=('projects', 'users', 'consumer_types', 'consumers')),
}
