"""Sidecar loop invariants for the allocation-writing handlers
(handlers/allocation.py, handlers/util.py)."""
import z3

from pyvc.interp import LoopSpec
from pyvc.values import Sym, Obj, SMap, SList, StrSort
from pyvc import ops
from pyvc.ops import to_term

from contracts.classes import RP, CONSUMER, ALLOC


def _nn(I, cls, field, ref):
    return z3.Not(z3.Select(I.fld_none(cls, field), ref))


def consumer_ok(I, c, key=None):
    """facts about a Consumer object stored in a map under its uuid"""
    fs = [_nn(I, CONSUMER, f, c) for f in ('id', 'uuid', 'generation',
                                           'project', 'user')]
    for sub, cls in (('project', 'Project'), ('user', 'User')):
        o = z3.Select(I.fld(CONSUMER, sub), c)
        fs.append(_nn(I, cls, 'external_id', o))
        fs.append(_nn(I, cls, 'id', o))
    if key is not None:
        fs.append(z3.Select(I.fld(CONSUMER, 'uuid'), c) == key)
    return z3.And(*fs)


def provider_ok(I, r, key=None):
    fs = [_nn(I, RP, f, r) for f in ('id', 'uuid', 'generation')]
    if key is not None:
        fs.append(z3.Select(I.fld(RP, 'uuid'), r) == key)
    return z3.And(*fs)


def key_term(I, seq, j):
    k = seq.element(I, j)
    if isinstance(k, tuple):
        k = k[0]
    return to_term(k, 'str')


# --- _resource_providers_by_uuid ---------------------------------------------
def rps_by_uuid_inv(I, frame, i, seq):
    res = frame.locals['res']
    j = z3.Int('j!rpbu')
    k = z3.Const('k!rpbu', StrSort)
    return [
        ops.forall([j], z3.Implies(z3.And(j >= 0, j < i),
                                   z3.Select(res.dom, key_term(I, seq, j)))),
        ops.forall([k], z3.Implies(
            z3.Select(res.dom, k), provider_ok(I, z3.Select(res.val, k), k)),
            patterns=[z3.Select(res.dom, k)]),
    ]


# --- inspect_consumers ------------------------------------------------------------
def inspect_inv(I, frame, i, seq):
    consumers = frame.locals['consumers']
    attrs = frame.locals['requested_attrs']
    created = frame.locals['new_consumers_created']
    j = z3.Int('j!insp')
    k = z3.Const('k!insp', StrSort)
    q = z3.Int('q!insp')
    return [
        ops.forall([j], z3.Implies(z3.And(j >= 0, j < i),
                                   z3.Select(consumers.dom, key_term(I, seq, j)))),
        ops.forall([k], z3.Implies(
            z3.Select(consumers.dom, k),
            z3.And(consumer_ok(I, z3.Select(consumers.val, k), k),
                   z3.Select(attrs.dom, k))),
            patterns=[z3.Select(consumers.dom, k)]),
        ops.forall([q], z3.Implies(
            z3.And(q >= 0, q < created.len),
            consumer_ok(I, z3.Select(created.arr, q))),
            patterns=[z3.Select(created.arr, q)]),
    ]


# --- the consumers table as "entry table + consumers created by this request" --
def consumers_view_entry(I, frame, seq):
    I.ghost.setdefault('consumers0', I.db.tables['consumers'])


def _created_ids(I, created, lo=None):
    """k is the id of created[q] for some q (>= lo)"""
    def member(k):
        q = z3.Int('q!cv')
        rng = z3.And(q >= (lo if lo is not None else 0), q < created.len)
        cid = z3.Select(I.fld(CONSUMER, 'id'), z3.Select(created.arr, q))
        return z3.Exists([q], z3.And(rng, cid == k))
    return member


def consumers_view(I, created, lo=None):
    """consumers table == entry table + rows of created[lo:], entry rows
    untouched, created ids fresh and pairwise distinct."""
    t0 = I.ghost['consumers0']
    t = I.db.tables['consumers']
    k = z3.Int('k!cv')
    q, q2 = z3.Ints('q!cv1 q!cv2')
    member = _created_ids(I, created, lo)
    idq = z3.Select(I.fld(CONSUMER, 'id'), z3.Select(created.arr, q))
    idq2 = z3.Select(I.fld(CONSUMER, 'id'), z3.Select(created.arr, q2))
    out = [
        ops.forall([k], z3.Select(t.exists, k) ==
                   z3.Or(z3.Select(t0.exists, k), member(k)),
                   patterns=[z3.Select(t.exists, k)]),
        ops.forall([k], z3.Implies(z3.Select(t0.exists, k), z3.And(*[
            z3.Select(t.data[c], k) == z3.Select(t0.data[c], k)
            for c in t0.data])), patterns=[z3.Select(t0.exists, k)]),
        ops.forall([q], z3.Implies(
            z3.And(q >= 0, q < created.len),
            z3.And(z3.Not(z3.Select(t0.exists, idq)),
                   z3.Not(z3.Select(I.fld_none(CONSUMER, 'id'),
                                    z3.Select(created.arr, q))))),
            patterns=[z3.Select(created.arr, q)]),
        ops.forall([q, q2], z3.Implies(
            z3.And(q >= 0, q < q2, q2 < created.len), idq != idq2),
            patterns=[z3.MultiPattern(z3.Select(created.arr, q),
                                      z3.Select(created.arr, q2))]),
    ]
    return out


def inspect_inv2(I, frame, i, seq):
    if I.interference:
        # other requests change the consumers table between transactions: the
        # "entry table + created" view only makes sense sequentially (C04)
        return inspect_inv(I, frame, i, seq)
    I.ghost['created_list'] = frame.locals['new_consumers_created']
    return inspect_inv(I, frame, i, seq) + consumers_view(
        I, frame.locals['new_consumers_created'])


def delete_consumers_inv(I, frame, i, seq):
    created = frame.locals['consumers']
    if I.interference or 'consumers0' not in I.ghost or \
            not isinstance(created, SList) or \
            created is not I.ghost.get('created_list'):
        # only the clean-up of *the* list of consumers created by the request
        # restores the entry table
        return []
    return consumers_view(I, created, lo=i)


# --- lists of Allocation objects built by the handlers --------------------------
def allocs_carry(I, lst, consumer=None, provider=None, positive=True):
    """every element of lst carries the given consumer / provider object"""
    q = z3.Int('q!carry')
    a = z3.Select(lst.arr, q)
    fs = []
    if consumer is not None:
        fs.append(z3.Select(I.fld(ALLOC, 'consumer'), a) == consumer.ref)
    if provider is not None:
        fs.append(z3.Select(I.fld(ALLOC, 'resource_provider'), a) == provider.ref)
    if positive:
        fs.append(z3.Select(I.fld(ALLOC, 'used'), a) >= 1)
    else:
        fs.append(z3.Select(I.fld(ALLOC, 'used'), a) >= 0)
    if not fs:
        return []
    return [ops.forall([q], z3.Implies(z3.And(q >= 0, q < lst.len), z3.And(*fs)),
                       patterns=[z3.Select(lst.arr, q)])]


def new_allocations_inv(I, frame, i, seq):
    lst = frame.locals['allocations']
    return allocs_carry(I, lst, frame.locals['consumer'],
                        frame.locals['resource_provider'])


def sac_empty_inv(I, frame, i, seq):
    """_set_allocations_for_consumer, emptying path"""
    return allocs_carry(I, frame.locals['allocation_objects'],
                        frame.locals['consumer'], positive=False)


def sac_fill_inv(I, frame, i, seq):
    return allocs_carry(I, frame.locals['allocation_objects'],
                        frame.locals['consumer'], positive=False)


LOOPS = {
    ('_set_allocations_for_consumer', 2): LoopSpec(
        invariant=sac_empty_inv, name='H.sac.empty',
        keep=('consumer', 'context', 'req'),
        modifies_fields=(('Allocation', 'used'), ('Allocation', 'consumer'))),
    ('_set_allocations_for_consumer', 3): LoopSpec(
        invariant=sac_fill_inv, name='H.sac.fill',
        keep=('consumer', 'context', 'req', 'rp_objs')),
    ('_new_allocations', 1): LoopSpec(
        invariant=new_allocations_inv, name='H.new_allocations',
        keep=('consumer', 'resource_provider', 'resources', 'context')),
    ('delete_consumers', 1): LoopSpec(
        invariant=delete_consumers_inv, name='H.delete_consumers',
        keep=('consumers',), modifies_db=('consumers',)),
    ('update_consumers', 1): LoopSpec(
        name='H.update_consumers', keep=('request_attrs',),
        modifies_db=('consumers',),
        modifies_fields=(('Consumer', 'project', 'keepnull'),
                         ('Consumer', 'user', 'keepnull'),
                         ('Consumer', 'consumer_type_id'))),
    ('_resource_providers_by_uuid', 1): LoopSpec(
        invariant=rps_by_uuid_inv, name='H.rps_by_uuid',
        keep=('ctx', 'rp_uuids')),
    ('inspect_consumers', 1): LoopSpec(
        invariant=inspect_inv2, on_entry=consumers_view_entry,
        name='H.inspect_consumers',
        keep=('context', 'data', 'want_version'),
        modifies_db=('projects', 'users', 'consumer_types', 'consumers')),
}
