"""Sidecar: running a real handler (a PlacementWsgify object from the real
ROUTE_DECLARATIONS) symbolically."""
import types

import z3
import webob.dec
import webob.exc

from pyvc.core import Undecided, PathEnd
from pyvc.values import (Sym, Obj, VList, VDict, Native, BoundMethod, ExcVal,
                         Opaque, StrSort)
from pyvc.interp import Interp, PyRaise
from contracts import lib, web, classes

from placement import wsgi_wrapper
from placement import util
from placement import microversion
from placement import handler as handler_mod


def super_hook(I, cls, name, raw, inst):
    """super(PlacementWsgify, self).call_func: webob.dec.wsgify.call_func is
    `return self.func(req, *args, **kwargs)` (A-lib)."""
    if cls is webob.dec.wsgify and name == 'call_func':
        class _CallFunc(Native):
            def call(self_, I_, args, kwargs):
                return I_.call(inst.func, list(args), kwargs)
        return _CallFunc()
    return NotImplemented


def web_registry(reg=None):
    from oslo_serialization import jsonutils
    from oslo_utils import encodeutils, timeutils, uuidutils
    import copy as _copy
    import uuid as _uuid
    reg = reg or lib.base_registry()
    reg['fields'].update(classes.FIELDS)
    reg['super_hook'] = super_hook
    reg['getattr'] = lib.context_getattr_hook
    reg['raw_modules'] = ('placement.schemas',)
    c = reg['calls']
    c[id(util.extract_json)] = web.extract_json_contract
    c[id(util.validate_query_params)] = web.validate_query_params_contract
    def _dumps(I, a, k):
        I.event('json.dumps', a[0])
        r = I.fresh('json', 'str')
        # the text is the serialisation of a[0]: loads(dumps(x)) == x (A-lib)
        I.ghost.setdefault('json_provenance', {})[r.t.sexpr()] = a[0]
        return r
    c[id(jsonutils.dumps)] = _dumps
    c[id(encodeutils.to_utf8)] = lambda I, a, k: a[0]
    c[id(timeutils.utcnow)] = lambda I, a, k: Opaque('utcnow')
    c[id(util.pick_last_modified)] = lambda I, a, k: Opaque('last_modified')
    c[id(uuidutils.is_uuid_like)] = lambda I, a, k: Sym(
        z3.Function('is_uuid_like', StrSort, z3.BoolSort())(
            __import__('pyvc.ops', fromlist=['x']).to_term(a[0], 'str')), 'bool')
    reg['classes'][_uuid.UUID] = lambda I, a, k: _UuidVal(a[0])
    reg['int_of_real'] = int_of_real_hook
    c[id(_copy.copy)] = _copy_contract
    c[id(_copy.deepcopy)] = _copy_contract
    return reg


def int_of_real_hook(I, v):
    """int(x) of a real that may be non-finite (A-real: JSON numbers entering
    through jsonutils.loads can be NaN / +-Infinity): ValueError resp.
    OverflowError."""
    flags = I.ghost.get('nonfinite', {})
    if not flags:
        return
    hit = []
    seen = set()
    stack = [v.t]
    while stack:
        x = stack.pop()
        if x.get_id() in seen:
            continue
        seen.add(x.get_id())
        f = flags.get(x.sexpr())
        if f is not None:
            hit.append(f)
        stack.extend(x.children())
    if hit:
        if I.ex.branch(z3.Or(*hit) if len(hit) > 1 else hit[0]):
            if I.ex.choose(2, tag='nan-or-inf') == 0:
                I.raise_(ValueError, 'cannot convert float NaN to integer')
            I.raise_(OverflowError, 'cannot convert float infinity to integer')


class _UuidVal(Native):
    """uuid.UUID(s): only str() of it is used (normalised form)."""

    def __init__(self, s):
        self.s = s


def _copy_contract(I, args, kwargs):
    v = args[0]
    if isinstance(v, VDict):
        return I.copy_dict(v)
    if isinstance(v, VList):
        return VList(v.items)
    if isinstance(v, Obj):
        m = I.class_attr(v.cls, '__copy__')
        if m is not None:
            return I.call(m, [v], {})
    if isinstance(v, dict):
        return I.lift(v)
    raise Undecided('copy of %r' % (v,))


def innermost_handlers(wsgify_obj):
    """The raw handler functions reachable from a route entry: follows
    require_content / check_accept closures and the version table."""
    out = []
    seen = set()

    def walk(f):
        if id(f) in seen:
            return
        seen.add(id(f))
        if isinstance(f, wsgi_wrapper.PlacementWsgify):
            return walk(f.func)
        if isinstance(f, types.FunctionType):
            if f.__code__.co_name == 'decorated_func' and \
                    f.__code__.co_filename.endswith('microversion.py'):
                cells = dict(zip(f.__code__.co_freevars,
                                 [c.cell_contents for c in f.__closure__]))
                for mn, mx, fn in microversion.VERSIONED_METHODS.get(
                        cells['qualified_name'], []):
                    walk(fn)
                return
            if f.__code__.co_name == 'decorated_function' and f.__closure__:
                for c in f.__closure__:
                    if isinstance(c.cell_contents, types.FunctionType):
                        walk(c.cell_contents)
                return
            out.append(f)
    walk(wsgify_obj)
    return out


def run_handler(I, wsgify_obj, req):
    """PlacementWsgify.call_func(self, req) from the real source."""
    fn = wsgi_wrapper.PlacementWsgify.call_func
    return I.call(fn, [wsgify_obj, req], {})


def routes():
    """(route, method, wsgify object) for every real route declaration."""
    out = []
    for route, targets in handler_mod.ROUTE_DECLARATIONS.items():
        for method, h in targets.items():
            out.append((route, method, h))
    return out


STATUS_OF = {}
for _n in dir(webob.exc):
    _c = getattr(webob.exc, _n)
    if isinstance(_c, type) and issubclass(_c, webob.exc.HTTPException) and \
            getattr(_c, 'code', None):
        STATUS_OF[_c] = _c.code


def status_of(exc):
    for c in exc.cls.__mro__:
        if c in STATUS_OF:
            return STATUS_OF[c]
    return None
