"""C09: the forest invariant over the ghost resource_providers table, the
relational specs of the two SELECTs used by the provider writers, the assumed
contract of ResourceProvider.get_subtree and the loop invariant of
ResourceProvider._update_in_db."""
import z3

from pyvc.core import Undecided
from pyvc.interp import LoopSpec, FieldSpec
from pyvc.values import Sym, Obj, SList, SSet, Native, BoundMethod, Opaque
from pyvc import ops, sqltext
from pyvc.ops import to_term

from contracts.classes import RP

T = 'resource_providers'


class PidsRow(object):
    """row of research_context.provider_ids_from_uuid"""


FIELDS = {
    ('PidsRow', 'id'): FieldSpec('int'),
    ('PidsRow', 'uuid'): FieldSpec('str'),
    ('PidsRow', 'parent_id'): FieldSpec('int', True),
    ('PidsRow', 'parent_uuid'): FieldSpec('str', True),
    ('PidsRow', 'root_id'): FieldSpec('int'),
    ('PidsRow', 'root_uuid'): FieldSpec('str'),
}


# --------------------------------------------------------------------------
def forest(t, depth, k=None, root_exists=True):
    """The forest invariant over table t with the ghost rank `depth`
    (Int -> Int): every row has a root pointer; a row without parent is its
    own root; a row with a parent has an existing parent one level up whose
    root it shares.  (The rank strictly decreases along parent links, hence
    no provider is its own ancestor; with finitely many rows every chain
    ends in a parentless row, and root = that row by induction.)"""
    k = k if k is not None else z3.Int('k!forest')
    par = z3.Select(t.data['parent_provider_id'], k)
    parnull = z3.Select(t.null['parent_provider_id'], k)
    root = z3.Select(t.data['root_provider_id'], k)
    rootnull = z3.Select(t.null['root_provider_id'], k)
    body = z3.Implies(z3.Select(t.exists, k), z3.And(
        z3.Not(rootnull),
        z3.Select(t.exists, root) if root_exists else z3.BoolVal(True),
        z3.Implies(parnull, root == k),
        z3.Implies(z3.Not(parnull), z3.And(
            z3.Select(t.exists, par),
            depth(k) == depth(par) + 1,
            root == z3.Select(t.data['root_provider_id'], par),
            z3.Not(z3.Select(t.null['root_provider_id'], par))))))
    return body


def forest_all(t, depth, root_exists=True):
    k = z3.Int('k!forest')
    return ops.forall([k], forest(t, depth, k, root_exists),
                      patterns=[z3.Select(t.exists, k)])


# --------------------------------------------------------------------------
# SELECT specs (Tier B, A-sql)
PIDS_TEXT = None      # filled in by props/C09.py from a recorded constant


class _OneRow(Native):
    def __init__(self, row):
        self.row = row

    def getattr(self, I, name):
        if name == 'fetchone':
            return BoundMethod(self, _Fetch())
        raise Undecided('result.%s' % name)


class _Fetch(Native):
    def call(self, I, args, kwargs):
        return args[0].row


PROVIDER_IDS_TEXT = (
    "SELECT me.id, me.uuid, parent.id AS parent_id, parent.uuid AS "
    "parent_uuid, root.id AS root_id, root.uuid AS root_uuid FROM "
    "resource_providers AS me JOIN resource_providers AS root ON "
    "me.root_provider_id = root.id LEFT OUTER JOIN resource_providers AS "
    "parent ON me.parent_provider_id = parent.id WHERE me.uuid = ?0")


def provider_ids_select(I, stmt, binds):
    """the row of the provider with the given uuid joined with its root (inner
    join) and parent (outer join), or no row"""
    text, values = sqltext.normal_form(stmt, binds)
    I.ex.oblige('C09.sql.provider_ids_from_uuid', text == PROVIDER_IDS_TEXT,
                'A', {'built': text})
    if text != PROVIDER_IDS_TEXT or len(values) != 1:
        raise Undecided('provider_ids_from_uuid SELECT differs from its spec')
    u = to_term(values[0], 'str')
    t = I.db.tables[T]
    k = z3.Int(I.ex.fresh_name('pids.k'))

    def match(x):
        root = z3.Select(t.data['root_provider_id'], x)
        return z3.And(z3.Select(t.exists, x),
                      z3.Select(t.data['uuid'], x) == u,
                      z3.Not(z3.Select(t.null['root_provider_id'], x)),
                      z3.Select(t.exists, root))
    if I.ex.branch(z3.Bool(I.ex.fresh_name('pids.found'))):
        I.ex.assume(match(k))
        row = I.alloc(PidsRow)
        par = z3.Select(t.data['parent_provider_id'], k)
        # outer join: parent columns are NULL when there is no parent row
        parnull = z3.Or(z3.Select(t.null['parent_provider_id'], k),
                        z3.Not(z3.Select(t.exists, par)))
        root = z3.Select(t.data['root_provider_id'], k)
        I.write_field(row, 'id', Sym(k, 'int'))
        I.write_field(row, 'uuid', Sym(u, 'str'))
        I.write_field(row, 'parent_id', Sym(par, 'int', parnull))
        I.write_field(row, 'parent_uuid',
                      Sym(z3.Select(t.data['uuid'], par), 'str', parnull))
        I.write_field(row, 'root_id', Sym(root, 'int'))
        I.write_field(row, 'root_uuid',
                      Sym(z3.Select(t.data['uuid'], root), 'str'))
        return _OneRow(row)
    x = z3.Int('x!pids')
    I.ex.hyp(ops.forall([x], z3.Not(match(x)),
                        patterns=[z3.Select(t.data['uuid'], x)]))
    return _OneRow(None)


HAS_CHILD_TEXT = ("SELECT resource_providers.id FROM resource_providers WHERE "
                  "resource_providers.parent_provider_id = ?0 LIMIT ?1")


def has_child_select(I, stmt, binds):
    text, values = sqltext.normal_form(stmt, binds)
    I.ex.oblige('C09.sql.has_child_providers', text == HAS_CHILD_TEXT, 'A',
                {'built': text})
    if text != HAS_CHILD_TEXT:
        raise Undecided('_has_child_providers SELECT differs from its spec')
    p = to_term(values[0], 'int')
    t = I.db.tables[T]

    def child(x):
        return z3.And(z3.Select(t.exists, x),
                      z3.Not(z3.Select(t.null['parent_provider_id'], x)),
                      z3.Select(t.data['parent_provider_id'], x) == p)
    if I.ex.branch(z3.Bool(I.ex.fresh_name('has_child'))):
        w = z3.Int(I.ex.fresh_name('child'))
        I.ex.assume(child(w))
        return _OneRow((Sym(w, 'int'),))
    x = z3.Int('x!child')
    I.ex.hyp(ops.forall([x], z3.Not(child(x)),
                        patterns=[z3.Select(t.exists, x)]))
    return _OneRow(None)


SELECTS = {
    'provider_ids_from_uuid': provider_ids_select,
    '_has_child_providers': has_child_select,
}


# --------------------------------------------------------------------------
# ResourceProvider.get_subtree (assumed contract, A-subtree)
def get_subtree_contract(I, args, kwargs):
    """Returns the providers of the subtree below self (self included), each
    once: the least set containing self's row and closed under 'child of'.
    Ghost: I.ghost['c09.sub'] (characteristic array over ids), ['c09.pos']
    (position of an id in the returned list)."""
    me = args[0]
    t = I.db.tables[T]
    mid = to_term(I.read_field(me, 'id'), 'int')
    sub = z3.Const(I.ex.fresh_name('sub'), z3.ArraySort(z3.IntSort(),
                                                        z3.BoolSort()))
    pos = z3.Function(I.ex.fresh_name('pos'), z3.IntSort(), z3.IntSort())
    lst = I.fresh_list('subtree', ('obj', RP))
    x, j = z3.Ints('x!sub j!sub')
    par = z3.Select(t.data['parent_provider_id'], x)
    parnull = z3.Select(t.null['parent_provider_id'], x)
    I.ex.assume(z3.Select(sub, mid))

    def facts(x):
        par = z3.Select(t.data['parent_provider_id'], x)
        parnull = z3.Select(t.null['parent_provider_id'], x)
        return [
            z3.Implies(
                z3.Select(sub, x),
                z3.And(z3.Select(t.exists, x), pos(x) >= 0, pos(x) < lst.len,
                       z3.Select(I.fld(RP, 'id'),
                                 z3.Select(lst.arr, pos(x))) == x,
                       z3.Implies(x != mid, z3.And(z3.Not(parnull),
                                                   z3.Select(sub, par))))),
            z3.Implies(
                z3.And(z3.Select(t.exists, x), z3.Not(parnull),
                       z3.Select(sub, par)),
                z3.Select(sub, x))]
    f1, f2 = facts(x)
    I.ex.hyp(ops.forall([x], f1, patterns=[z3.Select(sub, x)]))
    I.ex.hyp(ops.forall([x], f2, patterns=[z3.Select(t.exists, x)]))
    I.ghost['c09.sub_facts'] = facts
    e = z3.Select(lst.arr, j)
    eid = z3.Select(I.fld(RP, 'id'), e)
    I.ex.hyp(ops.forall([j], z3.Implies(
        z3.And(j >= 0, j < lst.len),
        z3.And(z3.Select(sub, eid), pos(eid) == j,
               z3.Not(z3.Select(I.fld_none(RP, 'id'), e)),
               z3.Not(z3.Select(I.fld_none(RP, 'uuid'), e)),
               z3.Select(I.fld(RP, 'uuid'), e) ==
               z3.Select(t.data['uuid'], eid))),
        patterns=[z3.Select(lst.arr, j)]))
    I.ghost['c09.sub'] = sub
    I.ghost['c09.pos'] = pos
    I.ghost['c09.subtree'] = lst
    I.event('get_subtree', me)
    return lst


# --------------------------------------------------------------------------
# the loop of _update_in_db over the subtree
UQ = 'ResourceProvider._update_in_db'


def upd_entry(I, frame, seq):
    I.ghost['c09.t1'] = I.db.tables[T]


def upd_inv(I, frame, i, seq):
    """rows of the subtree providers 0 .. i-1 carry the new root; nothing
    else differs from the table at loop entry"""
    t1 = I.ghost['c09.t1']
    t = I.db.tables[T]
    k = z3.Int('k!upd')
    out = [ops.forall([k], z3.Select(t.exists, k) == z3.Select(t1.exists, k),
                      patterns=[z3.Select(t.exists, k)])]
    if 'c09.sub' not in I.ghost:
        return out + _same_cols(t, t1, k, ())
    sub, pos = I.ghost['c09.sub'], I.ghost['c09.pos']
    new_root = frame.locals['new_root_id']
    nr = to_term(new_root, 'int')
    done = z3.And(z3.Select(sub, k), pos(k) < i)
    out += _same_cols(t, t1, k, ('root_provider_id',))
    out.append(ops.forall([k], z3.Select(t.data['root_provider_id'], k) ==
                          z3.If(done, nr, z3.Select(t1.data['root_provider_id'], k)),
                          patterns=[z3.Select(t.data['root_provider_id'], k)]))
    out.append(ops.forall([k], z3.Select(t.null['root_provider_id'], k) ==
                          z3.If(done, z3.BoolVal(False),
                                z3.Select(t1.null['root_provider_id'], k)),
                          patterns=[z3.Select(t.null['root_provider_id'], k)]))
    # the object itself reports the new root (it is one of the list, and was
    # assigned before the loop)
    me = frame.locals['self']
    nru = frame.locals['new_root_uuid']
    if nru is not None and isinstance(me, Obj):
        out.append(z3.And(
            z3.Select(I.fld(RP, 'root_provider_uuid'), me.ref) ==
            to_term(nru, 'str'),
            z3.Not(z3.Select(I.fld_none(RP, 'root_provider_uuid'), me.ref))))
    return out


def _same_cols(t, t1, k, skip):
    out = []
    for c in t1.data:
        if c in skip:
            continue
        out.append(ops.forall(
            [k], z3.Select(t.data[c], k) == z3.Select(t1.data[c], k),
            patterns=[z3.Select(t.data[c], k)]))
        if c in t1.null:
            out.append(ops.forall(
                [k], z3.Select(t.null[c], k) == z3.Select(t1.null[c], k),
                patterns=[z3.Select(t.null[c], k)]))
    return out


LOOPS = {
    (UQ, 1): LoopSpec(invariant=upd_inv, on_entry=upd_entry,
                      name='C09.update.subtree',
                      keep=('self', 'context', 'id', 'updates',
                            'allow_reparenting', 'subtree_rps', 'new_root_id',
                            'new_root_uuid'),
                      modifies_db=(T,),
                      modifies_fields=(('ResourceProvider',
                                        'root_provider_uuid'),)),
}
