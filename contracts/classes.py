"""Sidecar class table: typed fields of the objects that live in the z3 heap
(A-heap).  Derived from the real __init__ / __slots__ of each class; a field
missing here makes any obligation that reads it `undecided`."""
from pyvc.interp import FieldSpec

from placement.objects import allocation as alloc_obj
from placement.objects import allocation_candidate as ac
from placement.objects import consumer as consumer_obj
from placement.objects import inventory as inv_obj
from placement.objects import project as project_obj
from placement.objects import resource_provider as rp_obj
from placement.objects import user as user_obj

RP = rp_obj.ResourceProvider
CONSUMER = consumer_obj.Consumer
ALLOC = alloc_obj.Allocation
INV = inv_obj.Inventory
from placement.objects import trait as _trait_obj
TRAIT = _trait_obj.Trait


class CapRow(object):
    """Row of the capacity SELECT of _check_capacity_exceeded."""


class Row(object):
    """Generic result row (fields declared per call site)."""


FIELDS = {
    ('Allocation', 'id'): FieldSpec('int', True),
    ('Allocation', 'resource_provider'): FieldSpec(('obj', RP)),
    ('Allocation', 'consumer'): FieldSpec(('obj', CONSUMER)),
    ('Allocation', 'resource_class'): FieldSpec('str'),
    ('Allocation', 'used'): FieldSpec('int'),

    ('ResourceProvider', 'id'): FieldSpec('int', True),
    ('ResourceProvider', 'uuid'): FieldSpec('str', True),
    ('ResourceProvider', 'name'): FieldSpec('str', True),
    ('ResourceProvider', 'generation'): FieldSpec('int', True),
    ('ResourceProvider', 'parent_provider_uuid'): FieldSpec('str', True),
    ('ResourceProvider', 'root_provider_uuid'): FieldSpec('str', True),

    ('Consumer', 'id'): FieldSpec('int', True),
    ('Consumer', 'uuid'): FieldSpec('str', True),
    ('Consumer', 'generation'): FieldSpec('int', True),
    ('Consumer', 'consumer_type_id'): FieldSpec('int', True),
    ('Consumer', 'project'): FieldSpec(('obj', project_obj.Project), True),
    ('Consumer', 'user'): FieldSpec(('obj', user_obj.User), True),

    ('Project', 'id'): FieldSpec('int', True),
    ('Project', 'external_id'): FieldSpec('str', True),
    ('User', 'id'): FieldSpec('int', True),
    ('User', 'external_id'): FieldSpec('str', True),

    ('Inventory', 'resource_provider'): FieldSpec(('obj', RP), True),
    ('Inventory', 'resource_class'): FieldSpec('str', True),
    ('Inventory', 'total'): FieldSpec('int', True),
    ('Inventory', 'reserved'): FieldSpec('int'),
    ('Inventory', 'min_unit'): FieldSpec('int'),
    ('Inventory', 'max_unit'): FieldSpec('int'),
    ('Inventory', 'step_size'): FieldSpec('int'),
    ('Inventory', 'allocation_ratio'): FieldSpec('real'),

    ('ResourceClass', 'id'): FieldSpec('int', True),
    ('ResourceClass', 'name'): FieldSpec('str', True),
    ('Trait', 'id'): FieldSpec('int', True),
    ('Trait', 'name'): FieldSpec('str', True),
    ('Usage', 'resource_class'): FieldSpec('str', True),
    ('Usage', 'usage'): FieldSpec('int'),
    ('Usage', 'consumer_type'): FieldSpec('str', True),
    ('Usage', 'consumer_count'): FieldSpec('int'),
    ('RequestAttr', 'project'): FieldSpec(('obj', project_obj.Project)),
    ('RequestAttr', 'user'): FieldSpec(('obj', user_obj.User)),
    ('RequestAttr', 'consumer_type_id'): FieldSpec('int', True),
    ('RequestWideParams', 'group_policy'): FieldSpec('str', True),
    ('RequestGroup', 'use_same_provider'): FieldSpec('bool'),
    ('Trait', 'created_at'): FieldSpec('str', True),
    ('Trait', 'updated_at'): FieldSpec('str', True),
    ('ResourceProvider', 'created_at'): FieldSpec('str', True),
    ('ResourceProvider', 'updated_at'): FieldSpec('str', True),
    ('ResourceClass', 'created_at'): FieldSpec('str', True),
    ('ResourceClass', 'updated_at'): FieldSpec('str', True),
    ('Inventory', 'created_at'): FieldSpec('str', True),
    ('Inventory', 'updated_at'): FieldSpec('str', True),
    ('Allocation', 'created_at'): FieldSpec('str', True),
    ('Allocation', 'updated_at'): FieldSpec('str', True),
    ('Consumer', 'created_at'): FieldSpec('str', True),
    ('Consumer', 'updated_at'): FieldSpec('str', True),
    ('Project', 'created_at'): FieldSpec('str', True),
    ('Project', 'updated_at'): FieldSpec('str', True),
    ('User', 'created_at'): FieldSpec('str', True),
    ('User', 'updated_at'): FieldSpec('str', True),
    ('Usage', 'created_at'): FieldSpec('str', True),
    ('Usage', 'updated_at'): FieldSpec('str', True),
    ('CapRow', 'resource_provider_id'): FieldSpec('int'),
    ('CapRow', 'uuid'): FieldSpec('str'),
    ('CapRow', 'generation'): FieldSpec('int'),
    ('CapRow', 'resource_class_id'): FieldSpec('int'),
    ('CapRow', 'total'): FieldSpec('int'),
    ('CapRow', 'reserved'): FieldSpec('int'),
    ('CapRow', 'allocation_ratio'): FieldSpec('real'),
    ('CapRow', 'min_unit'): FieldSpec('int'),
    ('CapRow', 'max_unit'): FieldSpec('int'),
    ('CapRow', 'step_size'): FieldSpec('int'),
    ('CapRow', 'used'): FieldSpec('int', True),

    ('AllocationRequestResource', 'resource_provider'): FieldSpec(('obj', RP)),
    ('AllocationRequestResource', 'resource_class'): FieldSpec('str'),
    ('AllocationRequestResource', 'amount'): FieldSpec('int'),
    ('AllocationRequest', 'anchor_root_provider_uuid'): FieldSpec('str', True),
    ('AllocationRequest', 'use_same_provider'): FieldSpec('bool', True),
    ('ProviderSummaryResource', 'resource_class'): FieldSpec('str'),
    ('ProviderSummaryResource', 'used'): FieldSpec('int'),
    ('ProviderSummaryResource', 'capacity'): FieldSpec('int'),
    ('ProviderSummaryResource', 'max_unit'): FieldSpec('int'),
    ('ProviderSummary', 'resource_provider'): FieldSpec(('obj', RP)),
    ('ProviderSummary', 'resources'): FieldSpec(
        ('list', ('obj', ac.ProviderSummaryResource))),
    ('ProviderSummary', 'traits'): FieldSpec(('list', 'str')),
    ('AllocationRequest', 'resource_requests'): FieldSpec(
        ('list', ('obj', ac.AllocationRequestResource))),
    ('AllocationRequest', 'mappings'): FieldSpec(('map', 'str', ('set', 'str'))),
    ('AllocationCandidates', 'allocation_requests'): FieldSpec(
        ('list', ('obj', ac.AllocationRequest))),
    ('AllocationCandidates', 'provider_summaries'): FieldSpec(
        ('list', ('obj', ac.ProviderSummary))),
    ('RequestGroup', 'resources'): FieldSpec(('map', 'str', 'int')),
}
