"""Sidecar: model of the WSGI request as the handlers see it (webob request /
response, environ, microversion object) and of `util.extract_json` /
`validate_query_params` as "raises HTTPBadRequest or returns an instance of
the real schema dict" (A-lib)."""
import re

import z3
import webob.exc

from pyvc.core import Undecided
from pyvc.values import (Sym, Obj, VList, VDict, VSet, SList, SSet, SMap,
                         Closure, BoundMethod, Native, ExcVal, Opaque,
                         StrSort, sort_of, str_const)
from pyvc.interp import PyRaise, _Seq
from pyvc import ops
from pyvc.ops import to_term, from_term, is_concrete

from placement import microversion as mv

MAX_MINOR = len(mv.VERSIONS) - 1


# --------------------------------------------------------------------------
# microversion

class VersionVal(Native):
    """microversion_parse.Version(1, m) with m symbolic in [0, max]."""

    def __init__(self, minor):
        self.minor = minor

    def getattr(self, I, name):
        if name == 'matches':
            return BoundMethod(self, _VersionMatches())
        if name == 'minor':
            return Sym(self.minor, 'int')
        if name == 'major':
            return 1
        raise Undecided('Version.%s' % name)

    def truth(self, I):
        return True          # a non-empty namedtuple

    def _cmp(self, I, other, op):
        if isinstance(other, tuple) and len(other) == 2 and \
                all(isinstance(x, int) for x in other):
            maj, mnr = other
        elif hasattr(other, 'major') and hasattr(other, 'minor'):
            maj, mnr = other.major, other.minor
        else:
            raise Undecided('version compared with %r' % (other,))
        one = z3.IntVal(1)
        lt = z3.Or(one < maj, z3.And(one == maj, self.minor < mnr))
        eq = z3.And(one == maj, self.minor == mnr)
        return {'lt': lt, 'le': z3.Or(lt, eq), 'eq': eq,
                'gt': z3.Not(z3.Or(lt, eq)), 'ge': z3.Not(lt)}[op]

    def special(self, I, name, args):
        m = {'__lt__': 'lt', '__le__': 'le', '__gt__': 'gt', '__ge__': 'ge'}
        if name in m:
            return I._b(self._cmp(I, args[0], m[name]))
        return NotImplemented

    def eq(self, I, other):
        return self._cmp(I, other, 'eq')


class _VersionMatches(Native):
    pure = True

    def call(self, I, args, kwargs):
        v = args[0]
        mn = args[1] if len(args) > 1 else kwargs.get('min_version')
        mx = args[2] if len(args) > 2 else kwargs.get('max_version')
        conds = []
        if mn is not None:
            conds.append(v._cmp(I, mn, 'ge'))
        if mx is not None:
            conds.append(v._cmp(I, mx, 'le'))
        return I._b(z3.And(*conds) if conds else z3.BoolVal(True))


def fresh_version(I):
    m = z3.Int('microversion.minor')
    I.ex.assume(z3.And(m >= 0, m <= MAX_MINOR))
    return VersionVal(m)


# --------------------------------------------------------------------------
# request / response / environ

class RoutingArgs(Native):
    def __init__(self):
        self.items = {}

    def getitem(self, I, key):
        if key == '_methods':
            I.raise_(KeyError, key)
        if key not in self.items:
            self.items[key] = Sym(z3.Const('path.' + key, StrSort), 'str')
        return self.items[key]


class EnvironStub(Native):
    def __init__(self, ctx, version):
        self.d = {'placement.context': ctx,
                  mv.MICROVERSION_ENVIRON: version,
                  'wsgiorg.routing_args': ((), RoutingArgs())}
        self.written = {}

    def getitem(self, I, key):
        if not isinstance(key, str):
            raise Undecided('environ[%r]' % (key,))
        if key in self.written:
            return self.written[key]
        if key in self.d:
            return self.d[key]
        present = z3.Bool('environ.has.' + key)
        if not I.ex.branch(present):
            I.raise_(KeyError, key)
        return self._value(I, key)

    def _value(self, I, key):
        if key not in self.d:
            self.d[key] = Sym(z3.Const('environ.' + key, StrSort), 'str')
        return self.d[key]

    def setitem(self, I, key, value):
        self.written[key] = value
        I.event('environ.set', key, value)

    def contains(self, I, key):
        if key in self.d or key in self.written:
            return True
        return z3.Bool('environ.has.' + key)

    def getattr(self, I, name):
        if name == 'get':
            return BoundMethod(self, _EnvironGet())
        if name == 'keys':
            raise Undecided('environ.keys()')
        raise Undecided('environ.%s' % name)


class _EnvironGet(Native):
    pure = False

    def call(self, I, args, kwargs):
        env, key = args[0], args[1]
        default = args[2] if len(args) > 2 else None
        if key in env.written:
            return env.written[key]
        if key in env.d and not isinstance(env.d[key], Sym):
            return env.d[key]
        present = z3.Bool('environ.has.' + key)
        if I.ex.branch(present):
            return env._value(I, key)
        return default


class ResponseStub(Native):
    def __init__(self):
        self.fields = {'status': 200, 'body': None, 'content_type': None,
                       'location': None, 'last_modified': None,
                       'cache_control': None}
        self.headers = VDict()

    def getattr(self, I, name):
        if name == 'headers':
            return self.headers
        if name in self.fields:
            return self.fields[name]
        raise Undecided('response.%s' % name)

    def setattr(self, I, name, value):
        self.fields[name] = value
        I.event('response.set', name, value)


class AcceptStub(Native):
    def truth(self, I):
        return z3.Bool('req.accept.present')

    def getattr(self, I, name):
        if name == 'acceptable_offers':
            return BoundMethod(self, _AcceptOffers())
        raise Undecided('accept.%s' % name)


class _AcceptOffers(Native):
    def call(self, I, args, kwargs):
        ok = z3.Bool('req.accept.matches')
        if I.ex.branch(ok):
            return VList([('application/json', 1.0)])
        return VList([])


class QueryStub(Native):
    """req.GET (a MultiDict): parameters are present or not (Bool), values
    are opaque strings; `getall` returns a list of unknown length >= 0."""

    def __init__(self, schema=None):
        self.vals = {}

    def _present(self, key):
        return z3.Bool('GET.has.' + key)

    def _val(self, key):
        if key not in self.vals:
            self.vals[key] = Sym(z3.Const('GET.' + key, StrSort), 'str')
        return self.vals[key]

    def contains(self, I, key):
        if not isinstance(key, str):
            raise Undecided('symbolic key in req.GET')
        return self._present(key)

    def getitem(self, I, key):
        if not I.ex.branch(self._present(key)):
            I.raise_(KeyError, key)
        return self._val(key)

    def getattr(self, I, name):
        if name in ('get', 'getall', 'items', 'keys', 'getone'):
            return BoundMethod(self, _QueryMethod(name))
        raise Undecided('req.GET.%s' % name)


class _QueryMethod(Native):
    def __init__(self, name):
        self.name = name

    def call(self, I, args, kwargs):
        q = args[0]
        if self.name == 'get':
            key = args[1]
            default = args[2] if len(args) > 2 else kwargs.get('default')
            if I.ex.branch(q._present(key)):
                return q._val(key)
            return default
        if self.name == 'getall':
            key = args[1]
            return I.ghost.setdefault(('getall', key),
                                      I.fresh_list('GET.all.' + key, 'str'))
        raise Undecided('req.GET.%s()' % self.name)


class ReqStub(Native):
    def __init__(self, ctx, version):
        self.environ = EnvironStub(ctx, version)
        self.response = ResponseStub()
        self.GET = QueryStub()
        self.accept = AcceptStub()
        self.attrs = {
            'body': Sym(z3.Const('req.body', StrSort), 'str'),
            'content_type': Sym(z3.Const('req.content_type', StrSort), 'str'),
            'method': Sym(z3.Const('req.method', StrSort), 'str'),
        }

    def getattr(self, I, name):
        if name in ('environ', 'response', 'GET', 'accept'):
            return getattr(self, name)
        if name in self.attrs:
            return self.attrs[name]
        if name == 'headers':
            return Opaque('req.headers')
        raise Undecided('req.%s' % name)

    def setattr(self, I, name, value):
        self.attrs[name] = value


# --------------------------------------------------------------------------
# JSON documents shaped by a real schema dict

class JsonObj(VDict):
    """Instance of {"type": "object", "properties": ...}: concrete keys;
    optional keys carry a presence Bool (self.present[key])."""

    def __init__(self, items=None, present=None):
        VDict.__init__(self, items)
        self.present = dict(present or {})


class JsonMap(Native):
    """Instance of an object with patternProperties: symbolic keys of sort
    Str; the value under key k is an instance of the sub-schema whose leaves
    are functions of k (and of the enclosing indices)."""

    def __init__(self, I, schema, name, key_pattern, value_schema,
                 min_props=0, path=()):
        self.schema = schema
        self.name = name
        self.key_pattern = key_pattern
        self.value_schema = value_schema
        self.path = tuple(path)
        ds = z3.ArraySort(StrSort, z3.BoolSort())
        if path:
            f = z3.Function(name + '.dom', *([t.sort() for t in path] + [ds]))
            self.dom = f(*path)
        else:
            self.dom = z3.Const(name + '.dom', ds)
        self.cache = {}
        self.min_props = min_props
        self.seq = None
        self.I = I

    def value_at(self, I, kterm):
        key = kterm.sexpr()
        if key not in self.cache:
            self.cache[key] = instance(I, self.value_schema, self.name + '[]',
                                       self.path + (kterm,))
        return self.cache[key]

    def sequence(self, I, name):
        if self.seq is None or self.seq_owner is not I:
            base = I._enum(self.dom, 'str', self.name, self)
            if I.ex.qdepth == 0 and not self.path:
                I.ex.assume(base.len >= self.min_props)
            self.seq = base
            self.seq_owner = I
        return self.seq

    def truth(self, I):
        seq = self.sequence(I, self.name)
        return seq.len > 0

    def length(self, I):
        return from_term(self.sequence(I, self.name).len, 'int')

    def contains(self, I, key):
        return z3.Select(self.dom, to_term(key, 'str'))

    def getitem(self, I, key):
        kt = to_term(key, 'str')
        if not I.ex.branch(z3.Select(self.dom, kt)):
            I.raise_(KeyError, key)
        return self.value_at(I, kt)

    def getattr(self, I, name):
        if name in ('items', 'keys', 'values', 'get'):
            return BoundMethod(self, _JsonMapMethod(name))
        raise Undecided('JsonMap.%s' % name)

    def iter_value(self, I):
        return _JsonMapView(self, 'keys')


class _JsonMapView(Native):
    def __init__(self, m, what):
        self.m = m
        self.what = what

    def sequence(self, I, name):
        base = self.m.sequence(I, name)
        m, what = self.m, self.what

        def elem(I_, i):
            k = base.element(I_, i)
            if what == 'keys':
                return k
            v = m.value_at(I_, to_term(k, 'str'))
            return v if what == 'values' else (k, v)
        s = _Seq(base.len, elem, m)
        s.at, s.idx = base.at, base.idx
        return s

    def iter_value(self, I):
        return self

    def truth(self, I):
        return self.m.truth(I)


class _JsonMapMethod(Native):
    def __init__(self, name):
        self.name = name

    def call(self, I, args, kwargs):
        m = args[0]
        if self.name in ('items', 'keys', 'values'):
            return _JsonMapView(m, self.name)
        if self.name == 'get':
            kt = to_term(args[1], 'str')
            if I.ex.branch(z3.Select(m.dom, kt)):
                return m.value_at(I, kt)
            return args[2] if len(args) > 2 else None
        raise Undecided('JsonMap.%s()' % self.name)


class JsonList(Native):
    """Instance of {"type": "array", "items": S} of symbolic length; the i-th
    item is an instance whose leaves are functions of i."""

    def __init__(self, I, schema, name, path=()):
        self.schema = schema
        self.name = name
        self.path = tuple(path)
        if path:
            self.len = z3.Function(name + '.len', *([t.sort() for t in path] +
                                                    [z3.IntSort()]))(*path)
        else:
            self.len = z3.Int(name + '.len')
            I.ex.assume(self.len >= schema.get('minItems', 0))
        self.cache = {}

    def sequence(self, I, name):
        def elem(I_, i):
            key = z3.simplify(i).sexpr() if not isinstance(i, int) else str(i)
            it = i if not isinstance(i, int) else z3.IntVal(i)
            if key not in self.cache:
                self.cache[key] = instance(I_, self.schema.get('items', {}),
                                           self.name + '[]', self.path + (it,))
            return self.cache[key]
        return _Seq(self.len, elem, self)

    def truth(self, I):
        return self.len > 0

    def length(self, I):
        return from_term(self.len, 'int')

    def iter_value(self, I):
        return self


def string_facts(I, term, schema):
    """What a validated string is known to satisfy (from the real schema)."""
    import re as _re
    pat = schema.get('pattern')
    if schema.get('minLength', 0) >= 1 or (pat and _re.search(pat, '') is None):
        I.ex.assume(z3.Function('str_nonempty', StrSort, z3.BoolSort())(term))
    if pat and pat.startswith('^CUSTOM_'):
        I.ex.assume(z3.Function('custom_prefixed', StrSort, z3.BoolSort())(term))


def _leaf(I, name, sort, path):
    """Scalar leaf: a constant at top level, a function of the enclosing
    indices inside containers."""
    if not path:
        return z3.Const(I.ex.fresh_name(name), sort)
    f = z3.Function(name, *([t.sort() for t in path] + [sort]))
    return f(*path)


def _fact(I, path, mk):
    """Assume a validation fact about a leaf; inside containers the fact
    holds for every index (it is a property of the validated document)."""
    if not path:
        I.ex.assume(mk(()))
        return
    vs = [z3.Const('ix!%d' % k, t.sort()) for k, t in enumerate(path)]
    key = ('jsonfact', str(mk(tuple(vs))))
    if key in I.ghost:
        return
    I.ghost[key] = True
    I.ex.hyp(ops.forall(vs, mk(tuple(vs))))
    # and the ground instance at hand (keeps simple paths quantifier-free)
    if all(not _has_bound(t) for t in path):
        I.ex.assume(mk(tuple(path)))


def _has_bound(t):
    return False


def instance(I, schema, name, path=()):
    """A symbolic instance of the (real) JSON-schema dict `schema`."""
    t = schema.get('type')
    if isinstance(t, list):
        nullable = 'null' in t
        others = [x for x in t if x != 'null']
        if len(others) != 1:
            raise Undecided('schema type list %r' % (t,))
        v = instance(I, dict(schema, type=others[0]), name, path)
        if nullable:
            if isinstance(v, Sym):
                v.none = _leaf(I, name + '?null', z3.BoolSort(), path)
            else:
                raise Undecided('nullable non-scalar in schema')
        return v
    if t == 'object' or (t is None and ('properties' in schema or
                                        'patternProperties' in schema)):
        if 'patternProperties' in schema:
            pats = schema['patternProperties']
            if len(pats) != 1 or schema.get('properties'):
                raise Undecided('object schema mixing properties and patterns')
            (pat, sub), = pats.items()
            m = JsonMap(I, schema, name if path else I.ex.fresh_name(name),
                        pat, sub, schema.get('minProperties', 0), path)
            m.closed = schema.get('additionalProperties', True) is False
            return m
        props = schema.get('properties', {})
        required = set(schema.get('required', []))
        o = JsonObj()
        for k, sub in props.items():
            o.items[k] = instance(I, sub, '%s.%s' % (name, k), path)
            if k not in required:
                o.present[k] = _leaf(I, '%s.has.%s' % (name, k),
                                     z3.BoolSort(), path)
        o.extra_allowed = schema.get('additionalProperties', True) is not False
        return o
    if t == 'array':
        items = schema.get('items', {})
        if items.get('type') in ('string', 'integer') and not path:
            ety = 'str' if items['type'] == 'string' else 'int'
            lst = I.fresh_list(name, ety)
            I.ex.assume(lst.len >= schema.get('minItems', 0))
            return lst
        return JsonList(I, schema, name if path else I.ex.fresh_name(name), path)
    if t == 'integer':
        v = Sym(_leaf(I, name, z3.IntSort(), path), 'int')
        f = z3.Function(name, *([x.sort() for x in path] + [z3.IntSort()])) \
            if path else None
        if 'minimum' in schema:
            mn = int(schema['minimum'])
            _fact(I, path, lambda ix: (f(*ix) if path else v.t) >= mn)
        if 'maximum' in schema:
            mx = int(schema['maximum'])
            _fact(I, path, lambda ix: (f(*ix) if path else v.t) <= mx)
        return v
    if t == 'number':
        v = Sym(_leaf(I, name, z3.RealSort(), path), 'real')
        # A-real: python's json accepts NaN / Infinity and jsonschema's
        # `maximum` does not reject NaN: non-finiteness is a ghost flag
        nf = _leaf(I, name + '?nonfinite', z3.BoolSort(), path)
        I.ghost.setdefault('nonfinite', {})[v.t.sexpr()] = nf
        if not path:
            if 'maximum' in schema:
                I.ex.assume(z3.Implies(z3.Not(nf), v.t <= z3.RealVal(
                    repr(float(schema['maximum'])))))
            if 'minimum' in schema:
                I.ex.assume(z3.Implies(z3.Not(nf), v.t >= z3.RealVal(
                    repr(float(schema['minimum'])))))
        return v
    if t == 'string':
        v = Sym(_leaf(I, name, StrSort, path), 'str')
        I.ghost.setdefault('validated', {})[v.t.sexpr()] = schema
        f = z3.Function(name, *([x.sort() for x in path] + [StrSort])) \
            if path else None
        tm = (lambda ix: f(*ix)) if path else (lambda ix: v.t)
        if schema.get('format') == 'uuid':
            p_ = z3.Function('is_uuid_like', StrSort, z3.BoolSort())
            _fact(I, path, lambda ix: p_(tm(ix)))
        import re as _re
        pat = schema.get('pattern')
        if schema.get('minLength', 0) >= 1 or (pat and _re.search(pat, '') is None):
            p2 = z3.Function('str_nonempty', StrSort, z3.BoolSort())
            _fact(I, path, lambda ix: p2(tm(ix)))
        if pat and pat.startswith('^CUSTOM_'):
            p3 = z3.Function('custom_prefixed', StrSort, z3.BoolSort())
            _fact(I, path, lambda ix: p3(tm(ix)))
        if 'enum' in schema:
            _fact(I, path, lambda ix: z3.Or(*[tm(ix) == str_const(e)
                                               for e in schema['enum']]))
        return v
    if t == 'boolean':
        return Sym(_leaf(I, name, z3.BoolSort(), path), 'bool')
    if t == 'null':
        return None
    if t is None:
        return Opaque('json value of unconstrained type (%s)' % name)
    raise Undecided('schema type %r' % (t,))


def extract_json_contract(I, args, kwargs):
    """util.extract_json(body, schema) (A-lib: jsonschema.validate accepts
    exactly the instances of the schema)."""
    schema = args[1] if len(args) > 1 else kwargs.get('schema')
    if isinstance(schema, VDict):
        schema = unlift(schema)
    I.event('extract_json', id(schema))
    I.ghost['last_schema'] = schema
    ok = z3.Bool(I.ex.fresh_name('body_valid'))
    if not I.ex.branch(ok):
        I.raise_(webob.exc.HTTPBadRequest)
    body = args[0]
    prov = I.ghost.get('fmt_provenance', {})
    if isinstance(body, Sym) and body.t.sexpr() in prov:
        # JSON text built by formatting ONE string into '{"<key>": "%s"}'
        # (update_resource_class): the validated value is that string
        # (A-lib; JSON escapes inside the value are not modelled)
        args_ = prov[body.t.sexpr()]
        props = schema.get('properties', {})
        if len(args_) == 1 and isinstance(args_[0], Sym) and len(props) == 1:
            (k, sub), = props.items()
            if k in schema.get('required', []):
                string_facts(I, args_[0].t, sub)
    jprov = I.ghost.get('json_provenance', {})
    if isinstance(body, Sym) and body.t.sexpr() in jprov:
        # the text was produced by jsonutils.dumps(x): the validated document
        # is x itself
        doc = jprov[body.t.sexpr()]
        if isinstance(doc, VDict) and schema.get('type') == 'object':
            for k, sub in schema.get('properties', {}).items():
                v = doc.items.get(k)
                if isinstance(v, Sym) and v.ty == 'str' and \
                        sub.get('type') == 'string':
                    string_facts(I, v.t, sub)
                    I.ghost.setdefault('validated', {})[v.t.sexpr()] = sub
            I.event('extract_json.result', doc)
            return doc
    inst = instance(I, schema, 'body')
    I.event('extract_json.result', inst)
    return inst


def validate_query_params_contract(I, args, kwargs):
    schema = args[1]
    if isinstance(schema, VDict):
        schema = unlift(schema)
    I.event('validate_query_params', id(schema))
    I.ghost['last_query_schema'] = schema
    ok = z3.Bool(I.ex.fresh_name('query_valid'))
    if not I.ex.branch(ok):
        I.raise_(webob.exc.HTTPBadRequest)
    return None


def unlift(v):
    """Engine value built by Interp.lift from a real constant -> the real
    Python structure again (schemas)."""
    if isinstance(v, VDict):
        return {k: unlift(x) for k, x in v.items.items()}
    if isinstance(v, VList):
        return [unlift(x) for x in v.items]
    if isinstance(v, VSet):
        return set(v.items)
    if isinstance(v, tuple):
        return tuple(unlift(x) for x in v)
    return v
