"""Sidecar contracts for the allocation-candidate post-processing:
RequestWideSearchContext.limit_results (C20), random.sample / random.shuffle
(A-lib: documented behaviour of the standard library), loop invariants of
limit_results, and the assumed contracts used by the proof of
AllocationCandidates._get_by_requests."""
import random

import z3

from pyvc.core import Undecided
from pyvc.interp import LoopSpec, FieldSpec
from pyvc.values import Sym, Obj, SList, SSet, SMap, VList, StrSort, Native
from pyvc import ops

from placement.objects import allocation_candidate as ac
from placement.objects import research_context as res_ctx

from contracts.classes import RP

AREQ = ac.AllocationRequest
ARR = ac.AllocationRequestResource
PSUM = ac.ProviderSummary
RWSC = res_ctx.RequestWideSearchContext

LQ = 'RequestWideSearchContext.limit_results'

FIELDS = {
    ('RequestWideSearchContext', '_limit'): FieldSpec('int', True),
    ('RequestWideSearchContext', '_nested_aware'): FieldSpec('bool'),
    ('RequestWideSearchContext', 'has_trees'): FieldSpec('bool'),
}


# --------------------------------------------------------------------------
# terms
def rr(I, a):
    """(len, arr) of a.resource_requests for an AllocationRequest ref a"""
    cid = z3.Select(I.fld(AREQ, 'resource_requests'), a)
    fl, fa = I.coll_fns(('list', ('obj', ARR)))
    return fl(cid), fa(cid)


def arr_root(I, x):
    """root uuid of the provider of an AllocationRequestResource ref"""
    return z3.Select(I.fld(RP, 'root_provider_uuid'),
                     z3.Select(I.fld(ARR, 'resource_provider'), x))


def arr_uuid(I, x):
    return z3.Select(I.fld(RP, 'uuid'),
                     z3.Select(I.fld(ARR, 'resource_provider'), x))


def sum_root(I, s):
    return z3.Select(I.fld(RP, 'root_provider_uuid'),
                     z3.Select(I.fld(PSUM, 'resource_provider'), s))


def sum_uuid(I, s):
    return z3.Select(I.fld(RP, 'uuid'),
                     z3.Select(I.fld(PSUM, 'resource_provider'), s))


# --------------------------------------------------------------------------
# random.sample / random.shuffle (A-lib)
def sample_contract(I, args, kwargs):
    """random.sample(population, k): a new list of k elements taken from
    pairwise distinct positions of the population (ValueError if k is out of
    range)."""
    pop, k = args[0], args[1]
    if not isinstance(pop, SList):
        raise Undecided('random.sample of %r' % (pop,))
    kt = ops.to_term(k, 'int')
    I.ex.oblige('A.sample.requires', z3.And(kt >= 0, kt <= pop.len), 'A')
    out = I.fresh_list('sample', pop.ety)
    idx = z3.Function(I.ex.fresh_name('sample_idx'), z3.IntSort(), z3.IntSort())
    p, p2 = z3.Ints('p!smp p2!smp')
    I.ex.assume(out.len == kt)
    I.ex.hyp(ops.forall([p], z3.Implies(
        z3.And(p >= 0, p < out.len),
        z3.And(idx(p) >= 0, idx(p) < pop.len,
               z3.Select(out.arr, p) == z3.Select(pop.arr, idx(p)))),
        patterns=[z3.Select(out.arr, p)]))
    I.ex.hyp(ops.forall([p, p2], z3.Implies(
        z3.And(p >= 0, p < p2, p2 < out.len), idx(p) != idx(p2)),
        patterns=[z3.MultiPattern(idx(p), idx(p2))]))
    I.event('random', 'sample')
    I.ghost['sample_idx'] = idx
    return out


def shuffle_contract(I, args, kwargs):
    """random.shuffle(x): x is permuted in place."""
    lst = args[0]
    if not isinstance(lst, SList):
        raise Undecided('random.shuffle of %r' % (lst,))
    perm = z3.Function(I.ex.fresh_name('perm'), z3.IntSort(), z3.IntSort())
    inv = z3.Function(I.ex.fresh_name('perm_inv'), z3.IntSort(), z3.IntSort())
    old = lst.arr
    new = z3.Const(I.ex.fresh_name('shuffled'), old.sort())
    p = z3.Int('p!shf')
    n = lst.len
    I.ex.hyp(ops.forall([p], z3.Implies(
        z3.And(p >= 0, p < n),
        z3.And(perm(p) >= 0, perm(p) < n, inv(perm(p)) == p,
               z3.Select(new, p) == z3.Select(old, perm(p)))),
        patterns=[z3.Select(new, p)]))
    I.ex.hyp(ops.forall([p], z3.Implies(
        z3.And(p >= 0, p < n),
        z3.And(inv(p) >= 0, inv(p) < n, perm(inv(p)) == p,
               z3.Select(new, inv(p)) == z3.Select(old, p))),
        patterns=[inv(p), z3.Select(old, p)]))
    lst.arr = new
    I.touched(lst)
    I.event('random', 'shuffle')
    I.ghost['shuffle_inv'] = inv
    return None


# --------------------------------------------------------------------------
# loop invariants of limit_results
def _set_of(frame):
    s = frame.locals['alloc_req_root_uuids']
    if not isinstance(s, SSet):
        raise Undecided('alloc_req_root_uuids is %r' % (s,))
    return s


def l1_inv(I, frame, i, seq):
    """outer loop over the kept requests: the roots of all providers named by
    requests 0 .. i-1 are in the set"""
    s = _set_of(frame)
    kept = frame.locals['alloc_request_objs']
    j, q = z3.Ints('j!l1 q!l1')
    a = z3.Select(kept.arr, j)
    ln, ar = rr(I, a)
    return [ops.forall([j, q], z3.Implies(
        z3.And(j >= 0, j < i, q >= 0, q < ln),
        z3.Select(s.arr, arr_root(I, z3.Select(ar, q)))),
        patterns=[z3.Select(ar, q)])]


def l2_entry(I, frame, seq):
    I.ghost['l2.set0'] = _set_of(frame).arr


def l2_inv(I, frame, i, seq):
    """inner loop over one request's resources: the set only grows and
    contains the roots of resources 0 .. i-1"""
    s = _set_of(frame)
    s0 = I.ghost['l2.set0']
    u = z3.Const('u!l2', StrSort)
    q = z3.Int('q!l2')
    aro = frame.locals['aro']
    ln, ar = rr(I, aro.ref)
    return [
        ops.forall([u], z3.Implies(z3.Select(s0, u), z3.Select(s.arr, u)),
                   patterns=[z3.Select(s0, u)]),
        ops.forall([q], z3.Implies(
            z3.And(q >= 0, q < i),
            z3.Select(s.arr, arr_root(I, z3.Select(ar, q)))),
            patterns=[z3.Select(ar, q)]),
    ]


def l3_inv(I, frame, i, seq):
    """summaries 0 .. i-1 whose root is in the set are kept; everything kept
    is one of them"""
    s = _set_of(frame)
    kept = frame.locals['kept_summary_objs']
    sums = frame.locals['summary_objs']
    if not isinstance(kept, SList) or not isinstance(sums, SList):
        raise Undecided('limit_results: summaries are %r / %r' % (kept, sums))
    j, p = z3.Ints('j!l3 p!l3')
    return [
        ops.forall([p], z3.Implies(
            z3.And(p >= 0, p < kept.len),
            z3.Exists([j], z3.And(j >= 0, j < i, z3.Select(kept.arr, p) ==
                                  z3.Select(sums.arr, j)))),
            patterns=[z3.Select(kept.arr, p)]),
        ops.forall([j], z3.Implies(
            z3.And(j >= 0, j < i,
                   z3.Select(s.arr, sum_root(I, z3.Select(sums.arr, j)))),
            z3.Exists([p], z3.And(p >= 0, p < kept.len, z3.Select(kept.arr, p)
                                  == z3.Select(sums.arr, j)))),
            patterns=[z3.Select(sums.arr, j)]),
    ]


LOOPS = {
    (LQ, 1): LoopSpec(invariant=l1_inv, name='C20.limit.roots',
                      keep=('alloc_request_objs', 'summary_objs', 'self',
                            'kept_summary_objs')),
    (LQ, 2): LoopSpec(invariant=l2_inv, on_entry=l2_entry,
                      name='C20.limit.roots_inner',
                      keep=('alloc_request_objs', 'summary_objs', 'self',
                            'aro', 'kept_summary_objs')),
    (LQ, 3): LoopSpec(invariant=l3_inv, name='C20.limit.summaries',
                      keep=('alloc_request_objs', 'summary_objs', 'self',
                            'alloc_req_root_uuids')),
}

HAVOC_TYPES = {
    (LQ, 'kept_summary_objs'): ('list', ('obj', PSUM)),
    (LQ, 'alloc_req_root_uuids'): ('set', 'str'),
}


# --------------------------------------------------------------------------
# contract of limit_results: requires / ensures (also used as the stub at
# its call site in _get_by_requests)
def limit_requires(I, areqs, sums, skolem=True):
    """Pre-state: pairwise distinct request objects; every provider object has
    a root uuid; every provider named by a request has a summary (same uuid,
    same root) -- the three facts _merge_candidates / exclude_nested_providers
    establish."""
    j, j2, q = z3.Ints('j!lr j2!lr q!lr')
    sm = z3.Function(I.ex.fresh_name('summary_of'), z3.IntSort(),
                     z3.IntSort(), z3.IntSort())
    a = z3.Select(areqs.arr, j)
    ln, ar = rr(I, a)
    x = z3.Select(ar, q)
    s = z3.Select(sums.arr, sm(j, q))
    r = z3.Int('r!lr')
    return [
        ops.forall([j, j2], z3.Implies(
            z3.And(j >= 0, j < j2, j2 < areqs.len),
            z3.Select(areqs.arr, j) != z3.Select(areqs.arr, j2)),
            patterns=[z3.MultiPattern(z3.Select(areqs.arr, j),
                                      z3.Select(areqs.arr, j2))]),
        ops.forall([r], z3.Not(z3.Select(
            I.fld_none(RP, 'root_provider_uuid'), r)),
            patterns=[z3.Select(I.fld_none(RP, 'root_provider_uuid'), r)]),
        ops.forall([j, q], z3.Implies(
            z3.And(j >= 0, j < areqs.len, q >= 0, q < ln),
            z3.And(sm(j, q) >= 0, sm(j, q) < sums.len,
                   sum_uuid(I, s) == arr_uuid(I, x),
                   sum_root(I, s) == arr_root(I, x))),
            patterns=[z3.Select(ar, q)]) if skolem else
        ops.forall([j, q], z3.Implies(
            z3.And(j >= 0, j < areqs.len, q >= 0, q < ln),
            z3.Exists([r], z3.And(
                r >= 0, r < sums.len,
                sum_uuid(I, z3.Select(sums.arr, r)) == arr_uuid(I, x),
                sum_root(I, z3.Select(sums.arr, r)) == arr_root(I, x)))),
            patterns=[z3.Select(ar, q)]),
    ]


def limit_contract(I, args, kwargs):
    """stub of limit_results at its call sites (the body is proved against
    the same requires / ensures by props/C20.py:script_limit)"""
    rw, areqs, sums = args[0], args[1], args[2]
    if not isinstance(areqs, SList) or not isinstance(sums, SList):
        raise Undecided('limit_results called with %r, %r' % (areqs, sums))
    for k, f in enumerate(limit_requires(I, areqs, sums, skolem=False)):
        I.ex.oblige('C20.limit.requires.%d' % k, f, 'A')
    limit = I.read_field(rw, '_limit')
    if limit is None:
        limit = Sym(z3.IntVal(0), 'int', z3.BoolVal(True))
    elif not isinstance(limit, Sym):
        limit = Sym(z3.IntVal(limit), 'int', z3.BoolVal(False))
    elif limit.none is None:
        limit = Sym(limit.t, 'int', z3.BoolVal(False))
    randomize = I.ghost['ctx'].getattr(I, 'config').getattr(
        I, 'placement').getattr(I, 'randomize_allocation_candidates')
    arr0 = areqs.arr
    out_a = I.fresh_list('limited', areqs.ety)
    out_s = I.fresh_list('limited_sums', sums.ety)
    # randomisation without a limit shuffles the argument in place
    areqs.arr = z3.Const(I.ex.fresh_name('maybe_shuffled'), arr0.sort())
    I.ex.assume(z3.Implies(z3.Not(randomize.t), areqs.arr == arr0))
    for f in limit_ensures(I, limit, randomize.t, areqs, sums, out_a, out_s,
                           arr0).values():
        I.ex.hyp(f)
    I.event('limit', (areqs, sums), (out_a, out_s))
    return (out_a, out_s)


def limit_ensures(I, limit, randomize, areqs, sums, out_a, out_s,
                  areqs_arr0=None):
    """Post-state, as the property states it.  limit: Sym int nullable;
    randomize: z3 Bool; areqs / sums: the inputs (areqs_arr0: contents of the
    input list at entry -- shuffle permutes in place); out_a / out_s: the
    returned lists."""
    lim = limit.t
    has_limit = z3.And(z3.Not(limit.none) if limit.none is not None
                       else z3.BoolVal(True), lim != 0)
    a0 = areqs_arr0 if areqs_arr0 is not None else areqs.arr
    m = areqs.len
    p, p2, j, q, s = z3.Ints('p!le p2!le j!le q!le s!le')
    want = z3.If(z3.And(has_limit, lim < m), lim, m)
    op = z3.Select(out_a.arr, p)
    ln, ar = rr(I, op)
    x = z3.Select(ar, q)
    os_ = z3.Select(out_s.arr, s)
    return {
        'count': out_a.len == want,
        'members': ops.forall([p], z3.Implies(
            z3.And(p >= 0, p < out_a.len),
            z3.Exists([j], z3.And(j >= 0, j < m, op == z3.Select(a0, j)))),
            patterns=[z3.Select(out_a.arr, p)]),
        'distinct': ops.forall([p, p2], z3.Implies(
            z3.And(p >= 0, p < p2, p2 < out_a.len),
            op != z3.Select(out_a.arr, p2)),
            patterns=[z3.MultiPattern(z3.Select(out_a.arr, p),
                                      z3.Select(out_a.arr, p2))]),
        'deterministic_prefix': z3.Implies(z3.Not(randomize), ops.forall(
            [p], z3.Implies(z3.And(p >= 0, p < out_a.len),
                            op == z3.Select(a0, p)),
            patterns=[z3.Select(out_a.arr, p)])),
        'unlimited_is_permutation': z3.Implies(
            z3.Not(z3.And(has_limit, lim < m)), ops.forall(
                [j], z3.Implies(
                    z3.And(j >= 0, j < m),
                    z3.Exists([p], z3.And(p >= 0, p < out_a.len,
                                          op == z3.Select(a0, j)))),
                patterns=[z3.Select(a0, j)])),
        'summaries_cover': ops.forall([p, q], z3.Implies(
            z3.And(p >= 0, p < out_a.len, q >= 0, q < ln),
            z3.Exists([s], z3.And(s >= 0, s < out_s.len,
                                  sum_uuid(I, os_) == arr_uuid(I, x),
                                  sum_root(I, os_) == arr_root(I, x)))),
            patterns=[z3.Select(ar, q)]),
        'summaries_from_input': ops.forall([s], z3.Implies(
            z3.And(s >= 0, s < out_s.len),
            z3.Exists([j], z3.And(j >= 0, j < sums.len,
                                  os_ == z3.Select(sums.arr, j)))),
            patterns=[z3.Select(out_s.arr, s)]),
    }


# ==========================================================================
# C02: _consolidate_allocation_requests, exceeds_capacity
CQ = '_consolidate_allocation_requests'
KEY = ('tuple', ('int', 'str'))           # (provider id, resource class)
PSR = ac.ProviderSummaryResource

C02_FIELDS = {
    ('RequestWideSearchContext', 'group_policy'): FieldSpec('str', True),
    ('RequestWideSearchContext', 'multi_group_rcs'): FieldSpec(('set', 'str')),
    ('RequestWideSearchContext', 'psum_res_by_rp_rc'): FieldSpec(
        ('map', KEY, ('obj', PSR))),
}


def arr_key(I, x, amount_arr=None):
    from pyvc.values import sort_of
    rp = z3.Select(I.fld(ARR, 'resource_provider'), x)
    return sort_of(KEY).mk(z3.Select(I.fld(RP, 'id'), rp),
                           z3.Select(I.fld(ARR, 'resource_class'), x))


def copy_contract(I, args, kwargs):
    """copy.copy of a heap object: a new object with the same field values"""
    src = args[0]
    if not isinstance(src, Obj):
        raise Undecided('copy.copy of %r' % (src,))
    cname = src.cls.__name__
    if '__copy__' in vars(src.cls):
        # the class says how it is copied: run its own __copy__; ghost
        # fields follow the object
        new = I.call(vars(src.cls)['__copy__'], [src], {})
        for (cn, fld), spec in I.registry['fields'].items():
            if cn == cname and fld.startswith('ghost_'):
                I.write_field(new, fld, I.read_field(src, fld))
        I.event('copy', src, new)
        return new
    new = I.alloc(src.cls)
    for (cn, fld), spec in I.registry['fields'].items():
        if cn == cname:
            I.write_field(new, fld, I.read_field(src, fld))
    I.event('copy', src, new)
    return new


def consolidate_ghost(I):
    """ghost sums: T(j, q, k) = sum of the entry amounts of resources 0..q-1
    of request j with key k;  S(j, k) = sum over requests 0..j-1."""
    from pyvc.values import sort_of
    g = I.ghost
    if 'cons.S' not in g:
        ks = sort_of(KEY)
        n = I.ex.fresh_name
        g['cons.S'] = z3.Function(n('S'), z3.IntSort(), ks, z3.IntSort())
        g['cons.T'] = z3.Function(n('T'), z3.IntSort(), z3.IntSort(), ks,
                                  z3.IntSort())
    return g['cons.S'], g['cons.T']


def cons_entry(I, frame, seq):
    I.ghost.setdefault('cons.amount0', I.fld(ARR, 'amount'))
    I.ghost.setdefault('cons.areqs', frame.locals['areqs'])
    I.ghost.setdefault('cons.mark', I.next_ref)


def first_fns(I):
    """ghost: (fj(k), fq(k)) = the first position (request, resource) whose
    key is k, has(k) = there is one"""
    from pyvc.values import sort_of
    g = I.ghost
    if 'cons.fj' not in g:
        ks = sort_of(KEY)
        n = I.ex.fresh_name
        g['cons.fj'] = z3.Function(n('fj'), ks, z3.IntSort())
        g['cons.fq'] = z3.Function(n('fq'), ks, z3.IntSort())
        g['cons.has'] = z3.Function(n('has'), ks, z3.BoolSort())
    return g['cons.fj'], g['cons.fq'], g['cons.has']


def first_axioms(I, areqs):
    """definition of fj / fq / has (a function of the input only)"""
    from pyvc.values import sort_of
    fj, fq, has = first_fns(I)
    ks = sort_of(KEY)
    k = z3.Const('k!first', ks)
    j, q = z3.Ints('j!first q!first')
    ln, ar = rr(I, z3.Select(areqs.arr, j))
    x = z3.Select(ar, q)
    lnf, arf = rr(I, z3.Select(areqs.arr, fj(k)))
    kk = arr_key(I, x)
    return [
        ops.forall([k], z3.Implies(has(k), z3.And(
            fj(k) >= 0, fj(k) < areqs.len, fq(k) >= 0, fq(k) < lnf,
            arr_key(I, z3.Select(arf, fq(k))) == k)), patterns=[has(k)]),
        ops.forall([j, q], z3.Implies(
            z3.And(j >= 0, j < areqs.len, q >= 0, q < ln),
            z3.And(has(kk), z3.Or(fj(kk) < j,
                                  z3.And(fj(kk) == j, fq(kk) <= q)))),
            patterns=[z3.Select(ar, q)]),
    ]


def _before(I, k, j, q):
    fj, fq, has = first_fns(I)
    return z3.And(has(k), z3.Or(fj(k) < j, z3.And(fj(k) == j, fq(k) < q)))


def _cons_defs(I, areqs, j, q=None):
    """definitional axioms of S / T instantiated at request j (and resource
    q of it)"""
    from pyvc.values import sort_of
    S, T = consolidate_ghost(I)
    a0 = I.ghost['cons.amount0']
    ks = sort_of(KEY)
    k = z3.Const('k!cdef', ks)
    a = z3.Select(areqs.arr, j)
    ln, ar = rr(I, a)
    out = [
        ops.forall([k], S(0, k) == 0, patterns=[S(0, k)]),
        ops.forall([k], T(j, 0, k) == 0, patterns=[T(j, 0, k)]),
        ops.forall([k], S(j + 1, k) == S(j, k) + T(j, ln, k),
                   patterns=[S(j + 1, k)]),
    ] + first_axioms(I, areqs)
    if q is not None:
        x = z3.Select(ar, q)
        hit = arr_key(I, x) == k
        out.append(ops.forall([k], T(j, q + 1, k) == T(j, q, k) +
                              z3.If(hit, z3.Select(a0, x), 0),
                              patterns=[T(j, q + 1, k)]))
    return out


def _cons_dict(frame):
    d = frame.locals['arrs_by_rp_rc']
    if not isinstance(d, SMap):
        raise Undecided('arrs_by_rp_rc is %r' % (d,))
    return d


def _cons_common(I, areqs, rw, d, cur_sum, seen):
    """facts about the dict that hold throughout: dom <=> some resource seen;
    amount of the entry == sum so far; the pre-existing objects keep their
    amounts; an entry is a copy made by this call unless its class is
    requested by one group only"""
    from pyvc.values import sort_of
    a0 = I.ghost['cons.amount0']
    mark = I.ghost['cons.mark']
    amt = I.fld(ARR, 'amount')
    multi = I.read_field(rw, 'multi_group_rcs')
    ks = sort_of(KEY)
    k = z3.Const('k!cinv', ks)
    r = z3.Int('r!cinv')
    v = z3.Select(d.val, k)
    return [
        ops.forall([k], z3.Select(d.dom, k) == seen(k),
                   patterns=[z3.Select(d.dom, k)]),
        ops.forall([k], z3.Implies(
            z3.Select(d.dom, k),
            z3.And(z3.Select(amt, v) == cur_sum(k), arr_key(I, v) == k,
                   v >= 0,
                   z3.Or(v > mark, z3.Not(z3.Select(
                       multi.arr, ks.accessor(0, 1)(k)))))),
            patterns=[z3.Select(d.val, k)]),
        ops.forall([r], z3.Implies(z3.And(r >= 0, r <= mark),
                                   z3.Select(amt, r) == z3.Select(a0, r)),
                   patterns=[z3.Select(amt, r)]),
        ops.forall([k], z3.Implies(z3.Not(z3.Select(d.dom, k)),
                                   cur_sum(k) == 0),
                   patterns=[z3.Select(d.dom, k)]),
    ]


def cons_outer_inv(I, frame, i, seq):
    S, T = consolidate_ghost(I)
    d = _cons_dict(frame)
    areqs = frame.locals['areqs']
    return _cons_common(I, areqs, frame.locals['rw_ctx'], d,
                        lambda k: S(i, k), lambda k: _before(I, k, i, 0))


def cons_outer_lemmas(I, frame, i, seq):
    I.ghost['cons.outer_i'] = i
    return _cons_defs(I, frame.locals['areqs'], i)


def cons_inner_inv(I, frame, i, seq):
    S, T = consolidate_ghost(I)
    d = _cons_dict(frame)
    areqs = I.ghost['cons.areqs']
    j = I.ghost['cons.outer_i']
    return _cons_common(I, areqs, frame.locals['rw_ctx'], d,
                        lambda k: S(j, k) + T(j, i, k),
                        lambda k: _before(I, k, j, i))


def cons_inner_lemmas(I, frame, i, seq):
    return _cons_defs(I, I.ghost['cons.areqs'], I.ghost['cons.outer_i'], i)


CONS_LOOPS = {
    (CQ, 1): LoopSpec(invariant=cons_outer_inv, lemmas=cons_outer_lemmas,
                      on_entry=cons_entry, name='C02.cons.outer',
                      keep=('areqs', 'rw_ctx', 'anchor_rp_uuid'),
                      modifies_fields=(('AllocationRequestResource',
                                        'amount'),)),
    (CQ, 2): LoopSpec(invariant=cons_inner_inv, lemmas=cons_inner_lemmas,
                      name='C02.cons.inner',
                      keep=('areqs', 'rw_ctx', 'anchor_rp_uuid', 'areq',
                            'mappings'),
                      modifies_fields=(('AllocationRequestResource',
                                        'amount'),)),
    (CQ, 3): LoopSpec(name='C02.cons.mappings',
                      keep=('areqs', 'rw_ctx', 'anchor_rp_uuid', 'areq',
                            'arrs_by_rp_rc')),
}

CONS_HAVOC_TYPES = {
    (CQ, 'arrs_by_rp_rc'): ('map', KEY, ('obj', ARR)),
}


def consolidate_requires(I, areqs, rw):
    """one request per group, all with the same anchor; within a request the
    (provider, class) keys are pairwise distinct; a key used by two requests
    has its class recorded in multi_group_rcs (established by
    _get_by_requests); provider ids are set"""
    j, j2, q, q2 = z3.Ints('j!cr j2!cr q!cr q2!cr')
    a, a2 = z3.Select(areqs.arr, j), z3.Select(areqs.arr, j2)
    ln, ar = rr(I, a)
    ln2, ar2 = rr(I, a2)
    x, x2 = z3.Select(ar, q), z3.Select(ar2, q2)
    multi = I.read_field(rw, 'multi_group_rcs')
    anchor = I.fld(AREQ, 'anchor_root_provider_uuid')
    anone = I.fld_none(AREQ, 'anchor_root_provider_uuid')
    inr = z3.And(j >= 0, j < areqs.len, q >= 0, q < ln)
    inr2 = z3.And(j2 >= 0, j2 < areqs.len, q2 >= 0, q2 < ln2)
    rpid_none = I.fld_none(RP, 'id')
    return [
        areqs.len >= 1,
        ops.forall([j], z3.Implies(
            z3.And(j >= 0, j < areqs.len),
            z3.And(z3.Select(anchor, a) == z3.Select(anchor, areqs.arr[0]),
                   z3.Select(anone, a) == z3.Select(anone, areqs.arr[0]))),
            patterns=[z3.Select(areqs.arr, j)]),
        ops.forall([j, q, q2], z3.Implies(
            z3.And(inr, q2 >= 0, q2 < ln, q != q2),
            arr_key(I, x) != arr_key(I, z3.Select(ar, q2))),
            patterns=[z3.MultiPattern(z3.Select(ar, q), z3.Select(ar, q2))]),
        ops.forall([j, q, j2, q2], z3.Implies(
            z3.And(inr, inr2, j != j2, arr_key(I, x) == arr_key(I, x2)),
            z3.Select(multi.arr, z3.Select(I.fld(ARR, 'resource_class'), x))),
            patterns=[z3.MultiPattern(z3.Select(ar, q), z3.Select(ar2, q2))]),
        ops.forall([j, q], z3.Implies(inr, z3.And(
            z3.Not(z3.Select(rpid_none, z3.Select(
                I.fld(ARR, 'resource_provider'), x))),
            z3.Select(I.fld(ARR, 'amount'), x) >= 1,
            # the resources are objects that exist when the call is made
            x >= 0, x <= I.next_ref)),
            patterns=[z3.Select(ar, q)]),
    ]


# --- exceeds_capacity ---------------------------------------------------------
EQ = 'RequestWideSearchContext.exceeds_capacity'


def exc_inv(I, frame, i, seq):
    """no resource before index i exceeds"""
    areq = frame.locals['areq']
    rw = frame.locals['self']
    ln, ar = rr(I, areq.ref)
    q = z3.Int('q!exc')
    return [ops.forall([q], z3.Implies(
        z3.And(q >= 0, q < i), z3.Not(exceeds_term(I, rw, z3.Select(ar, q)))),
        patterns=[z3.Select(ar, q)])]


def exceeds_term(I, rw, x):
    m = I.read_field(rw, 'psum_res_by_rp_rc')
    ps = z3.Select(m.val, arr_key(I, x))
    amount = z3.Select(I.fld(ARR, 'amount'), x)
    return z3.Or(
        z3.Select(I.fld(PSR, 'used'), ps) + amount >
        z3.Select(I.fld(PSR, 'capacity'), ps),
        amount > z3.Select(I.fld(PSR, 'max_unit'), ps))


EXC_LOOPS = {
    (EQ, 1): LoopSpec(invariant=exc_inv, name='C02.exceeds',
                      keep=('self', 'areq')),
}


# --- _build_provider_summaries --------------------------------------------------
BQ = '_build_provider_summaries'


class UsageRow(object):
    """row of get_usages_by_provider_trees"""


class PidRow(object):
    """row of _provider_ids_from_root_ids"""


BPS_FIELDS = {
    ('UsageRow', 'resource_provider_id'): FieldSpec('int'),
    ('UsageRow', 'resource_class_id'): FieldSpec('int', True),
    ('UsageRow', 'total'): FieldSpec('int'),
    ('UsageRow', 'reserved'): FieldSpec('int'),
    ('UsageRow', 'allocation_ratio'): FieldSpec('real'),
    ('UsageRow', 'max_unit'): FieldSpec('int'),
    ('UsageRow', 'used'): FieldSpec('int', True),
    ('PidRow', 'id'): FieldSpec('int'),
    ('PidRow', 'uuid'): FieldSpec('str'),
    ('PidRow', 'parent_id'): FieldSpec('int', True),
    ('PidRow', 'root_id'): FieldSpec('int'),
    ('RequestWideSearchContext', 'summaries_by_id'): FieldSpec(
        ('map', 'int', ('obj', PSUM))),
}


def trunc(c):
    fl = z3.ToInt(c)
    return z3.If(c >= 0, fl, z3.If(z3.ToReal(fl) == c, fl, fl + 1))


def bps_entry(I, frame, seq):
    rw = frame.locals['rw_ctx']
    I.ghost['bps.sums0'] = I.read_field(rw, 'summaries_by_id').dom
    I.ghost['bps.rows'] = seq.origin


def bps_row_facts(I, frame, j, psr_map, sum_map, split=False):
    """what the summaries say about usage row j once it is processed"""
    from pyvc.values import sort_of
    rows = I.ghost['bps.rows']
    pids = frame.locals['provider_ids']
    cache = I.ghost['ctx'].getattr(I, 'rc_cache')
    r = z3.Select(rows.arr, j)
    f = lambda n: z3.Select(I.fld(UsageRow, n), r)
    fn = lambda n: z3.Select(I.fld_none(UsageRow, n), r)
    rp_id = f('resource_provider_id')
    key = sort_of(KEY).mk(rp_id, cache.f_str(f('resource_class_id')))
    o = z3.Select(psr_map.val, key)
    pf = lambda n: z3.Select(I.fld(PSR, n), o)
    cap = trunc(z3.ToReal(f('total') - f('reserved')) * f('allocation_ratio'))
    # objects reachable from the maps exist already (reference numbers carry
    # identity only; what an iteration allocates lies above I.next_ref)
    bound = z3.IntVal(I.next_ref)
    resource_parts = [
        z3.And(z3.Select(psr_map.dom, key), o >= 0, o <= bound),
        pf('capacity') == cap,
        pf('used') == z3.If(fn('used'), 0, f('used')),
        pf('max_unit') == f('max_unit'),
        pf('resource_class') == cache.f_str(f('resource_class_id'))]
    if split:
        return [z3.Implies(z3.Not(fn('resource_class_id')), x)
                for x in resource_parts]
    resource_part = z3.Implies(z3.Not(fn('resource_class_id')),
                               z3.And(*resource_parts))
    s = z3.Select(sum_map.val, rp_id)
    rp = z3.Select(I.fld(PSUM, 'resource_provider'), s)
    pid = z3.Select(pids.val, rp_id)
    pg = lambda n, x=None: z3.Select(I.fld(PidRow, n), pid if x is None else x)
    parent_null = z3.Or(z3.Select(I.fld_none(PidRow, 'parent_id'), pid),
                        pg('parent_id') == 0)
    provider_part = z3.And(
        z3.Select(sum_map.dom, rp_id), s >= 0, s <= bound, rp >= 0,
        rp <= bound,
        z3.Select(I.fld(RP, 'id'), rp) == pg('id'),
        z3.Not(z3.Select(I.fld_none(RP, 'id'), rp)),
        z3.Select(I.fld(RP, 'uuid'), rp) == pg('uuid'),
        z3.Not(z3.Select(I.fld_none(RP, 'uuid'), rp)),
        z3.Select(I.fld(RP, 'root_provider_uuid'), rp) ==
        pg('uuid', z3.Select(pids.val, pg('root_id'))),
        z3.Not(z3.Select(I.fld_none(RP, 'root_provider_uuid'), rp)),
        z3.Select(I.fld_none(RP, 'parent_provider_uuid'), rp) == parent_null,
        z3.Implies(z3.Not(parent_null),
                   z3.Select(I.fld(RP, 'parent_provider_uuid'), rp) ==
                   pg('uuid', z3.Select(pids.val, pg('parent_id')))))
    return resource_part, provider_part


def bps_inv(I, frame, i, seq):
    rw = frame.locals['rw_ctx']
    psr_map = I.read_field(rw, 'psum_res_by_rp_rc')
    sum_map = I.read_field(rw, 'summaries_by_id')
    rows = I.ghost['bps.rows']
    j = z3.Int('j!bps')
    x = z3.Int('x!bps')
    res, prov = bps_row_facts(I, frame, j, psr_map, sum_map)
    rpj = z3.Select(I.fld(UsageRow, 'resource_provider_id'),
                    z3.Select(rows.arr, j))
    parts = bps_row_facts(I, frame, j, psr_map, sum_map, split=True)
    return [
        ops.forall([j], z3.Implies(z3.And(j >= 0, j < i), x),
                   patterns=[z3.Select(rows.arr, j)]) for x in parts] + [
        ops.forall([j], z3.Implies(z3.And(j >= 0, j < i), prov),
                   patterns=[z3.Select(rows.arr, j)]),
        ops.forall([x], z3.Implies(
            z3.Select(sum_map.dom, x),
            z3.Or(z3.Select(I.ghost['bps.sums0'], x),
                  z3.Exists([j], z3.And(j >= 0, j < i, rpj == x)))),
            patterns=[z3.Select(sum_map.dom, x)]),
    ]


BPS_LOOPS = {
    (BQ, 1): LoopSpec(invariant=bps_inv, on_entry=bps_entry,
                      name='C02.summaries',
                      keep=('context', 'rw_ctx', 'root_ids', 'prov_traits',
                            'new_roots', 'usages', 'provider_ids'),
                      modifies_fields=(
                          ('ProviderSummary', 'resources'),
                          ('RequestWideSearchContext', 'psum_res_by_rp_rc'),
                          ('RequestWideSearchContext', 'summaries_by_id'))),
}


# --------------------------------------------------------------------------
# _alloc_candidates_single_provider: every request it returns places every
# requested class in full on one provider of rp_tuples and maps the group's
# suffix to exactly that provider
SQ = '_alloc_candidates_single_provider'


class AnchorRow(object):
    """a row of anchors_for_sharing_providers (AnchorIds namedtuple)"""


SP_FIELDS = {
    ('AnchorRow', 'anchor_id'): FieldSpec('int'),
    ('AnchorRow', 'anchor_uuid'): FieldSpec('str'),
    ('AnchorRow', 'rp_id'): FieldSpec('int'),
    ('AnchorRow', 'rp_uuid'): FieldSpec('str'),
    # ghost: the provider an AllocationRequest was built for (written by the
    # wrapper of _allocation_request_for_provider, follows copies)
    ('AllocationRequest', 'ghost_prov'): FieldSpec(('obj', RP)),
    ('RequestWideSearchContext', 'anchor_root_ids'): FieldSpec(
        ('set', 'int'), True),
    ('RequestWideSearchContext', 'summaries_by_id'): FieldSpec(
        ('map', 'int', ('obj', PSUM))),
    ('RequestGroupSearchContext', 'resources'): FieldSpec(('map', 'int', 'int')),
    ('RequestGroupSearchContext', 'suffix'): FieldSpec('str'),
}


def request_for_provider_wrapper(I, args, kwargs):
    """the real body, plus the ghost field naming the provider"""
    res = I.call_real_function(ac._allocation_request_for_provider, args,
                               kwargs)
    prov = args[2] if len(args) > 2 else kwargs['provider']
    I.write_field(res, 'ghost_prov', prov)
    return res


def sp_full(I, a, req, suffix, enum):
    """request a (a reference term) holds exactly one resource request per
    requested class, in the enumeration order of the requested dict, each on
    the ghost provider for the full amount; its mapping names that provider"""
    from pyvc.values import sort_of
    from pyvc.ops import to_term
    ctx = I.ghost['ctx']
    p = z3.Select(I.fld(AREQ, 'ghost_prov'), a)
    ln, ar = rr(I, a)
    q = z3.Int('q!spf')
    x = z3.Select(ar, q)
    mid = z3.Select(I.fld(AREQ, 'mappings'), a)
    mdom, mval = I.coll_fns(('map', 'str', ('set', 'str')))
    members = I.coll_fns(('set', 'str'))[0](
        z3.Select(mval(mid), to_term(suffix, 'str')))
    k = z3.Const('k!spf', sort_of('str'))
    u = z3.Const('u!spf', sort_of('str'))
    top = I.next_ref        # everything allocated so far lies at or below
    return [
        z3.And(ln == enum.len, a >= 0, a <= top),
        ops.forall([q], z3.Implies(
            z3.And(q >= 0, q < ln),
            z3.And(x >= 0, x <= top,
                   z3.Select(I.fld(ARR, 'resource_provider'), x) == p,
                   z3.Select(I.fld(ARR, 'resource_class'), x) ==
                   ctx.rc_cache.f_str(enum.at(q)),
                   z3.Select(I.fld(ARR, 'amount'), x) ==
                   z3.Select(req.val, enum.at(q)))),
            patterns=[z3.Select(ar, q)]),
        ops.forall([k], z3.Select(mdom(mid), k) ==
                   (k == to_term(suffix, 'str')),
                   patterns=[z3.Select(mdom(mid), k)]),
        ops.forall([u], z3.Select(members, u) ==
                   (u == z3.Select(I.fld(RP, 'uuid'), p)),
                   patterns=[z3.Select(members, u)]),
    ]


def _sp_ctx(I, frame):
    g = I.ghost
    rg = frame.locals['rg_ctx']
    req = I.read_field(rg, 'resources')
    suffix = I.read_field(rg, 'suffix')
    enum = I._enum(req.dom, req.kty, 'requested', req)
    tuples = g['sp.tuples']
    return req, suffix, enum, tuples


def sp_entry(I, frame, seq):
    I.ghost.setdefault('sp.tuples', seq)
    I.ghost.setdefault('sp.sums', I.read_field(frame.locals['rw_ctx'],
                                               'summaries_by_id'))


def _sp_from_tuples(I, a, upto, tuples):
    """the ghost provider of a is the summary provider of one of the first
    `upto` tuples"""
    from pyvc.ops import to_term
    sums = I.ghost['sp.sums']
    j = z3.Int('j!spt')
    rp_id = to_term(tuples.element(I, j)[0], 'int')
    return z3.Exists([j], z3.And(
        j >= 0, j < upto,
        z3.Select(I.fld(AREQ, 'ghost_prov'), a) ==
        z3.Select(I.fld(PSUM, 'resource_provider'),
                  z3.Select(sums.val, rp_id))))


def _sp_all(I, frame, lst, upto):
    req, suffix, enum, tuples = _sp_ctx(I, frame)
    k = z3.Int('k!spi')
    a = z3.Select(lst.arr, k)
    out = []
    for f in sp_full(I, a, req, suffix, enum) + \
            [_sp_from_tuples(I, a, upto, tuples)]:
        out.append(ops.forall([k], z3.Implies(z3.And(k >= 0, k < lst.len), f),
                              patterns=[z3.Select(lst.arr, k)]))
    return out


def sp_outer_inv(I, frame, i, seq):
    I.ghost['sp.outer_i'] = i
    return _sp_all(I, frame, frame.locals['alloc_requests'], i)


def sp_inner_inv(I, frame, i, seq):
    req, suffix, enum, tuples = _sp_ctx(I, frame)
    oi = I.ghost['sp.outer_i']
    cur = frame.locals['req_obj']
    return _sp_all(I, frame, frame.locals['alloc_requests'], oi + 1) + \
        sp_full(I, cur.ref, req, suffix, enum) + \
        [_sp_from_tuples(I, cur.ref, oi + 1, tuples)]


_SP_MOD = (('AllocationRequestResource', 'resource_provider'),
           ('AllocationRequestResource', 'resource_class'),
           ('AllocationRequestResource', 'amount'),
           ('AllocationRequest', 'resource_requests'),
           ('AllocationRequest', 'mappings'),
           ('AllocationRequest', 'anchor_root_provider_uuid'),
           ('AllocationRequest', 'use_same_provider'),
           ('AllocationRequest', 'ghost_prov'))

SP_LOOPS = {
    (SQ, 1): LoopSpec(invariant=sp_outer_inv, on_entry=sp_entry,
                      name='C02.single.providers',
                      keep=('rg_ctx', 'rw_ctx', 'rp_tuples', 'root_ids',
                            'prov_traits'),
                      modifies_fields=_SP_MOD),
    (SQ, 2): LoopSpec(invariant=sp_inner_inv, name='C02.single.anchors',
                      keep=('rg_ctx', 'rw_ctx', 'rp_tuples', 'root_ids',
                            'prov_traits', 'rp_id', 'root_id', 'rp_summary',
                            'traits', 'anchors'),
                      modifies_fields=_SP_MOD),
}

SP_HAVOC_TYPES = {
    (SQ, 'alloc_requests'): ('list', ('obj', AREQ)),
}


# --------------------------------------------------------------------------
# mappings of the consolidated request: per suffix the union of the groups'
# provider sets.  defaultdict(set) as a set of (suffix, uuid) pairs.
PAIR = ('tuple', ('str', 'str'))


class PairSetDict(Native):
    """collections.defaultdict(set) keyed by str with str members, as the
    relation {(key, member)}; d[k] is a view whose add / update rewrite the
    relation (the views are never kept)"""

    def __init__(self, I, rel=None):
        from pyvc.values import sort_of
        self.rel = rel if rel is not None else \
            z3.K(sort_of(PAIR), z3.BoolVal(False))

    def havoc(self, I, nm):
        from pyvc.values import sort_of
        return PairSetDict(I, z3.Const(I.ex.fresh_name(nm + '.rel'),
                                       z3.ArraySort(sort_of(PAIR),
                                                    z3.BoolSort())))

    def getitem(self, I, k):
        return _PairSetView(self, k)

    def truth(self, I):
        # a defaultdict is truthy iff it has a key; keys come into being
        # together with their first member here (update / add only)
        return I._nonempty(self.rel, PAIR, 'pairs')


class _PairSetView(Native):
    def __init__(self, d, k):
        self.d, self.k = d, k

    def getattr(self, I, name):
        from pyvc.values import BoundMethod
        if name in ('update', 'add'):
            return BoundMethod(self, _PairSetOp(name))
        raise Undecided('set method %s of a defaultdict(set) entry' % name)


class _PairSetOp(Native):
    def __init__(self, name):
        self.name = name

    def call(self, I, args, kwargs):
        from pyvc.values import sort_of
        from pyvc.ops import to_term
        view, arg = args[0], args[1]
        d = view.d
        ps = sort_of(PAIR)
        kt = to_term(view.k, 'str')
        if self.name == 'add':
            d.rel = z3.Store(d.rel, ps.mk(kt, to_term(arg, 'str')),
                             z3.BoolVal(True))
            return None
        if isinstance(arg, Sym) and arg.ty == ('set', 'str'):
            arg = I.coll_from_id(arg.t, arg.ty)
        if not isinstance(arg, SSet):
            raise Undecided('update(%r)' % (arg,))
        new = z3.Const(I.ex.fresh_name('pairs'), d.rel.sort())
        s, u = z3.Consts('s!psu u!psu', StrSort)
        I.ex.hyp(ops.forall([s, u], z3.Select(new, ps.mk(s, u)) == z3.Or(
            z3.Select(d.rel, ps.mk(s, u)),
            z3.And(s == kt, z3.Select(arg.arr, u))),
            patterns=[z3.Select(new, ps.mk(s, u))]))
        d.rel = new
        return None


def union_fn(I, areqs):
    """ghost spec function U(j, s, u): (s, u) is in the mappings of one of the
    first j requests (defined by recursion on j)"""
    g = I.ghost
    if 'map.U' in g:
        return g['map.U']
    U = z3.Function(I.ex.fresh_name('U'), z3.IntSort(), StrSort, StrSort,
                    z3.BoolSort())
    j = z3.Int('j!mu')
    s, u = z3.Consts('s!mu u!mu', StrSort)
    I.ex.hyp(ops.forall([s, u], z3.Not(U(0, s, u)), patterns=[U(0, s, u)]))
    I.ex.hyp(ops.forall([j, s, u], z3.Implies(
        z3.And(j >= 0, j < areqs.len),
        U(j + 1, s, u) == z3.Or(U(j, s, u), in_mapping(I, z3.Select(areqs.arr, j), s, u))),
        patterns=[U(j + 1, s, u)]))
    g['map.U'] = U
    return U


def in_mapping(I, a, s, u):
    """u is a member of mappings[s] of request a"""
    mid = z3.Select(I.fld(AREQ, 'mappings'), a)
    mdom, mval = I.coll_fns(('map', 'str', ('set', 'str')))
    members = I.coll_fns(('set', 'str'))[0]
    return z3.And(z3.Select(mdom(mid), s),
                  z3.Select(members(z3.Select(mval(mid), s)), u))


def _rel_is(I, d, f):
    from pyvc.values import sort_of
    ps = sort_of(PAIR)
    s, u = z3.Consts('s!mi u!mi', StrSort)
    return ops.forall([s, u], z3.Select(d.rel, ps.mk(s, u)) == f(s, u),
                      patterns=[z3.Select(d.rel, ps.mk(s, u))])


def map_entry(I, frame, seq):
    I.ghost.setdefault('map.areqs', frame.locals['areqs'])


def map_outer_inv(I, frame, i, seq):
    d = frame.locals['mappings']
    U = union_fn(I, I.ghost['map.areqs'])
    I.ghost['map.outer_i'] = i
    return [_rel_is(I, d, lambda s, u: U(i, s, u))]


def map_arr_inv(I, frame, i, seq):
    d = frame.locals['mappings']
    U = union_fn(I, I.ghost['map.areqs'])
    return [_rel_is(I, d, lambda s, u: U(I.ghost['map.outer_i'], s, u))]


def map_items_inv(I, frame, i, seq):
    """after the first i entries of areq.mappings (in enumeration order)"""
    d = frame.locals['mappings']
    areqs = I.ghost['map.areqs']
    U = union_fn(I, areqs)
    j = I.ghost['map.outer_i']
    a = z3.Select(areqs.arr, j)
    idx = seq.idx if hasattr(seq, 'idx') else None
    if idx is None:
        raise Undecided('items of areq.mappings are not an enumeration')
    return [_rel_is(I, d, lambda s, u: z3.Or(
        U(j, s, u), z3.And(idx(s) < i, in_mapping(I, a, s, u))))]


_MAP_MOD = (('AllocationRequestResource', 'amount'),)
MAP_LOOPS = {
    (CQ, 1): LoopSpec(invariant=map_outer_inv, on_entry=map_entry,
                      name='C02.cons.map.requests',
                      keep=('areqs', 'rw_ctx', 'anchor_rp_uuid'),
                      modifies_fields=_MAP_MOD),
    (CQ, 2): LoopSpec(invariant=map_arr_inv, name='C02.cons.map.resources',
                      keep=('areqs', 'rw_ctx', 'anchor_rp_uuid', 'areq'),
                      modifies_fields=_MAP_MOD),
    (CQ, 3): LoopSpec(invariant=map_items_inv, name='C02.cons.map.items',
                      keep=('areqs', 'rw_ctx', 'anchor_rp_uuid', 'areq',
                            'arrs_by_rp_rc')),
}
