"""Sidecar contracts for the allocation-candidate post-processing:
RequestWideSearchContext.limit_results (C20), random.sample / random.shuffle
(A-lib: documented behaviour of the standard library), loop invariants of
limit_results, and the assumed contracts used by the proof of
AllocationCandidates._get_by_requests."""
import random

import z3

from pyvc.core import Undecided
from pyvc.interp import LoopSpec, FieldSpec
from pyvc.values import Sym, Obj, SList, SSet, VList, StrSort
from pyvc import ops

from placement.objects import allocation_candidate as ac
from placement.objects import research_context as res_ctx

from contracts.classes import RP

AREQ = ac.AllocationRequest
ARR = ac.AllocationRequestResource
PSUM = ac.ProviderSummary
RWSC = res_ctx.RequestWideSearchContext

LQ = 'RequestWideSearchContext.limit_results'

FIELDS = {
    ('RequestWideSearchContext', '_limit'): FieldSpec('int', True),
    ('RequestWideSearchContext', '_nested_aware'): FieldSpec('bool'),
    ('RequestWideSearchContext', 'has_trees'): FieldSpec('bool'),
}


# --------------------------------------------------------------------------
# terms
def rr(I, a):
    """(len, arr) of a.resource_requests for an AllocationRequest ref a"""
    cid = z3.Select(I.fld(AREQ, 'resource_requests'), a)
    fl, fa = I.coll_fns(('list', ('obj', ARR)))
    return fl(cid), fa(cid)


def arr_root(I, x):
    """root uuid of the provider of an AllocationRequestResource ref"""
    return z3.Select(I.fld(RP, 'root_provider_uuid'),
                     z3.Select(I.fld(ARR, 'resource_provider'), x))


def arr_uuid(I, x):
    return z3.Select(I.fld(RP, 'uuid'),
                     z3.Select(I.fld(ARR, 'resource_provider'), x))


def sum_root(I, s):
    return z3.Select(I.fld(RP, 'root_provider_uuid'),
                     z3.Select(I.fld(PSUM, 'resource_provider'), s))


def sum_uuid(I, s):
    return z3.Select(I.fld(RP, 'uuid'),
                     z3.Select(I.fld(PSUM, 'resource_provider'), s))


# --------------------------------------------------------------------------
# random.sample / random.shuffle (A-lib)
def sample_contract(I, args, kwargs):
    """random.sample(population, k): a new list of k elements taken from
    pairwise distinct positions of the population (ValueError if k is out of
    range)."""
    pop, k = args[0], args[1]
    if not isinstance(pop, SList):
        raise Undecided('random.sample of %r' % (pop,))
    kt = ops.to_term(k, 'int')
    I.ex.oblige('A.sample.requires', z3.And(kt >= 0, kt <= pop.len), 'A')
    out = I.fresh_list('sample', pop.ety)
    idx = z3.Function(I.ex.fresh_name('sample_idx'), z3.IntSort(), z3.IntSort())
    p, p2 = z3.Ints('p!smp p2!smp')
    I.ex.assume(out.len == kt)
    I.ex.hyp(ops.forall([p], z3.Implies(
        z3.And(p >= 0, p < out.len),
        z3.And(idx(p) >= 0, idx(p) < pop.len,
               z3.Select(out.arr, p) == z3.Select(pop.arr, idx(p)))),
        patterns=[z3.Select(out.arr, p)]))
    I.ex.hyp(ops.forall([p, p2], z3.Implies(
        z3.And(p >= 0, p < p2, p2 < out.len), idx(p) != idx(p2)),
        patterns=[z3.MultiPattern(idx(p), idx(p2))]))
    I.event('random', 'sample')
    I.ghost['sample_idx'] = idx
    return out


def shuffle_contract(I, args, kwargs):
    """random.shuffle(x): x is permuted in place."""
    lst = args[0]
    if not isinstance(lst, SList):
        raise Undecided('random.shuffle of %r' % (lst,))
    perm = z3.Function(I.ex.fresh_name('perm'), z3.IntSort(), z3.IntSort())
    inv = z3.Function(I.ex.fresh_name('perm_inv'), z3.IntSort(), z3.IntSort())
    old = lst.arr
    new = z3.Const(I.ex.fresh_name('shuffled'), old.sort())
    p = z3.Int('p!shf')
    n = lst.len
    I.ex.hyp(ops.forall([p], z3.Implies(
        z3.And(p >= 0, p < n),
        z3.And(perm(p) >= 0, perm(p) < n, inv(perm(p)) == p,
               z3.Select(new, p) == z3.Select(old, perm(p)))),
        patterns=[z3.Select(new, p)]))
    I.ex.hyp(ops.forall([p], z3.Implies(
        z3.And(p >= 0, p < n),
        z3.And(inv(p) >= 0, inv(p) < n, perm(inv(p)) == p,
               z3.Select(new, inv(p)) == z3.Select(old, p))),
        patterns=[inv(p), z3.Select(old, p)]))
    lst.arr = new
    I.event('random', 'shuffle')
    I.ghost['shuffle_inv'] = inv
    return None


# --------------------------------------------------------------------------
# loop invariants of limit_results
def _set_of(frame):
    s = frame.locals['alloc_req_root_uuids']
    if not isinstance(s, SSet):
        raise Undecided('alloc_req_root_uuids is %r' % (s,))
    return s


def l1_inv(I, frame, i, seq):
    """outer loop over the kept requests: the roots of all providers named by
    requests 0 .. i-1 are in the set"""
    s = _set_of(frame)
    kept = frame.locals['alloc_request_objs']
    j, q = z3.Ints('j!l1 q!l1')
    a = z3.Select(kept.arr, j)
    ln, ar = rr(I, a)
    return [ops.forall([j, q], z3.Implies(
        z3.And(j >= 0, j < i, q >= 0, q < ln),
        z3.Select(s.arr, arr_root(I, z3.Select(ar, q)))),
        patterns=[z3.Select(ar, q)])]


def l2_entry(I, frame, seq):
    I.ghost['l2.set0'] = _set_of(frame).arr


def l2_inv(I, frame, i, seq):
    """inner loop over one request's resources: the set only grows and
    contains the roots of resources 0 .. i-1"""
    s = _set_of(frame)
    s0 = I.ghost['l2.set0']
    u = z3.Const('u!l2', StrSort)
    q = z3.Int('q!l2')
    aro = frame.locals['aro']
    ln, ar = rr(I, aro.ref)
    return [
        ops.forall([u], z3.Implies(z3.Select(s0, u), z3.Select(s.arr, u)),
                   patterns=[z3.Select(s0, u)]),
        ops.forall([q], z3.Implies(
            z3.And(q >= 0, q < i),
            z3.Select(s.arr, arr_root(I, z3.Select(ar, q)))),
            patterns=[z3.Select(ar, q)]),
    ]


def l3_inv(I, frame, i, seq):
    """summaries 0 .. i-1 whose root is in the set are kept; everything kept
    is one of them"""
    s = _set_of(frame)
    kept = frame.locals['kept_summary_objs']
    sums = frame.locals['summary_objs']
    if not isinstance(kept, SList) or not isinstance(sums, SList):
        raise Undecided('limit_results: summaries are %r / %r' % (kept, sums))
    j, p = z3.Ints('j!l3 p!l3')
    return [
        ops.forall([p], z3.Implies(
            z3.And(p >= 0, p < kept.len),
            z3.Exists([j], z3.And(j >= 0, j < i, z3.Select(kept.arr, p) ==
                                  z3.Select(sums.arr, j)))),
            patterns=[z3.Select(kept.arr, p)]),
        ops.forall([j], z3.Implies(
            z3.And(j >= 0, j < i,
                   z3.Select(s.arr, sum_root(I, z3.Select(sums.arr, j)))),
            z3.Exists([p], z3.And(p >= 0, p < kept.len, z3.Select(kept.arr, p)
                                  == z3.Select(sums.arr, j)))),
            patterns=[z3.Select(sums.arr, j)]),
    ]


LOOPS = {
    (LQ, 1): LoopSpec(invariant=l1_inv, name='C20.limit.roots',
                      keep=('alloc_request_objs', 'summary_objs', 'self',
                            'kept_summary_objs')),
    (LQ, 2): LoopSpec(invariant=l2_inv, on_entry=l2_entry,
                      name='C20.limit.roots_inner',
                      keep=('alloc_request_objs', 'summary_objs', 'self',
                            'aro', 'kept_summary_objs')),
    (LQ, 3): LoopSpec(invariant=l3_inv, name='C20.limit.summaries',
                      keep=('alloc_request_objs', 'summary_objs', 'self',
                            'alloc_req_root_uuids')),
}

HAVOC_TYPES = {
    (LQ, 'kept_summary_objs'): ('list', ('obj', PSUM)),
    (LQ, 'alloc_req_root_uuids'): ('set', 'str'),
}


# --------------------------------------------------------------------------
# contract of limit_results: requires / ensures (also used as the stub at
# its call site in _get_by_requests)
def limit_requires(I, areqs, sums, skolem=True):
    """Pre-state: pairwise distinct request objects; every provider object has
    a root uuid; every provider named by a request has a summary (same uuid,
    same root) -- the three facts _merge_candidates / exclude_nested_providers
    establish."""
    j, j2, q = z3.Ints('j!lr j2!lr q!lr')
    sm = z3.Function(I.ex.fresh_name('summary_of'), z3.IntSort(),
                     z3.IntSort(), z3.IntSort())
    a = z3.Select(areqs.arr, j)
    ln, ar = rr(I, a)
    x = z3.Select(ar, q)
    s = z3.Select(sums.arr, sm(j, q))
    r = z3.Int('r!lr')
    return [
        ops.forall([j, j2], z3.Implies(
            z3.And(j >= 0, j < j2, j2 < areqs.len),
            z3.Select(areqs.arr, j) != z3.Select(areqs.arr, j2)),
            patterns=[z3.MultiPattern(z3.Select(areqs.arr, j),
                                      z3.Select(areqs.arr, j2))]),
        ops.forall([r], z3.Not(z3.Select(
            I.fld_none(RP, 'root_provider_uuid'), r)),
            patterns=[z3.Select(I.fld_none(RP, 'root_provider_uuid'), r)]),
        ops.forall([j, q], z3.Implies(
            z3.And(j >= 0, j < areqs.len, q >= 0, q < ln),
            z3.And(sm(j, q) >= 0, sm(j, q) < sums.len,
                   sum_uuid(I, s) == arr_uuid(I, x),
                   sum_root(I, s) == arr_root(I, x))),
            patterns=[z3.Select(ar, q)]) if skolem else
        ops.forall([j, q], z3.Implies(
            z3.And(j >= 0, j < areqs.len, q >= 0, q < ln),
            z3.Exists([r], z3.And(
                r >= 0, r < sums.len,
                sum_uuid(I, z3.Select(sums.arr, r)) == arr_uuid(I, x),
                sum_root(I, z3.Select(sums.arr, r)) == arr_root(I, x)))),
            patterns=[z3.Select(ar, q)]),
    ]


def limit_contract(I, args, kwargs):
    """stub of limit_results at its call sites (the body is proved against
    the same requires / ensures by props/C20.py:script_limit)"""
    rw, areqs, sums = args[0], args[1], args[2]
    if not isinstance(areqs, SList) or not isinstance(sums, SList):
        raise Undecided('limit_results called with %r, %r' % (areqs, sums))
    for k, f in enumerate(limit_requires(I, areqs, sums, skolem=False)):
        I.ex.oblige('C20.limit.requires.%d' % k, f, 'A')
    limit = I.read_field(rw, '_limit')
    if limit is None:
        limit = Sym(z3.IntVal(0), 'int', z3.BoolVal(True))
    elif not isinstance(limit, Sym):
        limit = Sym(z3.IntVal(limit), 'int', z3.BoolVal(False))
    elif limit.none is None:
        limit = Sym(limit.t, 'int', z3.BoolVal(False))
    randomize = I.ghost['ctx'].getattr(I, 'config').getattr(
        I, 'placement').getattr(I, 'randomize_allocation_candidates')
    arr0 = areqs.arr
    out_a = I.fresh_list('limited', areqs.ety)
    out_s = I.fresh_list('limited_sums', sums.ety)
    # randomisation without a limit shuffles the argument in place
    areqs.arr = z3.Const(I.ex.fresh_name('maybe_shuffled'), arr0.sort())
    I.ex.assume(z3.Implies(z3.Not(randomize.t), areqs.arr == arr0))
    for f in limit_ensures(I, limit, randomize.t, areqs, sums, out_a, out_s,
                           arr0).values():
        I.ex.hyp(f)
    I.event('limit', (areqs, sums), (out_a, out_s))
    return (out_a, out_s)


def limit_ensures(I, limit, randomize, areqs, sums, out_a, out_s,
                  areqs_arr0=None):
    """Post-state, as the property states it.  limit: Sym int nullable;
    randomize: z3 Bool; areqs / sums: the inputs (areqs_arr0: contents of the
    input list at entry -- shuffle permutes in place); out_a / out_s: the
    returned lists."""
    lim = limit.t
    has_limit = z3.And(z3.Not(limit.none) if limit.none is not None
                       else z3.BoolVal(True), lim != 0)
    a0 = areqs_arr0 if areqs_arr0 is not None else areqs.arr
    m = areqs.len
    p, p2, j, q, s = z3.Ints('p!le p2!le j!le q!le s!le')
    want = z3.If(z3.And(has_limit, lim < m), lim, m)
    op = z3.Select(out_a.arr, p)
    ln, ar = rr(I, op)
    x = z3.Select(ar, q)
    os_ = z3.Select(out_s.arr, s)
    return {
        'count': out_a.len == want,
        'members': ops.forall([p], z3.Implies(
            z3.And(p >= 0, p < out_a.len),
            z3.Exists([j], z3.And(j >= 0, j < m, op == z3.Select(a0, j)))),
            patterns=[z3.Select(out_a.arr, p)]),
        'distinct': ops.forall([p, p2], z3.Implies(
            z3.And(p >= 0, p < p2, p2 < out_a.len),
            op != z3.Select(out_a.arr, p2)),
            patterns=[z3.MultiPattern(z3.Select(out_a.arr, p),
                                      z3.Select(out_a.arr, p2))]),
        'deterministic_prefix': z3.Implies(z3.Not(randomize), ops.forall(
            [p], z3.Implies(z3.And(p >= 0, p < out_a.len),
                            op == z3.Select(a0, p)),
            patterns=[z3.Select(out_a.arr, p)])),
        'unlimited_is_permutation': z3.Implies(
            z3.Not(z3.And(has_limit, lim < m)), ops.forall(
                [j], z3.Implies(
                    z3.And(j >= 0, j < m),
                    z3.Exists([p], z3.And(p >= 0, p < out_a.len,
                                          op == z3.Select(a0, j)))),
                patterns=[z3.Select(a0, j)])),
        'summaries_cover': ops.forall([p, q], z3.Implies(
            z3.And(p >= 0, p < out_a.len, q >= 0, q < ln),
            z3.Exists([s], z3.And(s >= 0, s < out_s.len,
                                  sum_uuid(I, os_) == arr_uuid(I, x),
                                  sum_root(I, os_) == arr_root(I, x)))),
            patterns=[z3.Select(ar, q)]),
        'summaries_from_input': ops.forall([s], z3.Implies(
            z3.And(s >= 0, s < out_s.len),
            z3.Exists([j], z3.And(j >= 0, j < sums.len,
                                  os_ == z3.Select(sums.arr, j)))),
            patterns=[z3.Select(out_s.arr, s)]),
    }
