"""Sidecar: contracts assumed for library calls (register A-lib, A-txn,
A-nofault of DESIGN.md) and the glue that lets the interpreter use the real
SQLAlchemy as its statement-term builder."""
import copy as _copy
import operator
import types

import z3
import sqlalchemy as sa
from sqlalchemy.sql import elements as sa_el

from pyvc.core import Undecided, PathEnd
from pyvc.values import (Sym, Obj, VList, VDict, VSet, SList, SSet, SMap,
                         Closure, BoundMethod, Native, ExcVal, Opaque,
                         StrSort, sort_of)
from pyvc.interp import PyRaise, FieldSpec, Interp
from pyvc import ops
from pyvc.ops import to_term, from_term, is_concrete
from pyvc.ghostdb import GhostDB, ExecResult

from placement import exception


# --------------------------------------------------------------------------
# real-call policy

def _module_of(fn):
    m = getattr(fn, '__module__', None)
    if m is None and hasattr(fn, '__self__'):
        m = type(fn.__self__).__module__
    if isinstance(fn, types.MethodType):
        m = type(fn.__self__).__module__ if not isinstance(fn.__self__, type) \
            else fn.__self__.__module__
    return m or ''


def pure(fn):
    m = _module_of(fn)
    if m.startswith('sqlalchemy'):
        return 'sql'
    q = '%s.%s' % (m, getattr(fn, '__name__', ''))
    if q in ('microversion_parse.parse_version_string',):
        return 'plain'
    if m in ('_operator', 'operator'):
        return 'plain'
    return None


def is_sql(v):
    return isinstance(v, sa_el.ClauseElement) or \
        type(v).__module__.startswith('sqlalchemy')


def to_real(I, v, mode='plain'):
    if is_concrete(v):
        return v
    if isinstance(v, tuple):
        return tuple(to_real(I, x, mode) for x in v)
    if isinstance(v, VList):
        if mode == 'sql' and not all(is_concrete(x) or is_sql(x) for x in v.items):
            return _bind(I, v, expanding=True)
        return [to_real(I, x, mode) for x in v.items]
    if isinstance(v, VSet):
        return set(v.items)
    if isinstance(v, VDict):
        return {k: to_real(I, x, mode) for k, x in v.items.items()}
    if mode == 'sql':
        if isinstance(v, (Sym, Obj)):
            return _bind(I, v)
        if isinstance(v, (SSet, SList, SMap)):
            return _bind(I, v, expanding=True)
        if type(v).__name__ in ('_LazyComp', '_ReplayColl', '_ReplayView') \
                or (isinstance(v, Native) and hasattr(v, 'sql_members')):
            # a generator / lazily built collection used as the right-hand
            # side of IN: bound as one expanding parameter
            return _bind(I, v, expanding=True)
        if hasattr(v, 'concrete') and hasattr(v, 'd'):      # dict view
            if isinstance(v.d, VDict):
                return [to_real(I, x, mode) for x in v.concrete(I)]
            return _bind(I, v, expanding=True)
    if isinstance(v, (Sym, Obj, SSet, SList, SMap, Closure, Native, Opaque,
                      BoundMethod, ExcVal)):
        raise Undecided('symbolic argument to a real call')
    return v       # real library object


def _bind(I, v, expanding=False):
    binds = I.ghost.setdefault('binds', {})
    name = 'b%d' % len(binds)
    binds[name] = v
    return sa.bindparam(name, expanding=expanding)


# --------------------------------------------------------------------------
# transactions (A-txn)

class TxnWrapped(Native):
    """fn decorated with placement_context_manager.reader / .writer"""

    def __init__(self, fn, mode, independent=False):
        self.fn = fn
        self.mode = mode
        self.independent = independent

    def call(self, I, args, kwargs):
        txn_enter(I, self.mode, self.independent)
        try:
            r = I.call(self.fn, args, kwargs)
        except PyRaise as pr:
            txn_exit(I, pr.exc)
            raise
        txn_exit(I, None)
        return r

    def getattr(self, I, name):
        if name == '__wrapped__':
            return self.fn
        raise Undecided('TxnWrapped.%s' % name)


class TxnScope(Native):
    """`with placement_context_manager.reader.independent.using(ctx):`"""

    def __init__(self, mode, independent):
        self.mode = mode
        self.independent = independent

    def cm_enter(self, I, frame):
        txn_enter(I, self.mode, self.independent)
        return None

    def cm_exit(self, I, frame, exc):
        txn_exit(I, exc)
        return False


def txn_enter(I, mode, independent=False):
    top = independent or not I.txn_stack
    tid = None
    snap = None
    if top:
        I.txn_counter += 1
        tid = I.txn_counter
        hook = I.registry.get('on_txn_begin')
        if hook is not None:
            hook(I, tid, mode, independent)
        snap = I.db.snapshot() if I.db is not None else None
        I.event('txn.begin', tid, mode, independent)
    else:
        outer = I.txn_stack[-1]
        tid = outer['id']
        if mode == 'writer' and outer['mode'] == 'reader' and not independent:
            # enginefacade refuses a writer nested in a reader
            raise Undecided('writer transaction nested in a reader')
    I.txn_stack.append({'id': tid, 'mode': mode, 'top': top, 'snap': snap,
                        'independent': independent})


def txn_exit(I, exc):
    t = I.txn_stack[-1]
    if t['top'] and exc is None:
        # the session is flushed before the commit; a failing flush aborts
        hook = I.registry.get('before_commit')
        if hook is not None:
            try:
                hook(I, t)
            except PyRaise as pr:
                txn_exit(I, pr.exc)
                raise
    t = I.txn_stack.pop()
    if t['top']:
        if exc is not None:
            if I.db is not None and t['snap'] is not None:
                I.db = t['snap']          # rollback (A-txn)
                I.db.I = I
            I.event('txn.rollback', t['id'], t['mode'])
        else:
            I.event('txn.commit', t['id'], t['mode'])
        hook = I.registry.get('on_txn_end')
        if hook is not None:
            hook(I, t, exc)


def committed_write_txns(I, tables=None):
    """ids of the top-level transactions whose writes (to `tables`, default
    any) were committed on this path"""
    rolled = set(e[1] for e in I.events if e[0] == 'txn.rollback')
    out = []
    for e in I.events:
        if e[0] == 'db.write' and (tables is None or e[1] in tables):
            tid = e[3]
            if tid not in rolled and tid not in out:
                out.append(tid)
    return out


def oblige_one_writer_txn(I, name, kind='C'):
    """all surviving writes of the call belong to one top-level writer
    transaction (A-txn: that transaction is atomic)"""
    tids = committed_write_txns(I)
    modes = dict((e[1], e[2]) for e in I.events if e[0] == 'txn.begin')
    ok = len(tids) <= 1 and all(modes.get(t) == 'writer' for t in tids)
    I.ex.oblige(name + '.one_writer_txn', ok, kind,
                {'txns': [str(t) for t in tids],
                 'signature': name + ' one writer transaction'})


def current_txn(I):
    return I.txn_stack[-1] if I.txn_stack else None


def _tcm_mode(tcm):
    name = str(tcm._mode)
    return 'writer' if 'WRITER' in name else 'reader'


def call_hook(I, fv, args, kwargs):
    """Real callables with modelled behaviour that are not plain functions."""
    tn = type(fv).__name__
    if tn == '_TransactionContextManager':
        return TxnWrapped(args[0], _tcm_mode(fv), bool(fv._independent))
    if isinstance(fv, types.MethodType) and \
            type(fv.__self__).__name__ == '_TransactionContextManager' and \
            fv.__name__ == 'using':
        return TxnScope(_tcm_mode(fv.__self__), bool(fv.__self__._independent))
    return NotImplemented


def function_hook(I, fn, args, kwargs):
    """Library wrappers around repo functions."""
    code_file = fn.__code__.co_filename
    if hasattr(fn, '__wrapped__'):
        if code_file.endswith('oslo_db/sqlalchemy/enginefacade.py'):
            tcm = None
            for c in fn.__closure__ or ():
                if type(c.cell_contents).__name__ == '_TransactionContextManager':
                    tcm = c.cell_contents
            if tcm is None:
                raise Undecided('enginefacade wrapper without context manager')
            return TxnWrapped(fn.__wrapped__, _tcm_mode(tcm),
                              bool(tcm._independent)).call(I, args, kwargs)
        if code_file.endswith('oslo_db/api.py'):
            # wrap_db_retry: identity under A-nofault
            return I.call(fn.__wrapped__, args, kwargs)
    return NotImplemented


class SaveAndReraise(Native):
    """oslo_utils.excutils.save_and_reraise_exception (A-lib): re-raises the
    exception being handled after its body; an exception raised by the body
    replaces it."""

    def cm_enter(self, I, frame):
        self.saved = frame.handling[-1] if frame.handling else None
        return self

    def cm_exit(self, I, frame, exc):
        if exc is not None:
            return False
        if self.saved is None:
            raise Undecided('save_and_reraise_exception outside except')
        raise PyRaise(self.saved)


# --------------------------------------------------------------------------
# request context

class AttrCache(Native):
    """attribute_cache.*Cache: id_from_string / string_from_id as mutually
    inverse uninterpreted functions on the known names (A-lib)."""

    def __init__(self, kind, notfound):
        self.kind = kind
        self.notfound = notfound
        self.f_id = z3.Function(kind + '_id', StrSort, z3.IntSort())
        self.f_str = z3.Function(kind + '_str', z3.IntSort(), StrSort)
        self.known = z3.Function(kind + '_known', StrSort, z3.BoolSort())
        self.known_id = z3.Function(kind + '_known_id', z3.IntSort(),
                                    z3.BoolSort())

    def getattr(self, I, name):
        if name in ('id_from_string', 'string_from_id', 'all_from_string',
                    'clear'):
            return BoundMethod(self, _AttrCacheMethod(name))
        raise Undecided('AttrCache.%s' % name)


class _AttrCacheMethod(Native):
    def __init__(self, name):
        self.name = name

    def call(self, I, args, kwargs):
        cache, arg = args[0], args[1] if len(args) > 1 else None
        if self.name == 'id_from_string':
            s = to_term(arg, 'str')
            I.raise_if(z3.Not(cache.known(s)), cache.notfound)
            I.ex.assume(z3.And(cache.f_str(cache.f_id(s)) == s,
                               cache.known_id(cache.f_id(s)))) \
                if I.ex.qdepth == 0 else I.qguards[-1].append(
                    z3.And(cache.f_str(cache.f_id(s)) == s,
                           cache.known_id(cache.f_id(s))))
            return Sym(cache.f_id(s), 'int')
        if self.name == 'string_from_id':
            i = to_term(arg, 'int')
            I.raise_if(z3.Not(cache.known_id(i)), cache.notfound)
            fact = z3.And(cache.f_id(cache.f_str(i)) == i,
                          cache.known(cache.f_str(i)))
            if I.ex.qdepth == 0:
                I.ex.assume(fact)
            else:
                I.qguards[-1].append(fact)
            return Sym(cache.f_str(i), 'str')
        if self.name == 'clear':
            return None
        raise Undecided('AttrCache.%s' % self.name)


class ConfigStub(Native):
    """oslo.config namespace: every option is an unconstrained value of its
    type (configurations are universally quantified)."""

    def __init__(self, path=()):
        self.path = path
        self.cache = {}

    TYPES = {
        ('placement', 'allocation_conflict_retry_count'): 'int',
        ('placement', 'randomize_allocation_candidates'): 'bool',
        ('placement', 'incomplete_consumer_project_id'): 'str',
        ('placement', 'incomplete_consumer_user_id'): 'str',
    }

    def getattr(self, I, name):
        p = self.path + (name,)
        if len(p) == 1:
            return I.ghost.setdefault(('cfg', p), ConfigStub(p))
        ty = self.TYPES.get(p)
        if ty is None:
            raise Undecided('config option %s has no declared type'
                            % '.'.join(p))
        key = ('cfgval', p)
        if key not in I.ghost:
            I.ghost[key] = Sym(z3.Const('cfg.' + '.'.join(p), sort_of(ty)), ty)
            if p == ('placement', 'allocation_conflict_retry_count'):
                pass
        return I.ghost[key]


class SessionStub(Native):
    def getattr(self, I, name):
        if name in ('execute', 'query', 'add', 'flush'):
            return BoundMethod(self, _SessionMethod(name))
        raise Undecided('session.%s' % name)


class _SessionMethod(Native):
    def __init__(self, name):
        self.name = name

    def call(self, I, args, kwargs):
        if self.name == 'execute':
            stmt = args[1]
            binds = I.ghost.get('binds', {})
            from sqlalchemy.sql import dml
            if isinstance(stmt, (dml.Update, dml.Delete, dml.Insert)):
                t = current_txn(I)
                ok = t is not None and (t['mode'] == 'writer')
                I.ex.oblige('typestate.write_in_writer_txn', ok, 'A',
                            {'table': stmt.table.name})
                if I.db is None:
                    raise Undecided('DML without a ghost database')
                if len(args) > 2:
                    # executemany: INSERT of a sequence of parameter dicts
                    if not isinstance(stmt, dml.Insert):
                        raise Undecided('executemany of a %s'
                                        % type(stmt).__name__)
                    return I.db.bulk_insert(stmt.table.name, args[2])
                return I.db.execute(stmt, binds)
            # SELECT: call-site specification (Tier B)
            owner = _innermost_repo_frame(I)
            spec = I.registry.get('selects', {}).get(owner)
            if spec is None:
                raise Undecided('SELECT in %s has no relational spec' % owner)
            return spec(I, stmt, binds)
        hook = I.registry.get('orm')
        if hook is not None:
            return hook(I, self.name, args[1:], kwargs)
        raise Undecided('session.%s has no model' % self.name)


def _innermost_repo_frame(I):
    for f in reversed(I.callstack):
        return f.qualname
    return None


class CtxStub(Native):
    """placement.context.RequestContext"""
    loop_stable = True

    def __init__(self):
        self.rc_cache = AttrCache('rc', exception.ResourceClassNotFound)
        self.trait_cache = AttrCache('trait', exception.TraitNotFound)
        self.ct_cache = AttrCache('ct', exception.ConsumerTypeNotFound)
        self.session = SessionStub()
        self.config = ConfigStub()
        self.attrs = {}

    def getattr(self, I, name):
        if name in ('rc_cache', 'trait_cache', 'ct_cache', 'session', 'config'):
            return getattr(self, name)
        if name == 'can':
            return BoundMethod(self, _CtxCan())
        if name in self.attrs:
            return self.attrs[name]
        if name in ('project_id', 'user_id'):
            self.attrs[name] = I.fresh('ctx.' + name, 'str', nullable=True)
            return self.attrs[name]
        raise Undecided('context.%s' % name)

    def setattr(self, I, name, value):
        if name == 'config':
            return
        self.attrs[name] = value


class _CtxCan(Native):
    def call(self, I, args, kwargs):
        ctx = args[0]
        rule = args[1] if len(args) > 1 else kwargs.get('action')
        target = args[2] if len(args) > 2 else kwargs.get('target')
        I.event('can', rule, target)
        ok = z3.Bool(I.ex.fresh_name('authorized'))
        if not I.ex.branch(ok):
            I.raise_(exception.PolicyNotAuthorized, action=rule)
        return True


# --------------------------------------------------------------------------

def format_message(I, args, kwargs):
    return I.fresh('message', 'str')


def context_getattr_hook(I, v, name):
    """obj._context of the model objects is the request context."""
    if name == '_context' and isinstance(v, Obj):
        return I.ghost['ctx']
    return NotImplemented


def str_split(I, recv, name, args):
    """str.split / partition on opaque strings: pieces are unconstrained
    strings (A-lib; the string helpers themselves are covered by B1)."""
    if name in ('partition', 'rpartition'):
        return (I.fresh('part', 'str'), I.fresh('sep', 'str'),
                I.fresh('part', 'str'))
    lst = I.fresh_list('split', 'str')
    I.ex.assume(lst.len >= 1)
    return lst


class _DupColumn(Native):
    """One entry of DBDuplicateEntry.columns (A-key): the name of a violated
    unique constraint of the real model metadata, or of its column (MySQL 8 /
    5 respectively), chosen non-deterministically."""

    def __init__(self, tables=None):
        self.decided = None
        self.tables = tables

    def domain(self):
        import sqlalchemy as _sa
        from placement.db.sqlalchemy import models
        out = []
        for t in models.BASE.metadata.sorted_tables:
            if self.tables and t.name not in self.tables:
                continue
            for c in t.constraints:
                if isinstance(c, _sa.UniqueConstraint):
                    out.append(c.name)
                    out.extend(col.name for col in c.columns)
        return sorted(set(x for x in out if x))

    def eq(self, I, other):
        if not isinstance(other, str):
            return False
        if self.decided is None:
            d = self.domain()
            self.decided = d[I.ex.choose(len(d), tag='dupcol')]
        return self.decided == other


def exc_fields(cls, args, kwargs):
    """Instance attributes set by the __init__ of library exception classes
    (A-lib): webob's WSGIHTTPException(detail, headers, comment,
    body_template, json_formatter)."""
    import webob.exc
    f = dict(kwargs)
    from oslo_db import exception as _dbe
    if issubclass(cls, _dbe.DBDuplicateEntry) and 'columns' not in f:
        # A-key: the violated constraint is one of the modelled unique keys;
        # the driver reports a column or a constraint name
        f['columns'] = VList([_DupColumn(f.pop('_tables', None))])
    if issubclass(cls, webob.exc.WSGIHTTPException):
        names = ('detail', 'headers', 'comment', 'body_template',
                 'json_formatter')
        for i, n in enumerate(names):
            if n not in f:
                f[n] = args[i] if i < len(args) else None
    return f


def base_registry():
    from oslo_utils import excutils
    reg = {
        'fields': {},
        'loops': {},
        'calls': {},
        'classes': {},
        'selects': {},
        'pure': pure,
        'to_real': to_real,
        'function_hook': function_hook,
        'call_hook': call_hook,
        'is_foreign': is_sql,
        'exc_fields': exc_fields,
        'str_split': str_split,
    }
    reg['calls'][id(excutils.save_and_reraise_exception)] = \
        lambda I, a, k: SaveAndReraise()
    reg['classes'][excutils.save_and_reraise_exception] = \
        lambda I, a, k: SaveAndReraise()
    reg['calls'][id(exception._BaseException.format_message)] = format_message
    import ast as _ast
    for fn, node in ((operator.le, _ast.LtE()), (operator.lt, _ast.Lt()),
                     (operator.ge, _ast.GtE()), (operator.gt, _ast.Gt()),
                     (operator.eq, _ast.Eq()), (operator.ne, _ast.NotEq())):
        reg['calls'][id(fn)] = (lambda nd: lambda I, a, k: I.compare(nd, a[0], a[1]))(node)
    return reg


# --------------------------------------------------------------------------
# interference (rely/guarantee, DESIGN 3.6)

PERSISTENT = ('projects', 'users', 'consumer_types')


def interfere(I, tid, mode, independent):
    """on_txn_begin hook of the interference mode: between two top-level
    transactions other requests may have committed anything allowed by the
    rely R: rows of projects / users / consumer types persist unchanged (no
    statement deletes or rewrites them); provider and consumer ids are not
    reused, their uuid never changes and their generation never decreases;
    the row invariants hold."""
    from pyvc.ghostdb import GhostDB
    old = I.db
    if old is None:
        return
    I.ghost['interference_points'] = I.ghost.get('interference_points', 0) + 1
    new = GhostDB(I, I.ex.fresh_name('db'))
    new.writes = list(old.writes)
    for h in new.row_invariants():
        I.ex.hyp(h)
    k = z3.Int('k!rely')
    for tn in PERSISTENT:
        o, n = old.tables[tn], new.tables[tn]
        same = [z3.Select(n.exists, k)]
        for cn in o.data:
            same.append(z3.Select(n.data[cn], k) == z3.Select(o.data[cn], k))
        I.ex.hyp(ops.forall([k], z3.Implies(z3.Select(o.exists, k),
                                            z3.And(*same)),
                            patterns=[z3.Select(o.exists, k)]))
    for tn in ('resource_providers', 'consumers'):
        o, n = old.tables[tn], new.tables[tn]
        I.ex.hyp(ops.forall([k], z3.Implies(
            z3.And(z3.Select(o.exists, k), z3.Select(n.exists, k)),
            z3.And(z3.Select(n.data['uuid'], k) == z3.Select(o.data['uuid'], k),
                   z3.Select(n.data['generation'], k) >=
                   z3.Select(o.data['generation'], k))),
            patterns=[z3.MultiPattern(z3.Select(o.exists, k),
                                      z3.Select(n.exists, k))]))
    I.db = new
    I.event('interference', tid)
