"""Sidecar for C14: the documented surface per microversion, transcribed from
placement/rest_api_version_history.rst (and api-ref).  Numbers are minor
versions of major version 1."""
from placement.schemas import allocation as s_alloc
from placement.schemas import allocation_candidate as s_ac
from placement.schemas import aggregate as s_agg
from placement.schemas import reshaper as s_reshaper
from placement.schemas import resource_provider as s_rp
from placement.schemas import usage as s_usage

# (method, route) -> (first version, status returned below it)
INTRODUCED = {
    ('GET', '/resource_providers/{uuid}/aggregates'): (1, 404),
    ('PUT', '/resource_providers/{uuid}/aggregates'): (1, 404),
    ('GET', '/resource_classes'): (2, 404),
    ('POST', '/resource_classes'): (2, 404),
    ('GET', '/resource_classes/{name}'): (2, 404),
    ('PUT', '/resource_classes/{name}'): (2, 404),
    ('DELETE', '/resource_classes/{name}'): (2, 404),
    ('DELETE', '/resource_providers/{uuid}/inventories'): (5, 405),
    ('GET', '/traits'): (6, 404),
    ('GET', '/traits/{name}'): (6, 404),
    ('PUT', '/traits/{name}'): (6, 404),
    ('DELETE', '/traits/{name}'): (6, 404),
    ('GET', '/resource_providers/{uuid}/traits'): (6, 404),
    ('PUT', '/resource_providers/{uuid}/traits'): (6, 404),
    ('DELETE', '/resource_providers/{uuid}/traits'): (6, 404),
    ('GET', '/usages'): (9, 404),
    ('GET', '/allocation_candidates'): (10, 404),
    ('POST', '/allocations'): (13, 404),
    ('POST', '/reshaper'): (30, 404),
}

# (method, route) -> [(first version, schema object)] (body or query schema)
SCHEMAS = {
    ('PUT', '/allocations/{consumer_uuid}'): [
        (0, s_alloc.ALLOCATION_SCHEMA), (8, s_alloc.ALLOCATION_SCHEMA_V1_8),
        (12, s_alloc.ALLOCATION_SCHEMA_V1_12),
        (28, s_alloc.ALLOCATION_SCHEMA_V1_28),
        (34, s_alloc.ALLOCATION_SCHEMA_V1_34),
        (38, s_alloc.ALLOCATION_SCHEMA_V1_38)],
    ('POST', '/allocations'): [
        (13, s_alloc.POST_ALLOCATIONS_V1_13), (28, s_alloc.POST_ALLOCATIONS_V1_28),
        (34, s_alloc.POST_ALLOCATIONS_V1_34), (38, s_alloc.POST_ALLOCATIONS_V1_38)],
    ('POST', '/reshaper'): [
        (30, s_reshaper.POST_RESHAPER_SCHEMA),
        (34, s_reshaper.POST_RESHAPER_SCHEMA_V1_34),
        (38, s_reshaper.POST_RESHAPER_SCHEMA_V1_38)],
    ('GET', '/resource_providers'): [
        (0, s_rp.GET_RPS_SCHEMA_1_0), (3, s_rp.GET_RPS_SCHEMA_1_3),
        (4, s_rp.GET_RPS_SCHEMA_1_4), (14, s_rp.GET_RPS_SCHEMA_1_14),
        (18, s_rp.GET_RPS_SCHEMA_1_18)],
    ('POST', '/resource_providers'): [
        (0, s_rp.POST_RESOURCE_PROVIDER_SCHEMA), (14, s_rp.POST_RP_SCHEMA_V1_14)],
    ('PUT', '/resource_providers/{uuid}'): [
        (0, s_rp.PUT_RESOURCE_PROVIDER_SCHEMA), (14, s_rp.PUT_RP_SCHEMA_V1_14)],
    ('PUT', '/resource_providers/{uuid}/aggregates'): [
        (1, s_agg.PUT_AGGREGATES_SCHEMA_V1_1), (19, s_agg.PUT_AGGREGATES_SCHEMA_V1_19)],
    ('GET', '/usages'): [
        (9, s_usage.GET_USAGES_SCHEMA_1_9), (38, s_usage.GET_USAGES_SCHEMA_V1_38)],
    ('GET', '/allocation_candidates'): [
        (10, s_ac.GET_SCHEMA_1_10), (16, s_ac.GET_SCHEMA_1_16),
        (17, s_ac.GET_SCHEMA_1_17), (21, s_ac.GET_SCHEMA_1_21),
        (25, s_ac.GET_SCHEMA_1_25), (31, s_ac.GET_SCHEMA_1_31),
        (33, s_ac.GET_SCHEMA_1_33), (35, s_ac.GET_SCHEMA_1_35),
        (36, s_ac.GET_SCHEMA_1_36)],
}

# response body keys: (method, route, key) -> first version
RESPONSE_KEYS = {
    ('GET', '/resource_providers/{uuid}', 'parent_provider_uuid'): 14,
    ('GET', '/resource_providers/{uuid}', 'root_provider_uuid'): 14,
    ('PUT', '/resource_providers/{uuid}', 'parent_provider_uuid'): 14,
    ('PUT', '/resource_providers/{uuid}', 'root_provider_uuid'): 14,
    ('GET', '/allocations/{consumer_uuid}', 'project_id'): 12,
    ('GET', '/allocations/{consumer_uuid}', 'user_id'): 12,
    ('GET', '/allocations/{consumer_uuid}', 'consumer_generation'): 28,
    ('GET', '/allocations/{consumer_uuid}', 'consumer_type'): 38,
    ('GET', '/resource_providers/{uuid}/aggregates',
     'resource_provider_generation'): 19,
    ('PUT', '/resource_providers/{uuid}/aggregates',
     'resource_provider_generation'): 19,
}

# last-modified / cache-control headers from 1.15 on every response that has
# them at all
HEADERS_FROM = 15

# keyword flags handed to the object layer: (contract name, keyword) -> version
FLAGS = {
    ('ResourceProvider.set_aggregates', 'increment_generation'): 19,
    ('ResourceProvider.save', 'allow_reparenting'): 37,
    ('AllocationCandidates.get_by_requests', 'nested_aware'): 29,
}

# POST /resource_providers: 201 without body below 1.20, 200 with body from it
POST_RP_BODY_FROM = 20
# error `code` in JSON error bodies
ERROR_CODE_FROM = 23
