"""ORM-level access to the ghost database (A-orm): the few SQLAlchemy ORM
idioms the tree uses are given the semantics of the Core statement they emit.

  session.query(M).filter(..)/filter_by(..).first()   SELECT ... LIMIT 1 (only
                                                      with the primary key pinned)
  ....count()                                         SELECT count(*)
  ....delete()                                        DELETE FROM t WHERE ..
  ....update({..})                                    UPDATE t SET .. WHERE ..
  M() ; obj.update({..}) ; session.add ; flush        INSERT (at flush)
  row.update({..}) / row.col = v                      UPDATE t SET .. WHERE pk
                                                      (applied at once: the
                                                      session autoflushes
                                                      before every query)
"""
import z3
import sqlalchemy as sa

from pyvc.core import Undecided
from pyvc.values import Sym, Obj, VDict, Native, BoundMethod, sort_of
from pyvc import ops
from pyvc.ops import to_term, from_term

from contracts import lib


def _writer(I, table):
    t = lib.current_txn(I)
    ok = t is not None and t['mode'] == 'writer'
    I.ex.oblige('typestate.write_in_writer_txn', ok, 'A', {'table': table})


def _binds(I):
    return I.ghost.setdefault('binds', {})


class Query(Native):
    def __init__(self, table, clauses=()):
        self.table = table          # sqlalchemy Table
        self.clauses = tuple(clauses)

    def getattr(self, I, name):
        if name in ('filter', 'filter_by', 'first', 'count', 'delete',
                    'update'):
            return BoundMethod(self, _QueryMethod(name))
        raise Undecided('Query.%s has no model' % name)

    def where(self):
        if not self.clauses:
            return None
        return sa.and_(*self.clauses) if len(self.clauses) > 1 \
            else self.clauses[0]


class _QueryMethod(Native):
    def __init__(self, name):
        self.name = name

    def call(self, I, args, kwargs):
        q = args[0]
        db = I.db
        if db is None:
            raise Undecided('ORM access without a ghost database')
        name = self.name
        if name == 'filter':
            return Query(q.table, q.clauses + tuple(args[1:]))
        if name == 'filter_by':
            cl = []
            for k, v in kwargs.items():
                cl.append(q.table.c[k] == lib.to_real(I, v, 'sql'))
            return Query(q.table, q.clauses + tuple(cl))
        gt = db.tables[q.table.name]
        where = q.where()
        binds = _binds(I)
        if name == 'first':
            pk = db.pinned_key(where, gt, binds)
            if pk is None:
                raise Undecided('Query.first() without the primary key pinned')
            cond = z3.And(z3.Select(gt.exists, pk),
                          db.pred(where, gt, pk, binds))
            if I.ex.branch(cond):
                return Row(q.table, pk)
            return None
        if name == 'count':
            ks = sort_of(gt.kty)
            k = z3.Const('k!cnt.' + gt.name, ks)
            cond = z3.And(z3.Select(gt.exists, k), db.pred(where, gt, k, binds))
            cnt = z3.Int(I.ex.fresh_name('count.' + gt.name))
            I.ex.assume(cnt >= 0)
            w = z3.Const(I.ex.fresh_name('w.cnt'), ks)
            I.ex.assume(z3.Implies(cnt > 0, z3.substitute(cond, (k, w))))
            I.ex.hyp(z3.Implies(cnt == 0, ops.forall([k], z3.Not(cond))))
            return Sym(cnt, 'int')
        if name == 'delete':
            _writer(I, gt.name)
            stmt = q.table.delete()
            if where is not None:
                stmt = stmt.where(where)
            return db.execute(stmt, binds).rowcount
        if name == 'update':
            _writer(I, gt.name)
            vals = args[1]
            if not isinstance(vals, VDict):
                raise Undecided('Query.update(%r)' % (vals,))
            real = {k: _sqlval(I, v) for k, v in vals.items.items()}
            stmt = q.table.update().values(**real)
            if where is not None:
                stmt = stmt.where(where)
            return db.execute(stmt, binds).rowcount
        raise Undecided('Query.%s' % name)


def _sqlval(I, v):
    if v is None:
        return sa.null()
    return lib.to_real(I, v, 'sql')


class MaxQuery(Native):
    """session.query(func.max(col)).one() -> (max or NULL,)"""

    def __init__(self, table, col):
        self.table = table
        self.col = col

    def getattr(self, I, name):
        if name == 'one':
            return BoundMethod(self, _MaxOne())
        raise Undecided('Query.%s on an aggregate' % name)


class _MaxOne(Native):
    def call(self, I, args, kwargs):
        q = args[0]
        gt = I.db.tables[q.table.name]
        ks = sort_of(gt.kty)
        k = z3.Const('k!max.' + gt.name, ks)
        val = lambda x: gt.col(q.col, x)[0]
        # one (max, empty) pair per table state: asking again in the same
        # state gives the same answer
        ckey = ('orm.max', gt.name, q.col, gt.exists.get_id(),
                val(k).get_id())
        if ckey not in I.ghost:
            m = z3.Int(I.ex.fresh_name('max.' + q.col))
            e = z3.Bool(I.ex.fresh_name('max.empty'))
            w = z3.Const(I.ex.fresh_name('w.max'), ks)
            I.ex.hyp(z3.Implies(e, ops.forall(
                [k], z3.Not(z3.Select(gt.exists, k)),
                patterns=[z3.Select(gt.exists, k)])))
            I.ex.assume(z3.Implies(z3.Not(e), z3.And(
                z3.Select(gt.exists, w), val(w) == m)))
            I.ex.hyp(z3.Implies(z3.Not(e), ops.forall(
                [k], z3.Implies(z3.Select(gt.exists, k), val(k) <= m),
                patterns=[z3.Select(gt.exists, k)])))
            I.ghost[ckey] = (m, e)
        m, e = I.ghost[ckey]
        return (Sym(m, 'int', e),)


class Row(Native):
    """a persistent ORM instance: one row of a ghost table, by key"""

    def __init__(self, table, key):
        self.table = table
        self.key = key

    def getitem(self, I, key):
        return self.getattr(I, key)

    def getattr(self, I, name):
        if name == 'update':
            return BoundMethod(self, _RowUpdate())
        if name == 'save':
            return BoundMethod(self, _RowSave())
        gt = I.db.tables[self.table.name]
        if name in ('created_at', 'updated_at'):
            # timestamps are not part of the ghost tables
            return I.fresh(name, 'str', True)
        if name in gt.cols or name in gt.keycols:
            t, nf = gt.col(name, self.key)
            ty = gt.cols[name][0] if name in gt.cols else 'int'
            v = from_term(t, ty)
            nfz = z3.simplify(ops.z3bool(nf))
            if z3.is_true(nfz):
                return None
            if not z3.is_false(nfz) and isinstance(v, Sym):
                v.none = nfz
            return v
        raise Undecided('attribute %s of a %s row' % (name, self.table.name))

    def setattr(self, I, name, value):
        _writer(I, self.table.name)
        gt = I.db.tables[self.table.name]
        stmt = self.table.update().where(
            self.table.c[gt.keycols[0]] == _sqlval(I, from_term(self.key, 'int'))
        ).values(**{name: _sqlval(I, value)})
        I.db.execute(stmt, _binds(I))


class _RowSave(Native):
    """oslo.db ModelBase.save(session): add + flush.  Changes to a row are
    applied as they are made; a changed UNIQUE column may collide here."""

    def call(self, I, args, kwargs):
        row = args[0]
        target = row.row if isinstance(row, Pending) else row
        if target is None:
            session_hook(I, 'add', [row], {})
            session_hook(I, 'flush', [], {})
            return None
        gt = I.db.tables[target.table.name]
        if gt.name in I.registry.get('unique_checks', ()):
            for cn in getattr(target, 'touched_unique', ()):
                if I.ex.branch(z3.Bool(I.ex.fresh_name('dup.' + cn))):
                    from oslo_db import exception as db_exc
                    from pyvc.values import VList
                    I.raise_(db_exc.DBDuplicateEntry, columns=VList([cn]))
        return None


def _note_unique(target, names):
    import sqlalchemy as _sa
    cols = set()
    for c in target.table.constraints:
        if isinstance(c, _sa.UniqueConstraint) and len(c.columns) == 1:
            cols.add(list(c.columns)[0].name)
    hit = [n for n in names if n in cols]
    if hit:
        target.touched_unique = tuple(getattr(target, 'touched_unique', ())) \
            + tuple(hit)


class _RowUpdate(Native):
    """oslo.db ModelBase.update: setattr for every item"""

    def call(self, I, args, kwargs):
        row, vals = args[0], args[1]
        if not isinstance(vals, VDict):
            raise Undecided('row.update(%r)' % (vals,))
        if isinstance(row, Pending) and row.row is None:
            row.values.update(vals.items)
            return None
        target = row.row if isinstance(row, Pending) else row
        if not vals.items:
            return None
        _writer(I, target.table.name)
        _note_unique(target, list(vals.items))
        gt = I.db.tables[target.table.name]
        stmt = target.table.update().where(
            target.table.c[gt.keycols[0]] ==
            _sqlval(I, from_term(target.key, 'int'))
        ).values(**{k: _sqlval(I, v) for k, v in vals.items.items()})
        I.db.execute(stmt, _binds(I))
        return None


class Pending(Native):
    """a transient ORM instance (M()): inserted by the flush after
    session.add"""

    def __init__(self, table):
        self.table = table
        self.values = {}
        self.row = None
        self.added = False

    def getitem(self, I, key):
        return self.getattr(I, key)

    def getattr(self, I, name):
        if name == 'update':
            return BoundMethod(self, _RowUpdate())
        if name == 'save':
            return BoundMethod(self, _RowSave())
        if self.row is not None:
            return self.row.getattr(I, name)
        if name in self.values:
            return self.values[name]
        raise Undecided('attribute %s of a transient row' % name)

    def setattr(self, I, name, value):
        if self.row is not None:
            return self.row.setattr(I, name, value)
        self.values[name] = value


def session_hook(I, name, args, kwargs):
    """registry['orm']: session.query / add / flush"""
    if name == 'query':
        model = args[0]
        tbl = getattr(model, '__table__', None)
        if tbl is None:
            from sqlalchemy.sql import functions as sa_fn
            if isinstance(model, sa_fn.FunctionElement) and \
                    model.name.lower() == 'max' and len(list(model.clauses)) == 1:
                col = list(model.clauses)[0]
                return MaxQuery(col.table, col.name)
            raise Undecided('session.query(%r)' % (model,))
        return Query(tbl)
    pend = I.ghost.setdefault('orm.pending', [])
    if name == 'add':
        o = args[0]
        if isinstance(o, Pending) and o.row is None and not o.added:
            o.added = True
            pend.append(o)
        return None
    if name == 'flush':
        for o in list(pend):
            _writer(I, o.table.name)
            stmt = o.table.insert().values(
                **{k: _sqlval(I, v) for k, v in o.values.items()})
            res = I.db.execute(stmt, _binds(I))
            o.row = Row(o.table, to_term(res.lastrowid, 'int'))
            pend.remove(o)
        return None
    raise Undecided('session.%s' % name)


def before_commit(I, t):
    if I.ghost.get('orm.pending'):
        session_hook(I, 'flush', [], {})


def install(reg, models_module):
    reg['orm'] = session_hook
    reg['before_commit'] = before_commit
    for name in dir(models_module):
        m = getattr(models_module, name)
        if isinstance(m, type) and hasattr(m, '__table__'):
            reg['classes'][m] = (lambda t: lambda I, a, k: Pending(t))(
                m.__table__)
