"""Sidecar contracts for placement/objects/allocation.py."""
import z3

from pyvc.core import Undecided
from pyvc.interp import LoopSpec
from pyvc.values import Sym, Obj, SList, SSet, SMap, sort_of, StrSort
from pyvc.ops import to_term, from_term
from pyvc.ghostdb import PAIR
from pyvc import sqltext, ops

from contracts.classes import CapRow, RP, ALLOC, CONSUMER

UKEY = ('tuple', ('str', 'int'))       # (provider uuid, class id)
Q = '_check_capacity_exceeded'

# --- the relational spec of the capacity SELECT (Tier B, A-sql) -------------
CAPACITY_SELECT_TEXT = (
    "SELECT resource_providers.id AS resource_provider_id, "
    "resource_providers.uuid, resource_providers.generation, "
    "inventories.resource_class_id, inventories.total, inventories.reserved, "
    "inventories.allocation_ratio, inventories.min_unit, inventories.max_unit, "
    "inventories.step_size, usage.used "
    "FROM resource_providers JOIN inventories ON resource_providers.id = "
    "inventories.resource_provider_id AND inventories.resource_class_id IN "
    "(?0) LEFT OUTER JOIN (SELECT allocations.resource_provider_id AS "
    "resource_provider_id, allocations.resource_class_id AS "
    "resource_class_id, sum(allocations.used) AS used FROM allocations WHERE "
    "allocations.resource_class_id IN (?0) AND "
    "allocations.resource_provider_id IN (?1) GROUP BY "
    "allocations.resource_provider_id, allocations.resource_class_id) AS "
    "usage ON inventories.resource_provider_id = usage.resource_provider_id "
    "AND inventories.resource_class_id = usage.resource_class_id WHERE "
    "resource_providers.id IN (?1) AND inventories.resource_class_id IN (?0)")


def capacity_select(I, stmt, binds):
    """session.execute(sel) in _check_capacity_exceeded.

    Meaning (A-sql): one record per (rp in ?1, rc in ?0) such that the
    provider row and the inventory row exist, carrying the inventory columns,
    the provider's uuid / generation and used = SUM(allocations.used) for that
    pair (NULL when the pair has no allocation rows; A-sum: usage = 0)."""
    text, values = sqltext.normal_form(stmt, binds)
    I.ex.oblige('C01.check.sql', text == CAPACITY_SELECT_TEXT, 'A',
                {'built': text})
    if text != CAPACITY_SELECT_TEXT or len(values) != 2:
        raise Undecided('capacity SELECT differs from its relational spec')
    rcs, provs = values
    if not (isinstance(rcs, SSet) and isinstance(provs, SSet)):
        raise Undecided('capacity SELECT binds are not sets')
    db = I.db
    inv = db.tables['inventories']
    rpt = db.tables['resource_providers']
    recs = I.fresh_list('records', ('obj', CapRow))
    n = recs.len
    j, j2 = z3.Ints('j!cap j2!cap')
    r = z3.Select(recs.arr, j)
    f = lambda name: z3.Select(I.fld(CapRow, name), r)
    rp, rc = f('resource_provider_id'), f('resource_class_id')
    key = sort_of(PAIR).mk(rp, rc)
    used_null = z3.Select(I.fld_none(CapRow, 'used'), r)
    body = z3.And(
        z3.Select(provs.arr, rp), z3.Select(rcs.arr, rc),
        z3.Select(rpt.exists, rp), z3.Select(inv.exists, key),
        f('uuid') == z3.Select(rpt.data['uuid'], rp),
        f('generation') == z3.Select(rpt.data['generation'], rp),
        *[f(c) == z3.Select(inv.data[c], key) for c in
          ('total', 'reserved', 'allocation_ratio', 'min_unit', 'max_unit',
           'step_size')],
        z3.If(used_null, z3.Select(db.usage, key) == 0,
              f('used') == z3.Select(db.usage, key)))
    I.ex.hyp(ops.forall([j], z3.Implies(z3.And(j >= 0, j < n), body),
                       patterns=[z3.Select(recs.arr, j)]))
    # distinct keys
    r2 = z3.Select(recs.arr, j2)
    I.ex.hyp(ops.forall([j, j2], z3.Implies(
        z3.And(j >= 0, j < n, j2 >= 0, j2 < n, j != j2),
        z3.Or(rp != z3.Select(I.fld(CapRow, 'resource_provider_id'), r2),
              rc != z3.Select(I.fld(CapRow, 'resource_class_id'), r2))),
        patterns=[z3.MultiPattern(z3.Select(recs.arr, j),
                                  z3.Select(recs.arr, j2))]))
    # completeness: every qualifying pair has a record
    k = z3.Const('k!capc', sort_of(PAIR))
    ps = sort_of(PAIR)
    jof = z3.Function(I.ex.fresh_name('cap.jof'), ps, z3.IntSort())
    krp, krc = ps.accessor(0, 0)(k), ps.accessor(0, 1)(k)
    rk = z3.Select(recs.arr, jof(k))
    I.ex.hyp(ops.forall([k], z3.Implies(
        z3.And(z3.Select(provs.arr, krp), z3.Select(rcs.arr, krc),
               z3.Select(rpt.exists, krp), z3.Select(inv.exists, k)),
        z3.And(jof(k) >= 0, jof(k) < n,
               z3.Select(I.fld(CapRow, 'resource_provider_id'), rk) == krp,
               z3.Select(I.fld(CapRow, 'resource_class_id'), rk) == krc)),
        patterns=[z3.Select(inv.exists, k)]))
    I.ghost['cap.records'] = recs
    I.ghost['cap.jof'] = jof
    I.ghost['cap.sets'] = (rcs, provs)
    return recs


# --- ghost prefix sums over the allocation list -------------------------------
def alloc_terms(I, allocs, j):
    """(rp id, rp uuid, class id, used) of allocs[j] as z3 terms."""
    a = z3.Select(allocs.arr, j)
    rp = z3.Select(I.fld(ALLOC, 'resource_provider'), a)
    rpid = z3.Select(I.fld(RP, 'id'), rp)
    uuid = z3.Select(I.fld(RP, 'uuid'), rp)
    ctx = I.ghost['ctx']
    rc = ctx.rc_cache.f_id(z3.Select(I.fld(ALLOC, 'resource_class'), a))
    used = z3.Select(I.fld(ALLOC, 'used'), a)
    return rpid, uuid, rc, used


def psum_fns(I):
    if 'psum' not in I.ghost:
        ps = sort_of(PAIR)
        I.ghost['psum'] = z3.Function('psum', z3.IntSort(), ps, z3.IntSort())
        I.ghost['ppos'] = z3.Function('ppos', z3.IntSort(), ps, z3.BoolSort())
    return I.ghost['psum'], I.ghost['ppos']


def psum_step_axioms(I, allocs, i):
    """Defining equations of psum / ppos instantiated at step i (for all k)."""
    psum, ppos = psum_fns(I)
    ps = sort_of(PAIR)
    k = z3.Const('k!psum', ps)
    rpid, uuid, rc, used = alloc_terms(I, allocs, i)
    here = k == ps.mk(rpid, rc)
    return [
        ops.forall([k], psum(i + 1, k) == psum(i, k) + z3.If(here, used, 0),
                  patterns=[psum(i + 1, k)]),
        ops.forall([k], ppos(i + 1, k) == z3.Or(ppos(i, k),
                                               z3.And(here, used > 0)),
                  patterns=[ppos(i + 1, k)]),
    ]


def psum_base_axioms(I):
    psum, ppos = psum_fns(I)
    k = z3.Const('k!psum0', sort_of(PAIR))
    return [ops.forall([k], z3.And(psum(0, k) == 0, z3.Not(ppos(0, k))),
                      patterns=[psum(0, k)])]


def capacity_ok(db, key, extra):
    """(total - reserved) * allocation_ratio >= usage + extra, over the
    reals (A-real)."""
    inv = db.tables['inventories']
    cap = z3.ToReal(z3.Select(inv.data['total'], key) -
                    z3.Select(inv.data['reserved'], key)) * \
        z3.Select(inv.data['allocation_ratio'], key)
    return cap >= z3.ToReal(z3.Select(db.usage, key) + extra)


def units_ok(db, key, amount):
    inv = db.tables['inventories']
    step = z3.Select(inv.data['step_size'], key)
    return z3.And(amount >= z3.Select(inv.data['min_unit'], key),
                  amount <= z3.Select(inv.data['max_unit'], key),
                  amount % step == 0)


# --- loop 1: building usage_map ------------------------------------------------
def loop1_invariant(I, frame, i, seq):
    recs = seq.origin
    um = frame.locals['usage_map']
    provs = frame.locals['provs_with_inv']
    j = z3.Int('j!l1')
    r = z3.Select(recs.arr, j)
    uuid = z3.Select(I.fld(CapRow, 'uuid'), r)
    rc = z3.Select(I.fld(CapRow, 'resource_class_id'), r)
    key = sort_of(UKEY).mk(uuid, rc)
    out = [ops.forall([j], z3.Implies(
        z3.And(j >= 0, j < i),
        z3.And(z3.Select(um.dom, key), z3.Select(um.val, key) == r,
               z3.Select(provs.arr, uuid))),
        patterns=[z3.Select(recs.arr, j)])]
    kk = z3.Const('kk!l1', sort_of(UKEY))
    w = z3.Int('w!l1')
    rw = z3.Select(recs.arr, w)
    us = sort_of(UKEY)
    out.append(ops.forall([kk], z3.Implies(
        z3.Select(um.dom, kk),
        z3.Exists([w], z3.And(
            w >= 0, w < i,
            z3.Select(I.fld(CapRow, 'uuid'), rw) == us.accessor(0, 0)(kk),
            z3.Select(I.fld(CapRow, 'resource_class_id'), rw) ==
            us.accessor(0, 1)(kk),
            z3.Select(um.val, kk) == rw))),
        patterns=[z3.Select(um.dom, kk)]))
    u = z3.Const('u!l1', StrSort)
    out.append(ops.forall([u], z3.Implies(
        z3.Select(provs.arr, u),
        z3.Exists([w], z3.And(
            w >= 0, w < i,
            z3.Select(I.fld(CapRow, 'uuid'), z3.Select(recs.arr, w)) == u))),
        patterns=[z3.Select(provs.arr, u)]))
    return out


# --- loop 2: the check proper ---------------------------------------------------
def loop2_invariant(I, frame, i, seq):
    allocs = seq.origin
    db = I.db
    psum, ppos = psum_fns(I)
    ps = sort_of(PAIR)
    sums = frame.locals['rp_resource_class_sum']
    inner = sums.default[4]
    resp = frame.locals['res_providers']
    n = allocs.len
    j = z3.Int('j!l2')
    c = z3.Int('c!l2')
    rpid, uuid, rc, used = alloc_terms(I, allocs, j)
    out = []
    # running sums: for every alloc uuid and every class id
    skey = sort_of(UKEY).mk(uuid, c)
    sval = z3.If(z3.Select(inner.dom, skey), z3.Select(inner.val, skey), 0)
    out.append(ops.forall([j, c], z3.Implies(
        z3.And(j >= 0, j < n), sval == psum(i, ps.mk(rpid, c))),
        patterns=[z3.MultiPattern(z3.Select(allocs.arr, j),
                                  psum(i, ps.mk(rpid, c)))]))
    # psum >= 0 and positive exactly when a positive amount was seen
    k = z3.Const('k!l2', ps)
    out.append(ops.forall([k], z3.And(psum(i, k) >= 0,
                                     ppos(i, k) == (psum(i, k) > 0)),
                         patterns=[psum(i, k)]))
    # every key with a positive placement so far is within capacity
    out.append(ops.forall([k], z3.Implies(
        ppos(i, k),
        z3.And(z3.Select(db.tables['inventories'].exists, k),
               capacity_ok(db, k, psum(i, k)))),
        patterns=[ppos(i, k)]))
    # every positive amount so far respects the unit constraints
    out.append(ops.forall([j], z3.Implies(
        z3.And(j >= 0, j < i, used > 0),
        z3.And(z3.Select(db.tables['inventories'].exists, ps.mk(rpid, rc)),
               units_ok(db, ps.mk(rpid, rc), used))),
        patterns=[z3.Select(allocs.arr, j)]))
    # res_providers: uuid -> an alloc's provider object with that uuid
    out.append(ops.forall([j], z3.Implies(
        z3.And(j >= 0, j < i), z3.Select(resp.dom, uuid)),
        patterns=[z3.Select(allocs.arr, j)]))
    u = z3.Const('u!l2', StrSort)
    w = z3.Int('w!l2')
    aw = z3.Select(allocs.arr, w)
    out.append(ops.forall([u], z3.Implies(
        z3.Select(resp.dom, u),
        z3.Exists([w], z3.And(
            w >= 0, w < i,
            z3.Select(resp.val, u) ==
            z3.Select(I.fld(ALLOC, 'resource_provider'), aw),
            z3.Select(I.fld(RP, 'uuid'), z3.Select(resp.val, u)) == u))),
        patterns=[z3.Select(resp.dom, u)]))
    return out


def loop2_probes(I, frame, i, seq):
    allocs = seq.origin
    db = I.db
    psum, ppos = psum_fns(I)
    ps = sort_of(PAIR)
    rpid, uuid, rc, used = alloc_terms(I, allocs, i)
    k = ps.mk(rpid, rc)
    inv = db.tables['inventories']
    out = {'amount': used, 'usage': z3.Select(db.usage, k),
           'running_sum_before': psum(i, k)}
    for c in ('total', 'reserved', 'allocation_ratio', 'min_unit', 'max_unit',
              'step_size'):
        out[c] = z3.Select(inv.data[c], k)
    out['__prefer__'] = [
        out['total'] <= 64, out['reserved'] <= out['total'],
        out['allocation_ratio'] >= z3.RealVal('1/2'),
        out['allocation_ratio'] <= 4,
        out['min_unit'] <= 8, out['max_unit'] <= 64, out['step_size'] <= 8,
        out['min_unit'] <= out['max_unit'],
        out['amount'] <= 64, out['usage'] <= 64,
        out['running_sum_before'] <= 64]
    return out


def loop2_lemmas(I, frame, i, seq):
    return psum_step_axioms(I, seq.origin, i) + psum_base_axioms(I)


HAVOC_TYPES = {
    (Q, 'usage_map'): ('map', UKEY, ('obj', CapRow)),
    (Q, 'provs_with_inv'): ('set', 'str'),
    (Q, 'res_providers'): ('map', 'str', ('obj', RP)),
    (Q, 'rp_resource_class_sum'): ('nested', 'str', 'int', 'int', 0),
}

LOOPS = {
    (Q, 1): LoopSpec(invariant=loop1_invariant, name='C01.check.inv1',
                     keep=('records', 'allocs', 'ctx')),
    (Q, 2): LoopSpec(invariant=loop2_invariant, lemmas=loop2_lemmas,
                     probes=loop2_probes,
                     name='C01.check.inv2',
                     keep=('allocs', 'ctx', 'usage_map', 'provs_with_inv')),
}

SELECTS = {Q: capacity_select}


# ===========================================================================
# callee contract of _check_capacity_exceeded (proved against its body by
# props/C01.py:script_check; callers use only this)

def check_requires(I, allocs):
    """Precondition: list of formulas over the allocation list."""
    n = allocs.len
    j, j2 = z3.Ints('j!pre j2!pre')
    rpid, uuid, rc, used = alloc_terms(I, allocs, j)
    rpid2, uuid2, rc2, used2 = alloc_terms(I, allocs, j2)
    rp = z3.Select(I.fld(ALLOC, 'resource_provider'), z3.Select(allocs.arr, j))
    rpt = I.db.tables['resource_providers']
    pre = z3.And(
        used >= 0,
        z3.Not(z3.Select(I.fld_none(RP, 'id'), rp)),
        z3.Not(z3.Select(I.fld_none(RP, 'uuid'), rp)),
        # R6: the uuid of a surviving provider id never changes
        z3.Implies(z3.Select(rpt.exists, rpid),
                   z3.Select(rpt.data['uuid'], rpid) == uuid))
    return [
        ops.forall([j], z3.Implies(z3.And(j >= 0, j < n), pre),
                   patterns=[z3.Select(allocs.arr, j)]),
        # provider objects are consistent: same uuid <=> same id
        ops.forall([j, j2], z3.Implies(
            z3.And(j >= 0, j < n, j2 >= 0, j2 < n),
            (uuid == uuid2) == (rpid == rpid2)),
            patterns=[z3.MultiPattern(z3.Select(allocs.arr, j),
                                      z3.Select(allocs.arr, j2))]),
    ]


def check_ensures(I, allocs, res):
    """Postcondition on normal return: dict name -> formula."""
    db = I.db
    n = allocs.len
    psum, ppos = psum_fns(I)
    ps = sort_of(PAIR)
    k = z3.Const('k!post', ps)
    j = z3.Int('j!post')
    rpid, uuid, rc, used = alloc_terms(I, allocs, j)
    inv = db.tables['inventories']
    return {
        'capacity': ops.forall([k], z3.Implies(
            ppos(n, k), z3.And(z3.Select(inv.exists, k),
                               capacity_ok(db, k, psum(n, k)))),
            patterns=[ppos(n, k)]),
        'units': ops.forall([j], z3.Implies(
            z3.And(j >= 0, j < n, used > 0),
            z3.And(z3.Select(inv.exists, ps.mk(rpid, rc)),
                   units_ok(db, ps.mk(rpid, rc), used))),
            patterns=[z3.Select(allocs.arr, j)]),
        'providers': ops.forall([j], z3.Implies(
            z3.And(j >= 0, j < n),
            z3.And(z3.Select(res.dom, uuid),
                   z3.Select(I.fld(RP, 'uuid'),
                             z3.Select(res.val, uuid)) == uuid)),
            patterns=[z3.Select(allocs.arr, j)]),
        'providers_from_allocs': _providers_from_allocs(I, allocs, res, n),
        'psum': ops.forall([k], z3.And(psum(n, k) >= 0,
                                       ppos(n, k) == (psum(n, k) > 0)),
                           patterns=[psum(n, k)]),
    }


def _providers_from_allocs(I, allocs, res, n):
    u = z3.Const('u!pfa', StrSort)
    w = z3.Int('w!pfa')
    aw = z3.Select(allocs.arr, w)
    return ops.forall([u], z3.Implies(
        z3.Select(res.dom, u),
        z3.Exists([w], z3.And(
            w >= 0, w < n,
            z3.Select(res.val, u) ==
            z3.Select(I.fld(ALLOC, 'resource_provider'), aw),
            z3.Select(I.fld(RP, 'uuid'), z3.Select(res.val, u)) == u))),
        patterns=[z3.Select(res.dom, u)])


def check_capacity_contract(I, args, kwargs):
    """Stub used at call sites of _check_capacity_exceeded."""
    from placement import exception
    ctx, allocs = args[0], args[1]
    if not isinstance(allocs, SList):
        raise Undecided('_check_capacity_exceeded called with %r' % (allocs,))
    for k, f in enumerate(check_requires(I, allocs)):
        I.ex.oblige('C01.check.requires.%d' % k, f, 'A')
    # exceptional exits: database untouched
    which = I.ex.choose(3, tag='check_capacity')
    if which == 1:
        I.raise_(exception.InvalidInventory)
    if which == 2:
        I.raise_(exception.ResourceClassNotFound)
    res = I.fresh_map('visited_rps', 'str', ('obj', RP))
    for name, f in check_ensures(I, allocs, res).items():
        I.ex.hyp(f)
    for f in psum_base_axioms(I):
        I.ex.hyp(f)
    I.ghost['check.allocs'] = allocs
    return res


# ===========================================================================
# _set_allocations
SQ = '_set_allocations'


def set_loop1_entry(I, frame, seq):
    I.ghost['set.usage0'] = I.db.usage
    I.ghost['set.held0'] = I.db.held
    I.ghost['set.total_held0'] = I.db.total_held
    I.ghost['set.db0'] = I.db.snapshot()
    I.ghost['set.dsum'] = z3.Function(I.ex.fresh_name('dsum'), z3.IntSort(),
                                      sort_of(PAIR), z3.IntSort())


def set_loop1_invariant(I, frame, i, seq):
    """Deleting the previous rows of the consumers e_0 .. e_{n-1} (an
    enumeration without repetition of consumer_ids):
    usage = usage0 - dsum(i), held / total_held zeroed for e_j, j < i."""
    from pyvc.ghostdb import HELD_KEY
    db = I.db
    usage0, held0, th0 = (I.ghost['set.usage0'], I.ghost['set.held0'],
                          I.ghost['set.total_held0'])
    dsum = I.ghost['set.dsum']
    cset = seq.origin
    p = z3.Const('p!sl1', sort_of(PAIR))
    hs = sort_of(HELD_KEY)
    h = z3.Const('h!sl1', hs)
    c = z3.Const('c!sl1', StrSort)
    done = lambda x: z3.And(z3.Select(cset.arr, x), seq.idx(x) < i)
    return [
        ops.forall([p], z3.Select(db.usage, p) ==
                   z3.Select(usage0, p) - dsum(i, p),
                   patterns=[z3.Select(db.usage, p)]),
        ops.forall([h], z3.Select(db.held, h) ==
                   z3.If(done(hs.accessor(0, 0)(h)), 0, z3.Select(held0, h)),
                   patterns=[z3.Select(db.held, h)]),
        ops.forall([c], z3.Select(db.total_held, c) ==
                   z3.If(done(c), 0, z3.Select(th0, c)),
                   patterns=[z3.Select(db.total_held, c)]),
    ]


def set_loop1_lemmas(I, frame, i, seq):
    """Definition of dsum and the A-sum lemma: the rows of distinct consumers
    on one (provider, class) never add up to more than its usage."""
    from pyvc.ghostdb import HELD_KEY
    usage0, held0 = I.ghost['set.usage0'], I.ghost['set.held0']
    dsum = I.ghost['set.dsum']
    ps, hs = sort_of(PAIR), sort_of(HELD_KEY)
    p = z3.Const('p!dsum', ps)
    hk = hs.mk(seq.at(i), ps.accessor(0, 0)(p), ps.accessor(0, 1)(p))
    out = [
        ops.forall([p], dsum(0, p) == 0, patterns=[dsum(0, p)]),
        ops.forall([p], dsum(i + 1, p) == dsum(i, p) + z3.Select(held0, hk),
                   patterns=[dsum(i + 1, p)]),
    ]
    for t in (i, i + 1):
        out.append(ops.forall([p], z3.And(dsum(t, p) >= 0,
                                          dsum(t, p) <= z3.Select(usage0, p)),
                              patterns=[dsum(t, p)]))
    return out


def set_loop2_entry(I, frame, seq):
    I.ghost['set.usage_d'] = I.db.usage
    I.ghost['set.total_held_d'] = I.db.total_held


def set_loop2_invariant(I, frame, i, seq):
    """Inserting the positive amounts: usage = usage after the deletes +
    prefix sum of the request."""
    db = I.db
    allocs = seq.origin
    psum, ppos = psum_fns(I)
    usage_d = I.ghost['set.usage_d']
    k = z3.Const('k!sl2', sort_of(PAIR))
    out = [ops.forall([k], z3.Select(db.usage, k) ==
                      z3.Select(usage_d, k) + psum(i, k),
                      patterns=[z3.Select(db.usage, k)])]
    vc = frame.locals['visited_consumers']
    j = z3.Int('j!sl2')
    a = z3.Select(allocs.arr, j)
    cons = z3.Select(I.fld(ALLOC, 'consumer'), a)
    cid = z3.Select(I.fld('Consumer', 'id'), cons)
    out.append(ops.forall([j], z3.Implies(
        z3.And(j >= 0, j < i), z3.Select(vc.dom, cid)),
        patterns=[z3.Select(allocs.arr, j)]))
    c = z3.Int('c!sl2')
    w = z3.Int('w!sl2')
    aw = z3.Select(allocs.arr, w)
    out.append(ops.forall([c], z3.Implies(
        z3.Select(vc.dom, c),
        z3.Exists([w], z3.And(
            w >= 0, w < i,
            z3.Select(vc.val, c) == z3.Select(I.fld(ALLOC, 'consumer'), aw),
            z3.Select(I.fld('Consumer', 'id'), z3.Select(vc.val, c)) == c))),
        patterns=[z3.Select(vc.dom, c)]))
    return out


def set_loop2_lemmas(I, frame, i, seq):
    return psum_step_axioms(I, seq.origin, i) + psum_base_axioms(I)


def _same_but(t, t0, k, skip):
    fs = [z3.Select(t.exists, k) == z3.Select(t0.exists, k)]
    for c in t0.data:
        if c in skip:
            continue
        fs.append(z3.Select(t.data[c], k) == z3.Select(t0.data[c], k))
        if c in t0.null:
            fs.append(z3.Select(t.null[c], k) == z3.Select(t0.null[c], k))
    return z3.And(*fs)


def rp_bumped(I, m, t0, k, idx=None, i=None):
    """k is the id of a provider of the visited map (enumerated before i)"""
    u = z3.Select(t0.data['uuid'], k)
    v = z3.Select(m.val, u)
    fs = [z3.Select(t0.exists, k), z3.Select(m.dom, u),
          z3.Select(I.fld(RP, 'id'), v) == k]
    if idx is not None:
        fs.append(idx(u) < i)
    return z3.And(*fs)


def set_loop3_entry(I, frame, seq):
    I.ghost['set.rp0'] = I.db.tables['resource_providers']
    I.ghost['set.visited_rps'] = seq.origin


def set_loop3_invariant(I, frame, i, seq):
    """the providers enumerated so far carry generation + 1 (table and
    object), every other row is as before"""
    t0 = I.ghost['set.rp0']
    t = I.db.tables['resource_providers']
    m = seq.origin
    k = z3.Int('k!sl3')
    b = rp_bumped(I, m, t0, k, seq.idx, i)
    return [
        ops.forall([k], _same_but(t, t0, k, ('generation',)),
                   patterns=[z3.Select(t.exists, k)]),
        ops.forall([k], z3.Select(t.data['generation'], k) ==
                   z3.Select(t0.data['generation'], k) + z3.If(b, 1, 0),
                   patterns=[z3.Select(t.data['generation'], k)]),
    ]


def set_loop4_entry(I, frame, seq):
    I.ghost['set.cons0'] = I.db.tables['consumers']
    I.ghost['set.visited_consumers'] = seq.origin


def set_loop4_invariant(I, frame, i, seq):
    t0 = I.ghost['set.cons0']
    t = I.db.tables['consumers']
    m = seq.origin
    k = z3.Int('k!sl4')
    b = z3.And(z3.Select(t0.exists, k), z3.Select(m.dom, k), seq.idx(k) < i)
    return [
        ops.forall([k], _same_but(t, t0, k, ('generation',)),
                   patterns=[z3.Select(t.exists, k)]),
        ops.forall([k], z3.Select(t.data['generation'], k) ==
                   z3.Select(t0.data['generation'], k) + z3.If(b, 1, 0),
                   patterns=[z3.Select(t.data['generation'], k)]),
    ]


SET_HAVOC_TYPES = {
    (SQ, 'visited_consumers'): ('map', 'int', ('obj', CONSUMER)),
}

SET_LOOPS = {
    (SQ, 1): LoopSpec(invariant=set_loop1_invariant, on_entry=set_loop1_entry,
                      lemmas=set_loop1_lemmas,
                      name='C01.set.delete', keep=('allocs', 'context'),
                      modifies_db=('allocations', 'aggregates')),
    (SQ, 2): LoopSpec(invariant=set_loop2_invariant, on_entry=set_loop2_entry,
                      lemmas=set_loop2_lemmas, name='C01.set.insert',
                      keep=('allocs', 'context', 'visited_rps'),
                      modifies_db=('allocations', 'aggregates'),
                      modifies_fields=(('Allocation', 'id'),)),
    (SQ, 3): LoopSpec(invariant=set_loop3_invariant, on_entry=set_loop3_entry,
                      name='C01.set.rpgen',
                      keep=('allocs', 'context', 'visited_rps',
                            'visited_consumers'),
                      modifies_db=('resource_providers',),
                      modifies_fields=(('ResourceProvider', 'generation', 'keepnull'),)),
    (SQ, 4): LoopSpec(invariant=set_loop4_invariant, on_entry=set_loop4_entry,
                      name='C01.set.consgen',
                      keep=('allocs', 'context', 'visited_rps',
                            'visited_consumers'),
                      modifies_db=('consumers',),
                      modifies_fields=(('Consumer', 'generation', 'keepnull'),)),
}


def delete_consumers_if_no_allocations_contract(I, args, kwargs):
    """Callee contract (proved in C12): removes exactly the consumers of the
    given set that hold no allocation; touches only the consumers table."""
    from contracts import lib
    t = lib.current_txn(I)
    I.ex.oblige('typestate.write_in_writer_txn',
                t is not None and t['mode'] == 'writer', 'A',
                {'table': 'consumers'})
    uuids = args[1]
    db = I.db
    cons = db.tables['consumers']
    new = cons.clone()
    k = z3.Int('k!dcna')
    member = db.member(z3.Select(cons.data['uuid'], k), 'str', uuids) \
        if not isinstance(uuids, (list, tuple)) else z3.BoolVal(False)
    new.exists = z3.Lambda([k], z3.And(
        z3.Select(cons.exists, k),
        z3.Not(z3.And(member, z3.Select(db.total_held,
                                        z3.Select(cons.data['uuid'], k)) == 0))))
    db.tables['consumers'] = new
    db.writes.append(('consumers', 'delete', ()))
    I.event('db.write', 'consumers', 'delete', ())
    return None
