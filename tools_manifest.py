"""Generates MANIFEST.json from the table below (kept valid at all times)."""
import json, os
V = os.path.dirname(os.path.abspath(__file__))
BASE = "cd /repo && /venv/bin/python -m pytest -ra -q -p no:cacheprovider --timeout=900 --continue-on-collection-errors"
CHECKS = {
 'C01': dict(
   text="Deductive: the real _check_capacity_exceeded (both loops, inductive invariants over ghost prefix sums) is proved, for any number of allocations/providers/consumers and any inventory values, to accept only amounts that respect min/max/step and keep usage + running sum within (total-reserved)*ratio; failing obligations are replayed on the real WSGI stack.",
   note="Assumes A-sql (meaning of the capacity SELECT, whose text is pinned), A-sum, A-real, A-int, A-key, A-heap, A-order, A-txn. Handlers/_set_allocations/reshape obligations are listed in evidence when present.",
   design="4/C01"),
}
CHECKS['C16'] = dict(
   text="Deductive, exhaustive over the real route table: every handler function (all version overloads, through the real decorators and PlacementWsgify.call_func) is symbolically executed for every microversion and request; on every path the first effectful call is context.can(<the one rule whose documented operations contain this method+path>) with fatal refusal, a refusal leaves as PolicyNotAuthorized with no effect, early exits are only 404/405/406/415. RequestContext.can, PlacementHandler.__call__ (403/404 mapping) and both auth middlewares (401 unless '/') are verified from their bodies; default check strings are proved equivalent to the documented role formulas with z3. Failed obligations are replayed on the real WSGI stack with refused callers / single-rule overrides.",
   note="Trusted: oslo.policy evaluation of check strings, keystonemiddleware, webob.dec.wsgify, routes.Mapper dispatch (A-lib). deploy() stacking order is not yet an obligation.",
   design="4/C16")
NA = {
 'C17': "quantifies over injected database faults and the retry behaviour of oslo.db/enginefacade; both would have to be assumed, at which point the contract restates the property (DESIGN section 5)",
}
def main():
    props = [json.loads(l)['id'] for l in open(os.path.join(V, 'properties.jsonl'))]
    checks = []
    for p in props:
        if p in CHECKS and os.path.exists(os.path.join(V, 'props', p + '.py')):
            c = CHECKS[p]
            checks.append({
              "property_id": p,
              "quick_cmd": "./check %s quick" % p,
              "thorough_cmd": "./check %s thorough" % p,
              "evidence_file": "evidence/%s.json" % p,
              "replay_cmd_template": "cat {path}",
              "engine": "pyvc",
              "level_claimed": {"category": "proof", "text": c['text'], "design_ref": "DESIGN.md section " + c['design']},
              "level_note": c['note'],
              "technique": "contract-based deductive verification: VCs generated from the AST of the real functions (pyvc) and discharged by z3/cvc5; model-guided replay on the real code",
            })
    na = []
    for p in props:
        if p not in [c['property_id'] for c in checks]:
            na.append({"property_id": p, "reason": NA.get(p, "contracts for this property are not built yet in this revision; nothing is claimed")})
    m = {
      "version": 1,
      "setup_cmd": "./setup.sh",
      "hooks": {"guard": "OPENSTACK_PLACEMENT_VERIF", "enable": "none needed: contracts are sidecar files under /verif/contracts, the repository is not instrumented", "baseline_off_cmd": BASE, "source_commits": [], "add_only": True},
      "engines": [{"name": "pyvc", "path": "pyvc/", "serves_properties": [c['property_id'] for c in checks], "kind_free_text": "Python AST symbolic executor generating verification conditions from the real function objects of /repo; z3 5.1 + cvc5; sidecar contracts in contracts/; proof scripts in props/"}],
      "checks": checks,
      "not_applicable": na,
      "notes": "Exit codes of checks: 0 held, 1 violation (VIOLATION line), 2 undecided, 3 checker error.",
    }
    json.dump(m, open(os.path.join(V, 'MANIFEST.json'), 'w'), indent=1)
if __name__ == '__main__':
    main()
