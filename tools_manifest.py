"""Generates MANIFEST.json from the table below (kept valid at all times)."""
import json, os
V = os.path.dirname(os.path.abspath(__file__))
BASE = "cd /repo && /venv/bin/python -m pytest -ra -q -p no:cacheprovider --timeout=900 --continue-on-collection-errors"
CHECKS = {
 'C01': dict(
   text="Deductive: the real _check_capacity_exceeded (both loops, inductive invariants over ghost prefix sums) is proved, for any number of allocations/providers/consumers and any inventory values, to accept only amounts that respect min/max/step and keep usage + running sum within (total-reserved)*ratio; failing obligations are replayed on the real WSGI stack.",
   note="Assumes A-sql (meaning of the capacity SELECT, whose text is pinned), A-sum, A-real, A-int, A-key, A-heap, A-order, A-txn. Handlers/_set_allocations/reshape obligations are listed in evidence when present.",
   design="4/C01"),
}
CHECKS['C16'] = dict(
   text="Deductive, exhaustive over the real route table: every handler function (all version overloads, through the real decorators and PlacementWsgify.call_func) is symbolically executed for every microversion and request; on every path the first effectful call is context.can(<the one rule whose documented operations contain this method+path>) with fatal refusal, a refusal leaves as PolicyNotAuthorized with no effect, early exits are only 404/405/406/415. RequestContext.can, PlacementHandler.__call__ (403/404 mapping) and both auth middlewares (401 unless '/') are verified from their bodies; default check strings are proved equivalent to the documented role formulas with z3. Failed obligations are replayed on the real WSGI stack with refused callers / single-rule overrides.",
   note="Trusted: oslo.policy evaluation of check strings, keystonemiddleware, webob.dec.wsgify, routes.Mapper dispatch (A-lib). deploy() stacking order is not yet an obligation.",
   design="4/C16")
CHECKS['C04'] = dict(
   text="Deductive typestate over the 15 real write handlers (all version overloads, real decorators) with the object layer under contract and a ghost database: (1) all writes to providers/inventories/allocations/associations of one request lie in one top-level writer transaction; (2) on every exit that raises, the stored core tables equal their value at entry (transaction rolled back, auto-created consumer deleted again; for multi-consumer requests: the clean-up is reached with the created consumers); (3) no core-writing call is swallowed on a success path. Always-on bounded stand-in: 36 rejected requests on the real WSGI stack with table dumps compared.",
   note="A-txn (enginefacade scopes atomic, nested scopes join), A-nofault, object-layer contracts cross-checked against the bodies only for raise sets and transaction shape; Consumer.delete / update bodies proved (Tier A). For POST /allocations and POST /reshaper the consumers table on error exits is covered by the clean-up typestate, not by table equality.",
   design="4/C04")
CHECKS['C05'] = dict(
   text="Deductive: ResourceProvider.increment_generation proved to be a compare-and-swap (Tier-A SQL semantics of the real UPDATE); the six mutators proved to run as one writer transaction ending in that CAS on their provider; every guarded handler proved, under interference between transactions, to apply its write against exactly the generation in the request body, derived-generation writers against their own read; generation-caused exits are 409 placement.concurrent_update. Bounded stand-in: stale generations and 8 interleavings on the real stack.",
   note="A-txn, A-nofault, A-key; helper SELECTs of the mutators are contracts (A-sql); reshaper's per-provider guard and 'only the CAS writes the generation column' for the ORM-based save() are covered by the bounded stand-in only.",
   design="4/C05")
CHECKS['C06'] = dict(
   text="Deductive: the real ensure_consumer body, under interference between its transactions, returns an existing consumer only with the carried generation and creates one only for null (this obligation found F4); the allocation-writing handlers hand the write transaction Allocation objects carrying the checked Consumer (found F15); Consumer.increment_generation is a CAS, Consumer.update is guarded and leaves the generation alone. Bounded stand-in: 5 race scenarios on the real stack.",
   note="A-txn, A-nofault, A-key, A-lib. _set_allocations' per-consumer CAS loop is covered by the C01 script (frame only) and the leaf proof; POST/reshaper list-building loops are havocked (PUT is precise).",
   design="4/C06")
CHECKS['C10'] = dict(
   text="Deductive: every mutator body ends in a successful CAS iff it changed something (set_traits: iff rows written; set_aggregates: iff the flag) and the handlers pass the flag iff microversion >= 1.19; the generation returned equals the stored one; GET handlers reach no write; both increment_generation bodies are exact CASes. Always-on bounded write sequences on the real stack.",
   note="A-txn, A-nofault; helper SELECTs of mutators by contract; allocation writes bump every visited provider/consumer: loop frames only (C01 script) plus bounded sequences.",
   design="4/C10")
CHECKS['C15'] = dict(
   text="Deductive exception-flow: every real handler (33 operations, all overloads) symbolically executed against schema-shaped inputs (instances generated from the real schema dicts, non-finite numbers included) with the object layer under contract; every exception leaving a handler is a webob 4xx, NotFound or PolicyNotAuthorized. Contract raise-sets are cross-checked against a static raise analysis of the bodies on every run; ensure_consumer's body is checked under interference. Always-on bounded corpus mutation (600 requests) on the real stack.",
   note="A-lib (jsonschema accepts exactly schema instances), A-nofault, A-heap; string-level query parsing helpers are contracts (bounded by the corpus mutation); PlacementHandler/FaultWrapper/formatter obligations are in C16/C14.",
   design="4/C15")
CHECKS['C12'] = dict(
   text="Deductive: ensure_consumer's real body (interference between its transactions) reports 'created' exactly when it inserted the row, with generation 0, placeholder project/user exactly when the body has no project_id and the consumer type exactly from 1.38; PUT /allocations leaves a consumer it created only with allocations (found F7) and removes it on every error exit (found F2); POST /allocations and /reshaper reach the clean-ups; Consumer.delete's body removes the row whatever its generation. Always-on bounded request sequences and a creation race on the real stack compare the consumers and allocations tables after every request.",
   note="A-txn, A-lib, A-nofault, A-key; 'exists iff holds allocations' over whole histories rests on the object-layer contracts of replace_all / delete_all (delete_consumers_if_no_allocations is a contract, its SELECT A-sql) plus the bounded sequences.",
   design="4/C12")
CHECKS['C14'] = dict(
   text="Deductive with the microversion symbolic: for every route x method the real decorator chain lets a request through exactly from the documented version and answers the documented 404/405 below it, the served overload is the one whose window holds the version, windows tile [first, 1.39]; the schema object selected, the keyword flags handed to the object layer, last-modified/cache-control, version-dependent response keys, 201 vs 200+body and the error `code` are proved to switch exactly at the documented version (feature table transcribed from rest_api_version_history.rst). Always-on bounded stand-in: 53 feature probes on the real stack around each introduction version (thorough: all 40 versions) plus version negotiation.",
   note="A-lib: microversion_parse (406, header parsing) trusted; gates inside the string-level query parsers and inside the candidate serialiser loops are covered by the probes only.",
   design="4/C14")
CHECKS['C02'] = dict(
   text="Deductive, per function, unbounded in list lengths: (1) the real _consolidate_allocation_requests (+ copy_arr_if_needed) is proved to return one entry per (provider, class) whose amount is the ghost sum of the input amounts with that key, every input key placed, the anchor kept, and -- frame -- no AllocationRequestResource that existed before the call modified (two nested inductive invariants with ghost sums and first-occurrence functions); (2) exceeds_capacity is proved to return True iff some resource has used + amount > capacity or amount > max_unit of its summary entry; (3) _build_provider_summaries is proved to record capacity int((total - reserved) * allocation_ratio), used (NULL -> 0), max_unit, class name and the provider's uuid / parent / root for every usage row; (4) the claim lemma (z3, with witness-style divisibility lemmas): amounts admitted by the real _capacity_check_clause object (translated term by term), added up and not rejected by exceeds_capacity, satisfy the acceptance condition of _check_capacity_exceeded (its contract, proved against its body by C01). Always-on bounded stand-in: claim every returned candidate on the real stack and compare every summary with the stored state.",
   note="A-sql: the rows returned by get_usages_by_provider_trees / _provider_ids_from_root_ids / the per-group candidate SELECTs are assumed to be the stored ones (bounded stand-in only); mappings, 'one provider per suffixed group' and the establishment of consolidate's precondition (multi_group_rcs) in _get_by_requests / _merge_candidates are covered by the bounded stand-in only; JSON serialisation of the candidates by C14's response-key obligations and the stand-in.",
   design="4/C02")
CHECKS['C08'] = dict(
   text="Deductive, per writer: every statement sequence that removes a row others may refer to is proved (body proof over the ghost tables) to refuse while it is referred to and to change nothing when it refuses -- _delete_inventory_from_provider (in-use SELECT by relational spec, then DELETE: exactly the named rows go, no allocation row loses its inventory), ResourceProvider.destroy / _delete (allocations, children; its inventories, trait and aggregate associations go with it), ResourceClass.destroy (inventory of that class, standard class), Trait.destroy (associated, standard trait); every sequence that adds a referring row runs in one writer transaction ending with the provider's generation compare-and-swap, which fails unless the provider row exists (six mutator body proofs); allocation rows are written only after _check_capacity_exceeded found the inventory row of that class on that provider (its body proof and that of _set_allocations); the real handlers map each refusal to 409 / 400 (standard names). Always-on bounded stand-in: directed and random histories on the real stack with every stored reference resolved in the raw tables after every request.",
   note="Composition over whole histories is by the per-writer obligations (each preserves the referential invariant) -- the invariant itself is not carried through the handler-level exploration; 'recorded consumer' is C12's obligation; reshaper reuses _set_inventory / _set_allocations inside one transaction (C04 one-transaction obligation); interleavings (stale per-request caches) belong to C07.",
   design="4/C08")
CHECKS['C09'] = dict(
   text="Deductive over the ghost resource_providers table, with ORM idioms given the semantics of the statements they emit: the real ResourceProvider.create/_create_in_db, save/_update_in_db and destroy/_delete are executed symbolically from an arbitrary table satisfying the forest invariant (ranked parent links, root pointer shared with the parent, parentless rows their own root, root rows exist); each is proved to re-establish it -- for a move with the explicit new rank function depth - depth(moved) + depth(new parent) + 1 on the subtree -- to change no other provider's parent, to report the root that the parent links lead to, to refuse loops, missing parents, providers with children or allocations and, without allow_reparenting, any change of an existing parent, and to leave the database untouched when it raises. The subtree loop of _update_in_db carries an inductive invariant. C14 proves allow_reparenting == (microversion >= 1.37). Always-on bounded stand-in: directed and random request histories on the real stack with the forest re-derived from raw rows and a reference model of the hierarchy.",
   note="A-subtree: ResourceProvider.get_subtree is used through an assumed contract (descendant set of the entry table), its recursive body is exercised by the bounded histories only; A-orm / A-sql: ORM idioms and the two SELECTs (text pinned) by relational spec; that the row a root pointer names survives DELETE is the foreign key's guarantee (A-key); sequential histories only -- interleavings belong to C07.",
   design="4/C09")
CHECKS['C13'] = dict(
   text="Deductive contract proof of the real _get_all_by_filters_from_db for 43 presence patterns of the filters (all subsets of size <= 2 of name / uuid / in_tree / member_of / forbidden aggregates / required / forbidden traits / resources, all eight together, two resource classes, unknown-class patterns), values symbolic: with each id-set helper used through the contract 'the ids of the providers with property P', the rows selected by the final statement the real code assembles (its WHERE clause evaluated over the ghost table, FROM clause pinned) are exactly the existing providers satisfying every supplied filter; every supplied filter consults its helper; an early empty answer is returned only when no provider can match; unknown trait / class names raise before any filtering. Always-on bounded stand-in: reference evaluation over the raw rows for single, paired and random filter combinations on four topologies.",
   note="A-sql: the SQL inside provider_ids_matching_aggregates / provider_ids_matching_required_traits / get_provider_ids_having_any_trait / get_providers_with_resource (multi-way joins, GROUP BY, capacity clause) is not interpreted -- their results are uninterpreted id sets here and only the bounded reference evaluation checks them; presence patterns beyond those listed are not enumerated (the conjunction is assembled filter by filter, independent of the others); query-string parsing (normalize_* helpers) is by contract.",
   design="4/C13")
CHECKS['C19'] = dict(
   text="Deductive: (1) regular-language inclusion decided by z3/cvc5 on the real schema objects -- every string accepted by the four name schemas under python's re.search semantics of ^ $ \\Z (the patterns are parsed with python's own sre parser and translated) is CUSTOM_[A-Z0-9_]* of at most 255 characters; (2) data flow through the real handlers of PUT /traits/{name}, POST /resource_classes and PUT /resource_classes/{name} (both overloads): the very string handed to Trait.create / ResourceClass.create / ResourceClass.save was validated against one of those schemas; (3) body proofs over the ghost tables with ORM idioms as statements: ResourceClass.create (retry loop with an inductive invariant, _get_next_id, explicit-key insert, unique name) stores the name under a fresh id >= 10000 and never duplicates a name; ResourceClass.destroy / save and Trait.destroy refuse standard entries before any write, refuse entries in use, and change nothing when they raise. Always-on bounded stand-in: start-up synchronisation from five table states (twice each), 28 name probes x 3 routes + renames, id histories.",
   note="Start-up synchronisation (_trait_sync / _resource_classes_sync) is covered by the bounded stand-in only (label: bounded); A-str: strings are uninterpreted outside the language lemmas, str.startswith is a functional predicate; 'standard class <=> id < 10000' rests on sync assigning list indices (< 10000, checked natively) and create() on ids >= 10000 (proved).",
   design="4/C19")
CHECKS['C20'] = dict(
   text="Deductive, unbounded in the lists: the real RequestWideSearchContext.limit_results is proved against the property's postcondition (count == min(N, M); every returned request is one of the inputs, pairwise distinct; without randomisation the result is the prefix of the input and random is never called; without an effective limit the result is a permutation; every provider named by a kept request keeps a summary; summaries come from the input) with three inductive loop invariants; AllocationCandidates._get_by_requests is proved against the callee contracts to apply limit_results to exactly EXCL(merged) -- the complete filtered candidate list -- so the limited answer is selected from the unlimited one. Always-on bounded stand-in: real stack, 4 topologies x 8 queries x limits 1..M+1 x randomisation off/on.",
   note="A-lib: random.sample / random.shuffle by their documented behaviour; exclude_nested_providers and _merge_candidates are uninterpreted list functions here (their own behaviour belongs to C02/C03); 'identical request on unchanged state returns the identical list' additionally rests on the determinism of the SQL result order (A-order), which only the bounded stand-in exercises.",
   design="4/C20")
NA = {
 'C17': "quantifies over injected database faults and the retry behaviour of oslo.db/enginefacade; both would have to be assumed, at which point the contract restates the property (DESIGN section 5)",
}
def main():
    props = [json.loads(l)['id'] for l in open(os.path.join(V, 'properties.jsonl'))]
    checks = []
    for p in props:
        if p in CHECKS and os.path.exists(os.path.join(V, 'props', p + '.py')):
            c = CHECKS[p]
            checks.append({
              "property_id": p,
              "quick_cmd": "./check %s quick" % p,
              "thorough_cmd": "./check %s thorough" % p,
              "evidence_file": "evidence/%s.json" % p,
              "replay_cmd_template": "cat {path}",
              "engine": "pyvc",
              "level_claimed": {"category": "proof", "text": c['text'], "design_ref": "DESIGN.md section " + c['design']},
              "level_note": c['note'],
              "technique": "contract-based deductive verification: VCs generated from the AST of the real functions (pyvc) and discharged by z3/cvc5; model-guided replay on the real code",
            })
    na = []
    for p in props:
        if p not in [c['property_id'] for c in checks]:
            na.append({"property_id": p, "reason": NA.get(p, "contracts for this property are not built yet in this revision; nothing is claimed")})
    m = {
      "version": 1,
      "setup_cmd": "./setup.sh",
      "hooks": {"guard": "OPENSTACK_PLACEMENT_VERIF", "enable": "none needed: contracts are sidecar files under /verif/contracts, the repository is not instrumented", "baseline_off_cmd": BASE, "source_commits": [], "add_only": True},
      "engines": [{"name": "pyvc", "path": "pyvc/", "serves_properties": [c['property_id'] for c in checks], "kind_free_text": "Python AST symbolic executor generating verification conditions from the real function objects of /repo; z3 5.1 + cvc5; sidecar contracts in contracts/; proof scripts in props/"}],
      "checks": checks,
      "not_applicable": na,
      "notes": "Exit codes of checks: 0 held, 1 violation (VIOLATION line), 2 undecided, 3 checker error.",
    }
    json.dump(m, open(os.path.join(V, 'MANIFEST.json'), 'w'), indent=1)
if __name__ == '__main__':
    main()
