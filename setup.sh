#!/bin/bash
# Build the overlay interpreter used by every check: /venv's python (3.12, has
# placement + its deps, editable install pointing at /repo) plus z3-solver /
# cvc5 wheels from the offline wheelhouse.  Idempotent; offline.
set -e
cd "$(dirname "$0")"
V=.venv
if [ ! -x $V/bin/python ] || ! $V/bin/python -c "import z3, placement, sqlalchemy" >/dev/null 2>&1; then
  rm -rf $V
  /venv/bin/python -m venv $V
  PIP_NO_INDEX=1 $V/bin/pip install -q --no-index --find-links /opt/veriftools/wheels z3-solver cvc5 >/dev/null 2>&1 || \
  PIP_NO_INDEX=1 $V/bin/pip install -q --no-index --find-links /opt/veriftools/wheels z3-solver
  SP=$($V/bin/python -c "import site; print(site.getsitepackages()[0])")
  echo "import site; site.addsitedir('/venv/lib/python3.12/site-packages')" > $SP/_overlay_venv.pth
fi
$V/bin/python -c "import z3, placement, sqlalchemy; print('overlay venv ok: z3', z3.get_version_string(), 'placement from', placement.__file__)"
