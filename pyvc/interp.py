"""Symbolic interpreter for the Python subset used by the functions under
contract.  It executes the AST of *real* function objects of the working
tree; names are resolved against the real imported modules."""
import ast
import builtins as _builtins
import types

import z3

from pyvc import source
from pyvc.core import PathEnd, Infeasible, Undecided, Restart
from pyvc.values import (Sym, Obj, VList, VDict, VSet, SList, SSet, SMap,
                         Closure, BoundMethod, Native, ExcVal, Opaque,
                         StrSort, sort_of, str_const)
from pyvc import ops
from pyvc.ops import (to_term, from_term, none_flag, z_and, z_or, z_not,
                      z_ite, values_equal, ty_of, is_concrete)


class PyRaise(Exception):
    """An exception of the interpreted program."""

    def __init__(self, exc):
        Exception.__init__(self, repr(exc))
        self.exc = exc


class _Return(Exception):
    def __init__(self, value):
        self.value = value


class _Break(Exception):
    pass


class _Continue(Exception):
    pass


class Frame(object):
    def __init__(self, locals_, parent, globals_, qualname, module):
        self.locals = locals_
        self.parent = parent          # enclosing (closure) frame
        self.globals = globals_
        self.qualname = qualname
        self.module = module
        self.loop_ordinal = 0
        self.handling = []            # stack of exceptions being handled
        self.self_cls = None          # class owning the function (super())


class FieldSpec(object):
    """Declared type of an object field stored in the z3 heap."""
    __slots__ = ('ty', 'nullable')

    def __init__(self, ty, nullable=False):
        self.ty = ty
        self.nullable = nullable


class LoopSpec(object):
    """Sidecar contract of one loop, addressed by (function qualname, loop
    ordinal).  invariant(I, frame, i) -> list of z3 formulas over the
    (havocked) frame; i is the number of completed iterations."""

    def __init__(self, invariant=None, modifies_fields=(), name=None,
                 extra_havoc=(), lemmas=None, keep=(), probes=None,
                 modifies_db=(), on_entry=None):
        self.probes = probes
        self.modifies_db = tuple(modifies_db)
        self.on_entry = on_entry
        self.invariant = invariant
        self.modifies_fields = tuple(modifies_fields)
        self.name = name
        self.extra_havoc = tuple(extra_havoc)
        self.lemmas = lemmas
        self.keep = tuple(keep)      # locals that the body never changes


_CONCRETE_REF_BASE = 1000000000
_LOOP_REF_GAP = 1000000
AUTO_FRAMES = {}      # (qualname, loop ordinal) -> (tables, fields) learnt
_LOOP_ORDINALS = {}   # id(function node) -> {id(loop node): ordinal}


class Interp(object):
    def __init__(self, ex, registry=None):
        self.ex = ex
        self.registry = registry or {}
        self.reset()

    # state is rebuilt for every path
    def reset(self):
        self.heap = {}          # (clsname, field) -> z3 Array(Int -> sort)
        self.heap_none = {}     # (clsname, field) -> z3 Array(Int -> Bool)
        self.meta = {}          # (ref int, field) -> meta value
        self.next_ref = _CONCRETE_REF_BASE
        self.events = []        # trace of ghost events
        self.uncontracted = []  # default-contract calls on this path
        self.call_depth = 0
        self.written_fields = set()
        self.ghost = {}         # free-form ghost state for stubs
        self.qguards = []
        self.keepnull = set()
        self.callstack = []
        self.db = None
        self.txn_stack = []
        self.txn_counter = 0
        self.interference = False

    # ---------------------------------------------------------------- utils
    def fresh(self, base, ty, nullable=False):
        name = self.ex.fresh_name(base)
        if isinstance(ty, tuple) and ty[0] == 'obj':
            v = Obj(ty[1], z3.Int(name))
            # an existing object: symbolic (< base) or allocated so far
            self.ex.assume(z3.And(v.ref >= 0, v.ref <= self.next_ref))
        elif isinstance(ty, tuple) and ty[0] == 'tuple':
            return from_term(z3.Const(name, sort_of(ty)), ty)
        else:
            v = Sym(z3.Const(name, sort_of(ty)), ty)
        if nullable:
            v.none = z3.Bool(name + '?none')
        return v

    def fresh_list(self, base, ety, upper='pre'):
        """upper: 'pre' -- elements are objects that existed before the
        script allocated anything; 'now' -- any object allocated so far;
        None -- the caller defines the elements"""
        name = self.ex.fresh_name(base)
        n = z3.Int(name + '.len')
        self.ex.assume(n >= 0)
        arr = z3.Const(name + '.arr', z3.ArraySort(z3.IntSort(), sort_of(ety)))
        lst = SList(n, arr, ety, name)
        if isinstance(ety, tuple) and ety[0] == 'obj' and upper is not None:
            j = z3.Int(name + '.j')
            top = _CONCRETE_REF_BASE if upper == 'pre' else self.next_ref + 1
            self.ex.hyp(ops.forall([j], z3.And(arr[j] >= 0, arr[j] < top),
                                  patterns=[arr[j]]))
        return lst

    def fresh_set(self, base, ety):
        name = self.ex.fresh_name(base)
        arr = z3.Const(name, z3.ArraySort(sort_of(ety), z3.BoolSort()))
        return SSet(arr, ety, None, name)

    def fresh_map(self, base, kty, vty, default=None):
        name = self.ex.fresh_name(base)
        dom = z3.Const(name + '.dom', z3.ArraySort(sort_of(kty), z3.BoolSort()))
        val = z3.Const(name + '.val', z3.ArraySort(sort_of(kty), sort_of(vty)))
        if isinstance(vty, tuple) and vty[0] == 'obj':
            kk = z3.Const('kk!' + name, sort_of(kty))
            self.ex.hyp(z3.ForAll([kk], z3.And(val[kk] >= 0,
                                               val[kk] <= self.next_ref),
                                  patterns=[val[kk]]))
        return SMap(dom, val, kty, vty, default, name)

    def raise_(self, cls, *args, **fields):
        hook = self.registry.get('exc_fields')
        if hook is not None:
            fields = hook(cls, args, fields)
        raise PyRaise(ExcVal(cls, args, fields))

    def undecided(self, msg, node=None):
        where = ''
        if node is not None and hasattr(node, 'lineno'):
            where = ' (line %d)' % node.lineno
        raise Undecided(msg + where)

    def event(self, *ev):
        self.events.append(ev)

    def events_of(self, kind):
        return [e for e in self.events if e[0] == kind]

    # ----------------------------------------------------------------- heap
    def field_spec(self, cls, field):
        specs = self.registry.get('fields', {})
        for c in getattr(cls, '__mro__', (cls,)):
            fs = specs.get((getattr(c, '__name__', c), field))
            if fs is not None:
                return fs
        return None

    def _arr(self, cls, field, spec):
        key = (getattr(cls, '__name__', cls), field)
        if key not in self.heap:
            self.heap[key] = z3.Const(
                'heap.%s.%s' % key,
                z3.ArraySort(z3.IntSort(), sort_of(spec.ty)))
            if spec.nullable:
                self.heap_none[key] = z3.Const(
                    'heapnone.%s.%s' % key,
                    z3.ArraySort(z3.IntSort(), z3.BoolSort()))
            if isinstance(spec.ty, tuple) and spec.ty[0] == 'obj':
                j = z3.Int('j!' + 'heap.%s.%s' % key)
                a = self.heap[key]
                self.ex.hyp(ops.forall([j], z3.And(a[j] >= 0), patterns=[a[j]]))
        return key

    def fld(self, cls, field):
        """Current z3 array of a declared field (for use in formulas)."""
        spec = self.field_spec(cls, field)
        if spec is None:
            self.undecided('field %s.%s not declared' % (cls, field))
        return self.heap[self._arr(cls, field, spec)]

    def fld_none(self, cls, field):
        spec = self.field_spec(cls, field)
        key = self._arr(cls, field, spec)
        return self.heap_none[key]

    # collection-valued fields: the heap stores a collection id; the
    # contents are given by global functions of the id
    def coll_fns(self, ty):
        if ty[0] == 'list':
            es = sort_of(ty[1])
            return (z3.Function('coll_len', z3.IntSort(), z3.IntSort()),
                    z3.Function('coll_list_%s' % es.name(), z3.IntSort(),
                                z3.ArraySort(z3.IntSort(), es)))
        if ty[0] == 'set':
            es = sort_of(ty[1])
            return (z3.Function('coll_set_%s' % es.name(), z3.IntSort(),
                                z3.ArraySort(es, z3.BoolSort())),)
        ks, vs = sort_of(ty[1]), sort_of(ty[2])
        return (z3.Function('coll_dom_%s' % ks.name(), z3.IntSort(),
                            z3.ArraySort(ks, z3.BoolSort())),
                z3.Function('coll_val_%s_%s' % (ks.name(), vs.name()),
                            z3.IntSort(), z3.ArraySort(ks, vs)))

    def coll_from_id(self, cid, ty):
        fns = self.coll_fns(ty)
        nm = 'coll'
        if ty[0] == 'list':
            self.ex.assume(fns[0](cid) >= 0) if self.ex.qdepth == 0 else None
            v = SList(fns[0](cid), fns[1](cid), ty[1], nm)
        elif ty[0] == 'set':
            v = SSet(fns[0](cid), ty[1], None, nm)
        else:
            v = SMap(fns[0](cid), fns[1](cid), ty[1], ty[2], None, nm)
        v.cid = cid
        return v

    def coll_to_id(self, v, ty):
        cid = getattr(v, 'cid', None)
        fns = self.coll_fns(ty)
        if cid is not None:
            # still the same contents?  (views are not written through)
            same = (v.len.eq(fns[0](cid)) and v.arr.eq(fns[1](cid))) \
                if ty[0] == 'list' else \
                (v.arr.eq(fns[0](cid)) if ty[0] == 'set' else
                 (v.dom.eq(fns[0](cid)) and v.val.eq(fns[1](cid))))
            if same:
                return cid
        cid = z3.Int(self.ex.fresh_name('cid'))
        if ty[0] == 'list':
            if isinstance(v, VList):
                v = self.vlist_to_slist(v, ty[1])
            self.ex.assume(z3.And(fns[0](cid) == v.len, fns[1](cid) == v.arr))
        elif ty[0] == 'set':
            v = self.as_sset(v, ty[1])
            self.ex.assume(fns[0](cid) == v.arr)
        else:
            if isinstance(v, VDict):
                v = self.vdict_to_smap(v, ty[1], ty[2])
            self.ex.assume(z3.And(fns[0](cid) == v.dom, fns[1](cid) == v.val))
        return cid

    def vlist_to_slist(self, v, ety):
        name = self.ex.fresh_name('lst')
        arr = z3.Const(name + '.arr', z3.ArraySort(z3.IntSort(), sort_of(ety)))
        for i, x in enumerate(v.items):
            arr = z3.Store(arr, i, self.term_of_value(x, ety))
        return SList(z3.IntVal(len(v.items)), arr, ety, name)

    def vdict_to_smap(self, v, kty, vty):
        name = self.ex.fresh_name('dct')
        dom = z3.K(sort_of(kty), z3.BoolVal(False))
        val = z3.Const(name + '.val', z3.ArraySort(sort_of(kty), sort_of(vty)))
        for k, x in v.items.items():
            kt = to_term(k, kty)
            dom = z3.Store(dom, kt, z3.BoolVal(True))
            val = z3.Store(val, kt, self.term_of_value(x, vty))
        return SMap(dom, val, kty, vty, None, name)

    def term_of_value(self, x, ty):
        if isinstance(ty, tuple) and ty[0] in ('list', 'set', 'map'):
            return self.coll_to_id(x, ty)
        return to_term(x, ty)

    def value_of_term(self, t, ty):
        if isinstance(ty, tuple) and ty[0] in ('list', 'set', 'map'):
            return self.coll_from_id(t, ty)
        return from_term(t, ty)

    def read_field(self, obj, field):
        if z3.is_int_value(obj.ref):
            k = (obj.ref.as_long(), field)
            if k in self.meta:
                return self.meta[k]
        spec = self.field_spec(obj.cls, field)
        if spec is None:
            if z3.is_int_value(obj.ref):
                self.raise_(AttributeError, field)
            self.undecided('field %s.%s has no declared type' % (
                getattr(obj.cls, '__name__', obj.cls), field))
        key = self._arr(obj.cls, field, spec)
        v = self.value_of_term(z3.Select(self.heap[key], obj.ref), spec.ty)
        if isinstance(v, (SList, SSet, SMap)):
            v.owner = (obj, field)
        if spec.nullable:
            nn = z3.simplify(z3.Select(self.heap_none[key], obj.ref))
            if z3.is_true(nn):
                return None
            if not z3.is_false(nn):
                if isinstance(v, (Sym, Obj)):
                    v.none = nn
                elif isinstance(v, (SList, SSet, SMap)):
                    if self.ex.branch(nn):
                        return None
                elif isinstance(v, tuple):
                    self.undecided('nullable tuple field')
                else:
                    v = Sym(to_term(v), spec.ty, nn)
        return v

    def touched(self, v):
        """a collection read from a heap field was mutated in place: the
        field now holds the new contents (write-through)"""
        owner = getattr(v, 'owner', None)
        if owner is not None and isinstance(v, (SList, SSet, SMap)):
            self.write_field(owner[0], owner[1], v)

    def write_field(self, obj, field, value):
        if not (z3.is_int_value(obj.ref) and
                obj.ref.as_long() > getattr(self, '_loop_alloc_mark', 1 << 62)):
            self.written_fields.add((getattr(obj.cls, '__name__', obj.cls),
                                     field))
        spec = self.field_spec(obj.cls, field)
        storable = spec is not None and self._storable(value, spec)
        if not storable:
            if z3.is_int_value(obj.ref):
                self.meta[(obj.ref.as_long(), field)] = value
                return
            self.undecided('cannot store %r into %s.%s of a symbolic object'
                           % (value, getattr(obj.cls, '__name__', obj.cls),
                              field))
        if z3.is_int_value(obj.ref):
            self.meta.pop((obj.ref.as_long(), field), None)
        key = self._arr(obj.cls, field, spec)
        nf = none_flag(value)
        if spec.nullable and key in getattr(self, 'keepnull', ()):
            # loop frame promised that None-ness of this field is preserved
            self.ex.oblige('frame.keepnull.%s.%s' % key,
                           z3.Select(self.heap_none[key], obj.ref) ==
                           ops.z3bool(nf), 'A')
        if spec.nullable:
            self.heap_none[key] = z3.Store(self.heap_none[key], obj.ref,
                                           ops.z3bool(nf))
        if value is not None:
            self.heap[key] = z3.Store(self.heap[key], obj.ref,
                                      self.term_of_value(value, spec.ty))

    def _storable(self, value, spec):
        if value is None:
            return spec.nullable
        nf = none_flag(value)
        if not (isinstance(nf, bool) and not nf) and not spec.nullable:
            return False
        if isinstance(spec.ty, tuple) and spec.ty[0] in ('list', 'set', 'map'):
            if spec.ty[0] == 'list':
                return isinstance(value, SList) and value.ety == spec.ty[1] or \
                    (isinstance(value, VList) and (not value.items or all(
                        self._elem_ok(x, spec.ty[1]) for x in value.items)))
            if spec.ty[0] == 'set':
                return isinstance(value, (SSet, VSet))
            return isinstance(value, SMap) or (isinstance(value, VDict) and
                                               not value.default)
        try:
            vt = ty_of(value)
        except Undecided:
            return False
        if vt == spec.ty:
            return True
        if spec.ty == 'real' and vt == 'int':
            return True
        if isinstance(spec.ty, tuple) and spec.ty[0] == 'obj' and \
                isinstance(vt, tuple) and vt[0] == 'obj':
            return True
        return False

    def _elem_ok(self, x, ety):
        try:
            if isinstance(ety, tuple) and ety[0] in ('list', 'set', 'map'):
                return isinstance(x, (SList, SSet, SMap, VList, VSet, VDict))
            t = ty_of(x)
            return t == ety or (isinstance(t, tuple) and isinstance(ety, tuple)
                                and t[0] == ety[0] == 'obj')
        except Undecided:
            return False

    _comp_alloc = None

    def alloc(self, cls):
        ca = self._comp_alloc
        if ca is not None:
            # inside the element expression of a comprehension over a
            # symbolic collection: element q gets reference base + 1 + q
            if ca[2]:
                self.undecided('more than one allocation per comprehension '
                               'element')
            ca[2] = 1
            return Obj(cls, z3.IntVal(ca[0] + 1) + ca[1])
        self.next_ref += 1
        return Obj(cls, z3.IntVal(self.next_ref))

    # ------------------------------------------------------------ truthiness
    def truth_term(self, v):
        """z3 Bool / Python bool for bool(v) without branching."""
        if v is None:
            return False
        if isinstance(v, bool):
            return v
        if isinstance(v, (int, float, str, bytes, tuple)):
            return bool(v)
        if isinstance(v, Sym):
            nn = z_not(none_flag(v))
            if v.ty == 'bool':
                core = v.t
            elif v.ty == 'int':
                core = v.t != 0
            elif v.ty == 'real':
                core = v.t != 0
            elif v.ty == 'str':
                core = z3.Function('str_nonempty', StrSort, z3.BoolSort())(v.t)
            else:
                core = True
            return z_and(nn, core)
        if isinstance(v, VList):
            return len(v.items) > 0
        if isinstance(v, VDict):
            pres = getattr(v, 'present', None)
            if pres:
                if any(k not in pres for k in v.items):
                    return True
                return z_or(*pres.values())
            return len(v.items) > 0
        if isinstance(v, VSet):
            return len(v.items) > 0
        if isinstance(v, SList):
            return v.len > 0
        if isinstance(v, SSet):
            if v.elems is not None:
                return len(v.elems) > 0
            return self._nonempty(v.arr, v.ety, v.name)
        if isinstance(v, SMap):
            return self._nonempty(v.dom, v.kty, v.name)
        if isinstance(v, Obj):
            nn = z_not(none_flag(v))
            for special in ('__bool__', '__len__'):
                m = self.class_attr(v.cls, special)
                if m is not None:
                    r = self.call(m, [v], {})
                    if special == '__len__':
                        r = self.binop(ast.NotEq(), r, 0) if not isinstance(r, int) else (r != 0)
                    return z_and(nn, self.truth_term(r))
            return nn
        if isinstance(v, Native):
            return v.truth(self)
        if isinstance(v, (Closure, BoundMethod, ExcVal)) or \
                isinstance(v, (types.FunctionType, types.ModuleType, type)):
            return True
        if isinstance(v, Opaque):
            return z3.Bool(self.ex.fresh_name('truthy'))
        return bool(v)

    def _nonempty(self, arr, ety, name):
        """Bool b with b => arr[w] for a witness w, and !b => forall x !arr[x]."""
        b = z3.Bool(self.ex.fresh_name('nonempty.' + name))
        w = z3.Const(self.ex.fresh_name('wit.' + name), sort_of(ety))
        x = z3.Const('x!' + str(b), sort_of(ety))
        self.ex.assume(z3.Implies(b, z3.Select(arr, w)))
        self.ex.hyp(z3.Implies(z3.Not(b), ops.forall(
            [x], z3.Not(z3.Select(arr, x)), patterns=[z3.Select(arr, x)])))
        return b

    def truth(self, v):
        return self.ex.branch(self.truth_term(v))

    # ------------------------------------------------------- name resolution
    def lookup(self, frame, name, node=None):
        f = frame
        while f is not None:
            if name in f.locals:
                return f.locals[name]
            f = f.parent
        g = frame.globals
        if name in g:
            return self.lift(g[name])
        if name in self.registry.get('builtins', {}):
            return self.registry['builtins'][name]
        if hasattr(_builtins, name):
            return getattr(_builtins, name)
        self.raise_(NameError, name)

    def lift(self, v):
        """Real Python object -> engine value."""
        if isinstance(v, list):
            return VList([self.lift(x) for x in v])
        if isinstance(v, dict) and type(v).__name__ in ('dict', 'defaultdict',
                                                       'OrderedDict'):
            return VDict({k: self.lift(x) for k, x in v.items()})
        if isinstance(v, (set, frozenset)):
            if all(is_concrete(x) for x in v):
                return VSet(v)
        if isinstance(v, tuple) and type(v) is tuple:
            return tuple(self.lift(x) for x in v)
        return v

    # ------------------------------------------------------------ expressions
    def eval(self, node, frame):
        m = getattr(self, 'eval_' + type(node).__name__, None)
        if m is None:
            self.undecided('expression %s not supported' %
                           type(node).__name__, node)
        return m(node, frame)

    def eval_Constant(self, node, frame):
        return node.value

    def eval_Name(self, node, frame):
        return self.lookup(frame, node.id, node)

    def eval_Tuple(self, node, frame):
        out = []
        for e in node.elts:
            if isinstance(e, ast.Starred):
                out.extend(self.iter_concrete(self.eval(e.value, frame), e))
            else:
                out.append(self.eval(e, frame))
        return tuple(out)

    def eval_List(self, node, frame):
        return VList(list(self.eval_Tuple(node, frame)))

    def eval_Set(self, node, frame):
        return self.make_set(list(self.eval_Tuple(node, frame)))

    def eval_Dict(self, node, frame):
        d = VDict()
        for k, v in zip(node.keys, node.values):
            if k is None:
                other = self.eval(v, frame)
                if not isinstance(other, VDict):
                    self.undecided('** of non-concrete dict', node)
                d.items.update(other.items)
                continue
            kv = self.eval(k, frame)
            vv = self.eval(v, frame)
            if not is_concrete(kv):
                if len(node.keys) != 1:
                    self.undecided('dict literal mixing symbolic keys', node)
                try:
                    kty, vty = ty_of(kv), ty_of(vv)
                    m = SMap(z3.Store(z3.K(sort_of(kty), z3.BoolVal(False)),
                                      to_term(kv, kty), z3.BoolVal(True)),
                             z3.Store(z3.K(sort_of(kty), to_term(vv, vty)),
                                      to_term(kv, kty), to_term(vv, vty)),
                             kty, vty, None, self.ex.fresh_name('dictlit'))
                except Undecided:
                    # one entry, structured value: no key can collide
                    d.items[kv] = vv
                    return d
                return m
            d.items[kv] = vv
        return d

    def eval_JoinedStr(self, node, frame):
        for v in node.values:
            if isinstance(v, ast.FormattedValue):
                self.eval(v.value, frame)
        return self.fresh('fstr', 'str')

    def eval_Lambda(self, node, frame):
        defaults = [self.eval(d, frame) for d in node.args.defaults]
        kwd = {a.arg: self.eval(d, frame) for a, d in
               zip(node.args.kwonlyargs, node.args.kw_defaults) if d is not None}
        return Closure(node, frame, frame.globals, '<lambda>', defaults, kwd,
                       frame.qualname + '.<locals>.<lambda>', frame.module)

    def eval_IfExp(self, node, frame):
        if self.ex.qdepth > 0:
            t = self.truth_term(self.eval(node.test, frame))
            if isinstance(t, bool):
                return self.eval(node.body if t else node.orelse, frame)
            a = self.eval(node.body, frame)
            b = self.eval(node.orelse, frame)
            return self.merge(t, a, b, node)
        if self.truth(self.eval(node.test, frame)):
            return self.eval(node.body, frame)
        return self.eval(node.orelse, frame)

    def eval_BoolOp(self, node, frame):
        is_and = isinstance(node.op, ast.And)
        v = None
        if self.ex.qdepth > 0:
            vals = [self.eval(e, frame) for e in node.values]
            cur = vals[-1]
            for x in reversed(vals[:-1]):
                t = self.truth_term(x)
                if isinstance(t, bool):
                    cur = (cur if t else x) if is_and else (x if t else cur)
                else:
                    cur = self.merge(t, cur, x, node) if is_and else \
                        self.merge(t, x, cur, node)
            return cur
        for i, e in enumerate(node.values):
            v = self.eval(e, frame)
            if i == len(node.values) - 1:
                return v
            t = self.truth(v)
            if is_and and not t:
                return v
            if not is_and and t:
                # a truthy value is not None
                if isinstance(v, Sym) and v.none is not None:
                    return Sym(v.t, v.ty)
                if isinstance(v, Obj) and v.none is not None:
                    return Obj(v.cls, v.ref)
                return v
        return v

    def eval_UnaryOp(self, node, frame):
        v = self.eval(node.operand, frame)
        if isinstance(node.op, ast.Not):
            t = self.truth_term(v)
            if isinstance(t, bool):
                return not t
            return Sym(z3.Not(t), 'bool')
        if isinstance(node.op, ast.USub):
            if is_concrete(v):
                return -v
            return Sym(-v.t, v.ty)
        if isinstance(node.op, ast.Invert):
            if self.is_foreign(v):
                return self.real_call(_op.invert, [v], {}, node, 'sql')
            r = self.call_special(v, '__invert__', [])
            if r is not NotImplemented:
                return r
        self.undecided('unary op', node)

    def eval_BinOp(self, node, frame):
        a = self.eval(node.left, frame)
        b = self.eval(node.right, frame)
        return self.binop(node.op, a, b, node)

    def eval_Compare(self, node, frame):
        left = self.eval(node.left, frame)
        result = None
        for op, rn in zip(node.ops, node.comparators):
            right = self.eval(rn, frame)
            r = self.compare(op, left, right, node)
            if len(node.ops) == 1:
                return r
            # chained: short-circuit semantics
            if not self.truth(r):
                return False
            result = r
            left = right
        return True

    def eval_Attribute(self, node, frame):
        v = self.eval(node.value, frame)
        return self.getattr(v, node.attr, node)

    def eval_Subscript(self, node, frame):
        v = self.eval(node.value, frame)
        if isinstance(node.slice, ast.Slice):
            lo = self.eval(node.slice.lower, frame) if node.slice.lower else None
            hi = self.eval(node.slice.upper, frame) if node.slice.upper else None
            if node.slice.step is not None:
                self.undecided('slice step', node)
            return self.getslice(v, lo, hi, node)
        k = self.eval(node.slice, frame)
        return self.getitem(v, k, node)

    def eval_Call(self, node, frame):
        # super() needs the frame
        if isinstance(node.func, ast.Name) and node.func.id == 'super':
            return self.make_super(frame, node)
        fv = self.eval(node.func, frame)
        args = []
        for a in node.args:
            if isinstance(a, ast.Starred):
                args.extend(self.iter_concrete(self.eval(a.value, frame), a))
            else:
                args.append(self.eval(a, frame))
        kwargs = {}
        for kw in node.keywords:
            if kw.arg is None:
                d = self.eval(kw.value, frame)
                if isinstance(d, VDict):
                    for k, v in self.resolve_presence(d).items():
                        kwargs[k] = v
                elif isinstance(d, Native) and hasattr(d, 'kwargs_items'):
                    kwargs.update(d.kwargs_items())
                else:
                    self.undecided('** of non-concrete mapping', node)
            else:
                kwargs[kw.arg] = self.eval(kw.value, frame)
        return self.call(fv, args, kwargs, node, frame)

    def eval_ListComp(self, node, frame):
        return self.comprehension(node, frame, 'list')

    def eval_SetComp(self, node, frame):
        return self.comprehension(node, frame, 'set')

    def eval_GeneratorExp(self, node, frame):
        return self.comprehension(node, frame, 'gen')

    def eval_DictComp(self, node, frame):
        return self.comprehension(node, frame, 'dict')

    def eval_Starred(self, node, frame):
        self.undecided('starred expression', node)

    def merge(self, t, a, b, node=None):
        """ite(t, a, b) on scalar values of one type."""
        if a is b:
            return a
        try:
            ta, tb = ty_of(a) if a is not None else None, \
                ty_of(b) if b is not None else None
        except Undecided:
            self.undecided('cannot merge %r / %r' % (a, b), node)
        ty = ta or tb
        if ta is not None and tb is not None and ta != tb:
            if {ta, tb} <= {'int', 'real'}:
                ty = 'real'
            elif {ta, tb} <= {'int', 'bool'}:
                ty = 'int'
            else:
                self.undecided('merge of %s and %s' % (ta, tb), node)
        dummy = to_term(a if a is not None else b, ty)
        va = to_term(a, ty) if a is not None else dummy
        vb = to_term(b, ty) if b is not None else dummy
        r = from_term(z3.If(t, va, vb), ty)
        na, nb = none_flag(a), none_flag(b)
        if not (isinstance(na, bool) and not na and isinstance(nb, bool) and not nb):
            nf = z3.If(t, ops.z3bool(na), ops.z3bool(nb))
            if not isinstance(r, (Sym, Obj)):
                r = Sym(to_term(r, ty), ty)
            r.none = nf
        return r

    # ----------------------------------------------------------- operators
    def is_foreign(self, v):
        f = self.registry.get('is_foreign')
        return f is not None and f(v)

    def binop(self, op, a, b, node=None):
        if self.is_foreign(a) or self.is_foreign(b):
            return self.real_call(_PYOPS[type(op)], [a, b], {}, node, 'sql')
        if is_concrete(a) and is_concrete(b):
            try:
                return _PYOPS[type(op)](a, b)
            except ZeroDivisionError:
                self.raise_(ZeroDivisionError)
            except TypeError:
                self.raise_(TypeError)
        if isinstance(op, ast.Mod) and isinstance(a, (str, Sym)) and \
                (isinstance(a, str) or a.ty == 'str'):
            r = self.fresh('fmt', 'str')         # string formatting: opaque
            self.ghost.setdefault('fmt_provenance', {})[r.t.sexpr()] = \
                list(b) if isinstance(b, tuple) else [b]
            return r
        if isinstance(op, ast.Add) and (
                (isinstance(a, str) or (isinstance(a, Sym) and a.ty == 'str'))):
            return self.fresh('concat', 'str')
        if ops.numeric(a) and ops.numeric(b):
            for x in (a, b):
                nf = none_flag(x)
                if not (isinstance(nf, bool) and not nf):
                    if self.ex.branch(nf):
                        self.raise_(TypeError, 'NoneType in arithmetic')
            ty = ops.num_ty(a, b)
            ta, tb = to_term(a, ty), to_term(b, ty)
            if isinstance(op, ast.Add):
                return from_term(ta + tb, ty)
            if isinstance(op, ast.Sub):
                return from_term(ta - tb, ty)
            if isinstance(op, ast.Mult):
                return from_term(ta * tb, ty)
            if isinstance(op, ast.Mod):
                if ty != 'int':
                    self.undecided('real modulo', node)
                if self.ex.branch(tb == 0):
                    self.raise_(ZeroDivisionError)
                if not (z3.is_int_value(tb) and tb.as_long() > 0):
                    # python's % differs from SMT mod for negative divisors
                    self.ex.oblige('pyvc.mod.positive_divisor', tb > 0, 'A',
                                   {'line': getattr(node, 'lineno', None)})
                return from_term(ta % tb, ty)
            if isinstance(op, ast.Div):
                tr, ur = to_term(a, 'real'), to_term(b, 'real')
                if self.ex.branch(ur == 0):
                    self.raise_(ZeroDivisionError)
                return from_term(tr / ur, 'real')
            if isinstance(op, ast.FloorDiv) and ty == 'int':
                if self.ex.branch(tb == 0):
                    self.raise_(ZeroDivisionError)
                self.ex.oblige('pyvc.floordiv.positive_divisor', tb > 0, 'A')
                return from_term(ta / tb, ty)
        if a is None or b is None:
            self.raise_(TypeError, 'NoneType operand')
        # set algebra
        if isinstance(a, (VSet, SSet)) and isinstance(b, (VSet, SSet, VList)):
            return self.set_binop(op, a, b, node)
        if isinstance(a, VList) and isinstance(b, VList) and isinstance(op, ast.Add):
            return VList(a.items + b.items)
        if isinstance(a, tuple) and isinstance(b, tuple) and isinstance(op, ast.Add):
            return a + b
        r = self.call_special(a, _DUNDER.get(type(op), ''), [b])
        if r is not NotImplemented:
            return r
        self.undecided('binary op %s on %r, %r' % (type(op).__name__, a, b),
                       node)

    def compare(self, op, a, b, node=None):
        if isinstance(op, (ast.Is, ast.IsNot)):
            r = self.is_(a, b)
            return self._neg(r) if isinstance(op, ast.IsNot) else self._b(r)
        if isinstance(op, (ast.Eq, ast.NotEq)) and (
                self.is_foreign(a) or self.is_foreign(b)):
            return self.real_call(
                _op.eq if isinstance(op, ast.Eq) else _op.ne, [a, b], {},
                node, 'sql')
        if isinstance(op, (ast.Eq, ast.NotEq)):
            r = self.eq(a, b)
            return self._neg(r) if isinstance(op, ast.NotEq) else self._b(r)
        if isinstance(op, (ast.In, ast.NotIn)):
            r = self.contains(b, a, node)
            return self._neg(r) if isinstance(op, ast.NotIn) else self._b(r)
        # ordering
        if isinstance(a, Native) and hasattr(a, 'special'):
            r = a.special(self, _CMPDUNDER[type(op)], [b])
            if r is not NotImplemented:
                return r
        if isinstance(b, Native) and hasattr(b, 'special'):
            r = b.special(self, _CMPDUNDER[_SWAP[type(op)]], [a])
            if r is not NotImplemented:
                return r
        if self.is_foreign(a) or self.is_foreign(b):
            return self.real_call(_PYCMP[type(op)], [a, b], {}, node, 'sql')
        if is_concrete(a) and is_concrete(b):
            try:
                return _PYCMP[type(op)](a, b)
            except TypeError:
                self.raise_(TypeError)
        if ops.numeric(a) and ops.numeric(b):
            for x in (a, b):
                nf = none_flag(x)
                if not (isinstance(nf, bool) and not nf):
                    if self.ex.branch(nf):
                        self.raise_(TypeError, 'NoneType in comparison')
            ty = ops.num_ty(a, b)
            ta, tb = to_term(a, ty), to_term(b, ty)
            return self._b(_Z3CMP[type(op)](ta, tb))
        if a is None or b is None:
            self.raise_(TypeError, 'NoneType in comparison')
        if isinstance(a, tuple) and isinstance(b, tuple):
            return self._b(self.tuple_cmp(op, a, b, node))
        r = self.call_special(a, _CMPDUNDER[type(op)], [b])
        if r is not NotImplemented:
            return r
        r = self.call_special(b, _CMPDUNDER[_SWAP[type(op)]], [a])
        if r is not NotImplemented:
            return r
        self.undecided('comparison %s on %r, %r' % (type(op).__name__, a, b),
                       node)

    def tuple_cmp(self, op, a, b, node):
        # lexicographic, equal lengths only
        if len(a) != len(b):
            self.undecided('tuple comparison of different lengths', node)
        strict = isinstance(op, (ast.Lt, ast.Gt))
        lt = isinstance(op, (ast.Lt, ast.LtE))
        res = (not strict)
        for x, y in reversed(list(zip(a, b))):
            ty = ops.num_ty(x, y)
            tx, ty_ = to_term(x, ty), to_term(y, ty)
            first = (tx < ty_) if lt else (tx > ty_)
            res = z_or(first, z_and(tx == ty_, res))
        return res

    def _b(self, r):
        if isinstance(r, bool):
            return r
        if isinstance(r, Sym):
            return r
        r = z3.simplify(r)
        if z3.is_true(r):
            return True
        if z3.is_false(r):
            return False
        return Sym(r, 'bool')

    def _neg(self, r):
        if isinstance(r, Sym):
            r = r.t
        return self._b(z_not(r))

    def is_(self, a, b):
        if a is None or b is None:
            other = b if a is None else a
            if other is None:
                return True
            if isinstance(other, (Sym, Obj)):
                return none_flag(other)
            return False
        if isinstance(a, Obj) and isinstance(b, Obj):
            return a.ref == b.ref
        if isinstance(a, bool) or isinstance(b, bool):
            return values_equal(self, a, b)
        return a is b

    def eq(self, a, b):
        for x, y in ((a, b), (b, a)):
            if isinstance(x, Obj) and self.class_attr(x.cls, '__eq__') is not None \
                    and isinstance(y, Obj):
                r = self.call(self.class_attr(x.cls, '__eq__'), [x, y], {})
                return self.truth_term(r)
            if isinstance(x, Native) and hasattr(x, 'eq'):
                return x.eq(self, y)
        if isinstance(a, (VList, VDict, VSet, SSet, SMap, SList)) or \
                isinstance(b, (VList, VDict, VSet, SSet, SMap, SList)):
            return self.container_eq(a, b)
        if isinstance(a, Opaque) or isinstance(b, Opaque):
            return z3.Bool(self.ex.fresh_name('opaque_eq'))
        if isinstance(a, (type, types.FunctionType, types.ModuleType)) or \
                isinstance(b, (type, types.FunctionType, types.ModuleType)):
            return a is b
        return values_equal(self, a, b)

    def container_eq(self, a, b):
        if isinstance(a, VList) and isinstance(b, VList):
            if len(a.items) != len(b.items):
                return False
            return z_and(*[self.truth_term(self._b(self.eq(x, y)))
                           for x, y in zip(a.items, b.items)])
        if isinstance(a, VSet) and isinstance(b, VSet):
            return a.items == b.items
        if isinstance(a, VDict) and isinstance(b, VDict):
            if set(a.items) != set(b.items):
                return False
            return z_and(*[self.truth_term(self._b(self.eq(a.items[k], b.items[k])))
                           for k in a.items])
        if isinstance(a, (SSet, VSet)) and isinstance(b, (SSet, VSet)):
            sa, sb = self.as_sset(a), self.as_sset(b)
            return sa.arr == sb.arr
        if isinstance(a, SMap) and isinstance(b, SMap):
            # extensional equality on the domain only is not expressible as
            # one array equality; use both arrays (sufficient, not necessary)
            self.undecided('equality of symbolic dicts')
        if type(a) is not type(b):
            return False
        self.undecided('container equality %r == %r' % (a, b))

    # ------------------------------------------------------------ containers
    def make_set(self, items):
        if all(is_concrete(x) for x in items):
            return VSet(items)
        if not items:
            return VSet()
        ety = ty_of(items[0])
        arr = z3.K(sort_of(ety), z3.BoolVal(False))
        elems = []
        for x in items:
            t = to_term(x, ety)
            arr = z3.Store(arr, t, z3.BoolVal(True))
            elems.append(t)
        return SSet(arr, ety, elems, self.ex.fresh_name('set'))

    def as_sset(self, s, ety=None):
        if isinstance(s, SSet):
            return s
        if isinstance(s, VList):
            s = self.make_set(s.items)
            if isinstance(s, SSet):
                return s
        if isinstance(s, VSet):
            items = sorted(s.items, key=repr)
            if not items and ety is None:
                self.undecided('element type of empty concrete set unknown')
            ety = ety or ty_of(items[0])
            arr = z3.K(sort_of(ety), z3.BoolVal(False))
            elems = []
            for x in items:
                arr = z3.Store(arr, to_term(x, ety), z3.BoolVal(True))
                elems.append(to_term(x, ety))
            return SSet(arr, ety, elems, self.ex.fresh_name('cset'))
        self.undecided('not a set: %r' % (s,))

    def set_binop(self, op, a, b, node=None):
        if isinstance(a, VSet) and isinstance(b, VSet):
            return VSet(_PYOPS[type(op)](a.items, b.items))
        ety = a.ety if isinstance(a, SSet) else (b.ety if isinstance(b, SSet) else None)
        sa, sb = self.as_sset(a, ety), self.as_sset(b, ety)
        x = z3.Const('x!setop', sort_of(sa.ety))
        if isinstance(op, ast.Sub):
            body = z3.And(sa.arr[x], z3.Not(sb.arr[x]))
        elif isinstance(op, ast.BitAnd):
            body = z3.And(sa.arr[x], sb.arr[x])
        elif isinstance(op, ast.BitOr):
            body = z3.Or(sa.arr[x], sb.arr[x])
        else:
            self.undecided('set operator', node)
        return SSet(z3.Lambda([x], body), sa.ety, None,
                    self.ex.fresh_name('setop'))

    def getitem(self, v, k, node=None):
        if isinstance(v, VDict):
            for sk, sv in reversed(getattr(v, 'sym_items', None) or []):
                if self.ex.branch(ops.z3bool(self.truth_term(self._b(self.eq(k, sk))))):
                    return sv
            if is_concrete(k):
                if k in v.items:
                    pres = getattr(v, 'present', None)
                    if pres and k in pres:
                        if not self.ex.branch(pres[k]):
                            self.raise_(KeyError, k)
                    return v.items[k]
                if v.default is not None:
                    d = self.call(v.default, [], {})
                    v.items[k] = d
                    return d
                self.raise_(KeyError, k)
            # symbolic key against concrete keys
            for ck, cv in v.items.items():
                if self.ex.branch(ops.z3bool(self.truth_term(self._b(self.eq(k, ck))))):
                    return cv
            if v.default is not None:
                # defaultdict with a symbolic key: the entry is created but
                # cannot be kept in a concrete-key dict; its identity is lost
                # (sound for exception flow, imprecise for contents)
                self.ghost['imprecise_defaultdict'] = True
                return self.call(v.default, [], {})
            self.raise_(KeyError, k)
        if isinstance(v, VList):
            if isinstance(k, int):
                try:
                    return v.items[k]
                except IndexError:
                    self.raise_(IndexError)
            for i, x in enumerate(v.items):
                if self.ex.branch(to_term(k) == i):
                    return x
            self.raise_(IndexError)
        if isinstance(v, tuple):
            if isinstance(k, int):
                try:
                    return v[k]
                except IndexError:
                    self.raise_(IndexError)
            self.undecided('symbolic tuple index', node)
        if isinstance(v, SList):
            kt = to_term(k, 'int')
            idx = z3.If(kt < 0, v.len + kt, kt) if not isinstance(k, int) or k < 0 else kt
            if self.ex.branch(z3.Or(idx < 0, idx >= v.len)):
                self.raise_(IndexError)
            return self.value_of_term(z3.Select(v.arr, idx), v.ety)
        if isinstance(v, SMap):
            kt = to_term(k, v.kty)
            if v.default is not None:
                return self.smap_default_get(v, kt)
            if not self.ex.branch(z3.Select(v.dom, kt)):
                self.raise_(KeyError, k)
            return self.value_of_term(z3.Select(v.val, kt), v.vty)
        if isinstance(v, _NestedView):
            return v.get(self, k)
        if isinstance(v, Native):
            return v.getitem(self, k)
        if isinstance(v, Obj):
            r = self.call_special(v, '__getitem__', [k])
            if r is not NotImplemented:
                return r
        if isinstance(v, str) and isinstance(k, int):
            return v[k]
        if isinstance(v, Opaque):
            return Opaque('%s[...]' % v.what)
        self.undecided('subscript of %r' % (v,), node)

    def smap_default_get(self, m, kt):
        d = m.default
        if d[0] == 'const':
            present = z3.Select(m.dom, kt)
            cur = z3.If(present, z3.Select(m.val, kt), to_term(d[1], m.vty))
            m.val = z3.Store(m.val, kt, cur)
            m.dom = z3.Store(m.dom, kt, z3.BoolVal(True))
            return from_term(cur, m.vty)
        if d[0] == 'nested':
            return _NestedView(m, kt)
        self.undecided('defaultdict default %r' % (d,))

    def setitem(self, v, k, val, node=None):
        if isinstance(v, VDict):
            if not is_concrete(k):
                # kept as an association list; only later lookups see it
                if not hasattr(v, 'sym_items') or v.sym_items is None:
                    v.sym_items = []
                v.sym_items.append((k, val))
                return
            v.items[k] = val
            if getattr(v, 'present', None):
                v.present.pop(k, None)
            return
        if isinstance(v, VList):
            if isinstance(k, int):
                v.items[k] = val
                return
            self.undecided('store at symbolic list index', node)
        if isinstance(v, SMap):
            kt = to_term(k, v.kty)
            if isinstance(val, (_ReplayColl, _LazyComp)) and \
                    isinstance(v.vty, tuple) and v.vty[0] in ('list', 'map'):
                # a collection the loop builds element by element: the map
                # keeps an unconstrained collection id (over-approximation:
                # the key is recorded, the contents are arbitrary)
                vt = z3.Int(self.ex.fresh_name('opaque_cid'))
            else:
                vt = self.term_of_value(val, v.vty)
            v.val = z3.Store(v.val, kt, vt)
            v.dom = z3.Store(v.dom, kt, z3.BoolVal(True))
            self.touched(v)
            return
        if isinstance(v, _NestedView):
            v.set(self, k, val)
            return
        if isinstance(v, _ReplayColl):
            v.store(self, k, val)
            return
        if self.ex.trial and isinstance(v, Native):
            raise Undecided('side effect on a model object inside a trial')
        if isinstance(v, Native):
            return v.setitem(self, k, val)
        if isinstance(v, Opaque):
            return
        self.undecided('item store into %r' % (v,), node)

    def contains(self, c, x, node=None):
        if isinstance(c, VDict):
            if is_concrete(x):
                pres = getattr(c, 'present', None)
                if pres and x in pres:
                    return pres[x]
                return x in c.items
            return z_or(*[ops.z3bool(self.truth_term(self._b(self.eq(x, k))))
                          for k in c.items])
        if isinstance(c, (VList, tuple)):
            items = c.items if isinstance(c, VList) else c
            if is_concrete(x) and all(is_concrete(i) for i in items):
                return x in items
            return z_or(*[ops.z3bool(self.truth_term(self._b(self.eq(x, k))))
                          for k in items])
        if isinstance(c, VSet):
            if is_concrete(x):
                return x in c.items
            return z_or(*[ops.z3bool(values_equal(self, x, k)) for k in c.items])
        if isinstance(c, SSet):
            return z3.Select(c.arr, to_term(x, c.ety))
        if isinstance(c, SMap):
            return z3.Select(c.dom, to_term(x, c.kty))
        if isinstance(c, SList):
            j = z3.Int(self.ex.fresh_name('j.in'))
            b = z3.Bool(self.ex.fresh_name('in.' + c.name))
            xt = to_term(x, c.ety)
            self.ex.assume(z3.Implies(b, z3.And(j >= 0, j < c.len,
                                                 z3.Select(c.arr, j) == xt)))
            q = z3.Int('q!in')
            self.ex.hyp(z3.Implies(z3.Not(b), ops.forall(
                [q], z3.Implies(z3.And(q >= 0, q < c.len),
                                z3.Select(c.arr, q) != xt),
                patterns=[z3.Select(c.arr, q)])))
            return b
        if isinstance(c, Native):
            return c.contains(self, x)
        if isinstance(c, str) and isinstance(x, str):
            return x in c
        if isinstance(c, (str, Sym)) and isinstance(x, (str, Sym)):
            return z3.Bool(self.ex.fresh_name('substr'))
        if isinstance(c, Opaque):
            return z3.Bool(self.ex.fresh_name('in_opaque'))
        if isinstance(c, Obj):
            r = self.call_special(c, '__contains__', [x])
            if r is not NotImplemented:
                return self.truth_term(r)
        self.undecided('membership in %r' % (c,), node)

    def getslice(self, v, lo, hi, node=None):
        if isinstance(v, (VList, tuple, str)) and (lo is None or isinstance(lo, int)) \
                and (hi is None or isinstance(hi, int)):
            items = v.items if isinstance(v, VList) else v
            r = items[lo:hi]
            return VList(r) if isinstance(v, VList) else r
        if isinstance(v, SList) and lo is not None:
            def clamp(x):
                t = to_term(x, 'int')
                return z3.If(t < 0, z3.If(v.len + t < 0, 0, v.len + t),
                             z3.If(t > v.len, v.len, t))
            start = clamp(lo)
            stop = clamp(hi) if hi is not None else v.len
            name = self.ex.fresh_name('slice')
            n = z3.Int(name + '.len')
            self.ex.assume(n == z3.If(stop > start, stop - start, 0))
            q = z3.Int('q!' + name)
            arr = z3.Lambda([q], z3.Select(v.arr, q + start))
            return SList(n, arr, v.ety, name)
        if isinstance(v, SList) and lo is None and hi is not None:
            h = to_term(hi, 'int')
            # python: negative hi counts from the end; clamp to [0, len]
            h = z3.If(h < 0, z3.If(v.len + h < 0, 0, v.len + h),
                      z3.If(h > v.len, v.len, h))
            name = self.ex.fresh_name('slice')
            n = z3.Int(name + '.len')
            self.ex.assume(n == h)
            return SList(n, v.arr, v.ety, name)
        if isinstance(v, (str, Sym)):
            return self.fresh('substr', 'str')
        self.undecided('slice of %r' % (v,), node)

    def copy_dict(self, d):
        c = type(d)(d.items) if type(d) is not VDict else VDict(d.items, d.default)
        if getattr(d, 'present', None) is not None:
            c.present = dict(d.present)
            c.extra_allowed = getattr(d, 'extra_allowed', False)
        return c

    def resolve_presence(self, d):
        """Fork on the optional keys of a JSON object; returns the dict of
        the keys present on this path."""
        pres = getattr(d, 'present', None)
        if not pres:
            return d.items
        out = {}
        for k, v in d.items.items():
            if k in pres:
                if not self.ex.branch(pres[k]):
                    continue
            out[k] = v
        return out

    def iter_concrete(self, v, node=None):
        """Python list of the elements of a value with a concrete number of
        elements."""
        if isinstance(v, VList):
            return list(v.items)
        if isinstance(v, tuple):
            return list(v)
        if isinstance(v, VSet):
            return sorted(v.items, key=repr)
        if isinstance(v, VDict):
            if getattr(v, 'sym_items', None):
                self.undecided('iteration over a dict with symbolic keys', node)
            return list(self.resolve_presence(v).keys())
        if isinstance(v, str):
            return list(v)
        if isinstance(v, SSet) and v.elems is not None and len(v.elems) <= 1:
            return [from_term(t, v.ety) for t in v.elems]
        if isinstance(v, _View):
            return v.concrete(self)
        self.undecided('iteration over %r needs a concrete length' % (v,), node)

    # ------------------------------------------------------------ attributes
    def class_attr(self, cls, name):
        """Raw class attribute through the MRO (None when absent or when it
        comes from `object`)."""
        if not isinstance(cls, type):
            return None
        for c in cls.__mro__:
            if c is object:
                continue
            if name in c.__dict__:
                return c.__dict__[name]
        return None

    def getattr(self, v, name, node=None):
        reg = self.registry.get('getattr')
        if reg is not None:
            r = reg(self, v, name)
            if r is not NotImplemented:
                return r
        if isinstance(v, Obj):
            nf = none_flag(v)
            if not (isinstance(nf, bool) and not nf):
                if self.ex.branch(nf):
                    self.raise_(AttributeError, "'NoneType' object has no "
                                "attribute %r" % name)
            if name == '__class__':
                return v.cls          # A-heap: no subclass instances
            raw = self.class_attr(v.cls, name)
            if raw is not None and not _is_slot_descriptor(raw):
                return self.bind(raw, v, v.cls)
            return self.read_field(v, name)
        if v is None:
            self.raise_(AttributeError, "'NoneType' object has no attribute %r"
                        % name)
        if isinstance(v, Native):
            return v.getattr(self, name)
        if isinstance(v, ExcVal):
            if name in v.fields:
                return v.fields[name]
            if name == 'args':
                return tuple(v.args)
            raw = self.class_attr(v.cls, name)
            if raw is not None:
                if isinstance(raw, types.FunctionType):
                    return BoundMethod(v, raw)
                return self.lift(raw)
            self.raise_(AttributeError, name)
        if isinstance(v, (VList, VDict, VSet, SList, SSet, SMap, _NestedView,
                          _View, _ReplayColl)):
            return BoundMethod(v, _ContainerMethod(name))
        if isinstance(v, (str, Sym)) and (isinstance(v, str) or v.ty == 'str'):
            return BoundMethod(v, _StrMethod(name))
        if isinstance(v, tuple) and hasattr(v, '_fields'):
            return getattr(v, name)
        if isinstance(v, type):
            raw = self.class_attr(v, name)
            if raw is None:
                try:
                    return self.lift(getattr(v, name))
                except AttributeError:
                    self.raise_(AttributeError, name)
            return self.bind(raw, None, v)
        if isinstance(v, types.ModuleType):
            if v.__name__.startswith(self.registry.get('raw_modules', ('\0',))):
                try:
                    return getattr(v, name)
                except AttributeError:
                    self.raise_(AttributeError, name)
            try:
                return self.lift(getattr(v, name))
            except AttributeError:
                self.raise_(AttributeError, name)
        if isinstance(v, Opaque):
            if v.what.startswith('havocked local'):
                # a value the loop treatment could not keep: using it would
                # silently drop whatever the use does
                self.undecided('use of %s.%s' % (v.what, name), node)
            return Opaque('%s.%s' % (v.what, name))
        if isinstance(v, Closure):
            self.raise_(AttributeError, name)
        if isinstance(v, _Super):
            return v.getattr(self, name)
        # real (library) object: reflect
        try:
            return self.lift(getattr(v, name))
        except AttributeError:
            self.raise_(AttributeError, name)

    def bind(self, raw, inst, cls):
        if isinstance(raw, staticmethod):
            return raw.__func__
        if isinstance(raw, classmethod):
            return BoundMethod(cls, raw.__func__)
        if isinstance(raw, property):
            if inst is None:
                return raw
            return self.call(raw.fget, [inst], {})
        if isinstance(raw, types.FunctionType):
            if inst is None:
                return raw
            return BoundMethod(inst, raw)
        return self.lift(raw)

    def setattr(self, v, name, value, node=None):
        if name == '_context' and isinstance(v, Obj) and \
                value is self.ghost.get('ctx'):
            return          # the request context: read back through the hook
        if isinstance(v, Obj):
            nf = none_flag(v)
            if not (isinstance(nf, bool) and not nf):
                if self.ex.branch(nf):
                    self.raise_(AttributeError, name)
            return self.write_field(v, name, value)
        if self.ex.trial and isinstance(v, (Native, ExcVal)):
            raise Undecided('side effect on a model object inside a trial')
        if isinstance(v, Native):
            return v.setattr(self, name, value)
        if isinstance(v, ExcVal):
            v.fields[name] = value
            return
        if isinstance(v, Opaque):
            return
        self.undecided('attribute store on %r' % (v,), node)

    def call_special(self, v, name, args):
        if isinstance(v, Obj):
            m = self.class_attr(v.cls, name)
            if m is not None:
                return self.call(m, [v] + args, {})
        if isinstance(v, Native) and hasattr(v, 'special'):
            return v.special(self, name, args)
        if not isinstance(v, (Sym, Obj, VList, VDict, VSet, SList, SSet, SMap,
                              Native, Closure, ExcVal, Opaque)) \
                and name and hasattr(v, name):
            # real library object (e.g. sqlalchemy column): use the real op
            return self.real_call(getattr(v, name), args, {})
        return NotImplemented

    def make_super(self, frame, node):
        f = frame
        while f is not None and f.self_cls is None:
            f = f.parent
        if f is None:
            self.undecided('super() outside a method', node)
        selfname = None
        return _Super(f.self_cls, f.locals.get('self'))

    def _note_contract(self, fn):
        """a call site used the sidecar contract / stub of `fn` instead of its
        body: recorded for the evidence (assumed unless the same check also
        proves that body)"""
        fn = getattr(fn, '__func__', fn)
        mod = getattr(fn, '__module__', None) or type(fn).__module__
        name = getattr(fn, '__qualname__', None) or getattr(
            fn, '__name__', None) or type(fn).__name__
        hits = getattr(self.ex, 'contracts_hit', None)
        if hits is None:
            hits = self.ex.contracts_hit = set()
        hits.add('%s.%s' % (mod, name))

    # ----------------------------------------------------------------- calls
    def call(self, fv, args, kwargs, node=None, frame=None):
        reg = self.registry.get('calls', {})
        # 1. contracts / stubs keyed by real object identity
        key = _ident(fv)
        if key is not None and key in reg:
            if self.ex.trial:
                raise Undecided('contract call inside a trial')
            self._note_contract(fv)
            return reg[key](self, args, kwargs)
        if isinstance(fv, BoundMethod):
            key = _ident(fv.func)
            if key is not None and key in reg:
                if self.ex.trial:
                    raise Undecided('contract call inside a trial')
                self._note_contract(fv.func)
                return reg[key](self, [fv.self] + list(args), kwargs)
            f = fv.func
            if isinstance(f, (_ContainerMethod, _StrMethod)):
                return f.call(self, fv.self, args, kwargs, node)
            return self.call(f, [fv.self] + list(args), kwargs, node, frame)
        if isinstance(fv, Closure):
            return self.call_closure(fv, args, kwargs)
        if isinstance(fv, Native):
            if self.ex.trial and not getattr(fv, 'pure', False):
                raise Undecided('call of a model object inside a trial')
            return fv.call(self, args, kwargs)
        if isinstance(fv, types.FunctionType):
            hook = self.registry.get('function_hook')
            if hook is not None:
                r = hook(self, fv, args, kwargs)
                if r is not NotImplemented:
                    return r
            if source.is_repo_function(fv):
                return self.call_real_function(fv, args, kwargs)
            return self.real_call(fv, args, kwargs, node)
        if isinstance(fv, type):
            return self.instantiate(fv, args, kwargs, node)
        if isinstance(fv, types.BuiltinFunctionType) or callable(fv):
            b = _BUILTINS.get(getattr(fv, '__name__', None)) \
                if isinstance(fv, types.BuiltinFunctionType) else None
            if b is not None and getattr(_builtins, fv.__name__, None) is fv:
                return b(self, args, kwargs, node)
            return self.real_call(fv, args, kwargs, node)
        if isinstance(fv, Opaque):
            if fv.what.startswith('havocked local'):
                # method of a local container whose contents were havocked by
                # a loop: no effect outside the local, result unknown
                return Opaque(fv.what + '()')
            return self.default_contract(fv.what, args, kwargs)
        self.undecided('call of %r' % (fv,), node)

    def real_call(self, fn, args, kwargs, node=None, mode=None):
        """Call a real library function.  Only allowed when the registry
        marks it pure and all arguments are real Python objects (symbolic
        leaves become bind parameters for the SQL builder)."""
        pure = self.registry.get('pure')
        conv = self.registry.get('to_real')
        hook = self.registry.get('call_hook')
        if hook is not None:
            r = hook(self, fn, args, kwargs)
            if r is not NotImplemented:
                return r
        if mode is None and pure is not None:
            mode = pure(fn)
        if mode:
            try:
                rargs = [conv(self, a, mode) for a in args]
                rkw = {k: conv(self, a, mode) for k, a in kwargs.items()}
            except Undecided:
                rargs = None
            if rargs is not None:
                try:
                    return self.lift(fn(*rargs, **rkw))
                except Exception as e:       # real exception of the library
                    raise PyRaise(ExcVal(type(e), e.args))
        return self.default_contract(_qualname(fn), args, kwargs)

    def default_contract(self, what, args, kwargs):
        """Uncontracted call: unknown result, may raise; recorded."""
        self.uncontracted.append(what)
        handler = self.registry.get('on_uncontracted')
        if handler is not None:
            return handler(self, what, args, kwargs)
        raise Undecided('uncontracted call to %s' % what)

    def call_real_function(self, fn, args, kwargs):
        w = self.registry.get('watch')
        if w and id(fn) in w:
            self.event('enter', w[id(fn)], tuple(args))
        node, qual, path = source.get_ast(fn)
        env = None
        if fn.__closure__:
            cells = {}
            for name, cell in zip(fn.__code__.co_freevars, fn.__closure__):
                try:
                    cells[name] = self.lift(cell.cell_contents)
                except ValueError:
                    pass
            env = Frame(cells, None, fn.__globals__, qual, fn.__module__)
        defaults = list(fn.__defaults__ or ())
        kwd = dict(fn.__kwdefaults__ or {})
        clo = Closure(node, env, fn.__globals__, fn.__name__,
                      [self.lift(d) for d in defaults],
                      {k: self.lift(v) for k, v in kwd.items()},
                      qual, fn.__module__)
        return self.call_closure(clo, args, kwargs, owner=_owner_class(fn))

    def call_closure(self, clo, args, kwargs, owner=None):
        node = clo.node
        a = node.args
        params = [p.arg for p in a.posonlyargs + a.args]
        locals_ = {}
        args = list(args)
        if len(args) > len(params) and a.vararg is None:
            self.raise_(TypeError, 'too many positional arguments for %s'
                        % clo.qualname)
        for p, v in zip(params, args):
            locals_[p] = v
        if a.vararg is not None:
            locals_[a.vararg.arg] = tuple(args[len(params):])
        extra = {}
        kwonly = [p.arg for p in a.kwonlyargs]
        for k, v in kwargs.items():
            if k in params:
                if k in locals_:
                    self.raise_(TypeError, 'multiple values for %s' % k)
                locals_[k] = v
            elif k in kwonly:
                locals_[k] = v
            elif a.kwarg is not None:
                extra[k] = v
            else:
                self.raise_(TypeError, 'unexpected keyword %s for %s'
                            % (k, clo.qualname))
        if a.kwarg is not None:
            locals_[a.kwarg.arg] = VDict(extra)
        nd = len(clo.defaults)
        for i, p in enumerate(params):
            if p not in locals_:
                j = i - (len(params) - nd)
                if j >= 0:
                    locals_[p] = clo.defaults[j]
                else:
                    self.raise_(TypeError, 'missing argument %s for %s'
                                % (p, clo.qualname))
        for p in kwonly:
            if p not in locals_:
                if p in clo.kwdefaults:
                    locals_[p] = clo.kwdefaults[p]
                else:
                    self.raise_(TypeError, 'missing keyword-only %s' % p)
        frame = Frame(locals_, clo.env, clo.globals, clo.qualname, clo.module)
        frame.self_cls = owner
        frame.fnode = node
        self.callstack.append(frame)
        self.call_depth += 1
        if self.call_depth > 60:
            self.undecided('call depth exceeded at %s' % clo.qualname)
        try:
            if isinstance(node, ast.Lambda):
                return self.eval(node.body, frame)
            try:
                self.exec_block(node.body, frame)
            except _Return as r:
                return r.value
            return None
        finally:
            self.call_depth -= 1
            self.callstack.pop()

    def instantiate(self, cls, args, kwargs, node=None):
        reg = self.registry.get('classes', {})
        if cls in reg:
            return reg[cls](self, args, kwargs)
        if isinstance(cls, type) and issubclass(cls, BaseException):
            hook = self.registry.get('exc_fields')
            if hook is not None:
                return ExcVal(cls, args, hook(cls, args, kwargs))
            return ExcVal(cls, args, kwargs)
        mod = getattr(cls, '__module__', '') or ''
        if mod.startswith('placement.') and not mod.startswith('placement.tests'):
            obj = self.alloc(cls)
            init = self.class_attr(cls, '__init__')
            if init is not None:
                self.call(init, [obj] + list(args), kwargs)
            return obj
        b = _BUILTINS.get(cls.__name__)
        if b is not None and getattr(_builtins, cls.__name__, None) is cls:
            return b(self, args, kwargs, node)
        return self.real_call(cls, args, kwargs, node)

    # ------------------------------------------------------------ statements
    def exec_block(self, stmts, frame):
        for s in stmts:
            self.exec_stmt(s, frame)

    def exec_stmt(self, node, frame):
        m = getattr(self, 'exec_' + type(node).__name__, None)
        if m is None:
            self.undecided('statement %s not supported' % type(node).__name__,
                           node)
        return m(node, frame)

    def exec_Expr(self, node, frame):
        if isinstance(node.value, ast.Constant):
            return                      # docstring
        if _is_log_call(node.value):
            return                      # LOG.* dropped (DESIGN section 2)
        self.eval(node.value, frame)

    def exec_Pass(self, node, frame):
        pass

    def exec_Assign(self, node, frame):
        v = self.eval(node.value, frame)
        for t in node.targets:
            self.assign(t, v, frame)

    def exec_AnnAssign(self, node, frame):
        if node.value is not None:
            self.assign(node.target, self.eval(node.value, frame), frame)

    def exec_AugAssign(self, node, frame):
        t = node.target
        if isinstance(t, ast.Name):
            cur = self.lookup(frame, t.id, node)
            new = self.aug(node.op, cur, self.eval(node.value, frame), node)
            self.assign(t, new, frame)
        elif isinstance(t, ast.Attribute):
            o = self.eval(t.value, frame)
            cur = self.getattr(o, t.attr, node)
            new = self.aug(node.op, cur, self.eval(node.value, frame), node)
            self.setattr(o, t.attr, new, node)
        elif isinstance(t, ast.Subscript):
            o = self.eval(t.value, frame)
            k = self.eval(t.slice, frame)
            cur = self.getitem(o, k, node)
            new = self.aug(node.op, cur, self.eval(node.value, frame), node)
            self.setitem(o, k, new, node)
        else:
            self.undecided('augmented assignment target', node)

    def aug(self, op, cur, val, node):
        # in-place set operators mutate the receiver
        if isinstance(cur, (VSet, SSet)) and isinstance(
                op, (ast.BitAnd, ast.BitOr, ast.Sub)):
            r = self.set_binop(op, cur, val, node)
            if isinstance(cur, VSet) and isinstance(r, VSet):
                cur.items = r.items
                return cur
            if isinstance(cur, SSet):
                rs = self.as_sset(r, cur.ety)
                cur.arr, cur.elems = rs.arr, rs.elems
                return cur
            return r
        if isinstance(cur, VList) and isinstance(op, ast.Add):
            cur.items.extend(self.iter_concrete(val, node))
            return cur
        if isinstance(cur, SList) and isinstance(op, ast.Add) and \
                isinstance(val, (SList, VList)):
            _ContainerMethod('extend').call(self, cur, [val], {}, node)
            return cur
        return self.binop(op, cur, val, node)

    def assign(self, target, v, frame):
        if isinstance(target, ast.Name):
            # honour nonlocal-free closure semantics: always local
            frame.locals[target.id] = v
        elif isinstance(target, (ast.Tuple, ast.List)):
            items = self.unpack(v, len(target.elts), target)
            for t, x in zip(target.elts, items):
                self.assign(t, x, frame)
        elif isinstance(target, ast.Attribute):
            self.setattr(self.eval(target.value, frame), target.attr, v, target)
        elif isinstance(target, ast.Subscript):
            self.setitem(self.eval(target.value, frame),
                         self.eval(target.slice, frame), v, target)
        else:
            self.undecided('assignment target', target)

    def unpack(self, v, n, node=None):
        if isinstance(v, Sym) and isinstance(v.ty, tuple) and v.ty[0] == 'tuple':
            v = from_term(v.t, v.ty)
        if isinstance(v, Native) and hasattr(v, 'unpack'):
            return v.unpack(self, n)
        if isinstance(v, SList):
            if not self.ex.branch(v.len == n):
                self.raise_(ValueError, 'unpack')
            return [from_term(z3.Select(v.arr, z3.IntVal(k)), v.ety)
                    for k in range(n)]
        items = self.iter_concrete(v, node)
        if len(items) != n:
            self.raise_(ValueError, 'unpack')
        return items

    def exec_Delete(self, node, frame):
        for t in node.targets:
            if isinstance(t, ast.Name):
                frame.locals.pop(t.id, None)
            elif isinstance(t, ast.Subscript):
                o = self.eval(t.value, frame)
                k = self.eval(t.slice, frame)
                if isinstance(o, VDict) and is_concrete(k):
                    if k not in o.items:
                        self.raise_(KeyError, k)
                    del o.items[k]
                else:
                    self.undecided('del of symbolic item', node)
            else:
                self.undecided('del target', node)

    def exec_Return(self, node, frame):
        raise _Return(self.eval(node.value, frame) if node.value else None)

    def exec_Break(self, node, frame):
        raise _Break()

    def exec_Continue(self, node, frame):
        raise _Continue()

    def exec_If(self, node, frame):
        tv = self.eval(node.test, frame)
        cond = self.truth_term(tv)
        if not isinstance(cond, bool) and not node.orelse and \
                self.ex.qdepth == 0 and self.registry.get('if_conversion', True):
            c = z3.simplify(cond)
            if not z3.is_true(c) and not z3.is_false(c):
                if self.try_if_conversion(node, frame, c):
                    return
        if self.ex.branch(ops.z3bool(cond)) if not isinstance(cond, bool) else cond:
            self.exec_block(node.body, frame)
        else:
            self.exec_block(node.orelse, frame)

    def try_if_conversion(self, node, frame, cond):
        """`if c: <pure assignments>` without else: execute the body once
        without forking and merge its effects under c.  Only local names and
        entries of local dicts may be written; anything else (events, heap
        writes, calls that branch or raise) cancels the attempt."""
        # cheap syntactic filter
        for st in node.body:
            if not isinstance(st, (ast.Assign, ast.AugAssign, ast.If)):
                return False
        # both outcomes must be feasible, otherwise plain execution is exact
        if not (self.ex._check(cond) and self.ex._check(z3.Not(cond))):
            return False
        snap_locals = {}
        f = frame
        while f is not None:
            snap_locals[id(f)] = (f, dict(f.locals))
            f = f.parent
        dict_snaps = {}
        for (fr, loc) in snap_locals.values():
            for nm, v in loc.items():
                if type(v).__name__ in ('VDict', 'JsonObj') and id(v) not in dict_snaps:
                    dict_snaps[id(v)] = (v, dict(v.items),
                                         dict(getattr(v, 'present', None) or {}),
                                         hasattr(v, 'present'))
        heap, heap_none, meta = dict(self.heap), dict(self.heap_none), dict(self.meta)
        n_events, n_pc, n_hyps = len(self.events), len(self.ex.pc), len(self.ex.hyps)
        n_trace = len(self.ex.trace)
        written = set(self.written_fields)
        db_writes = len(self.db.writes) if self.db is not None else 0
        next_ref = self.next_ref
        # every other mutable container reachable from the frames: symbolic
        # collections are updated in place (d[k] = v rewrites d.dom / d.val),
        # so a change there cannot be merged -- it cancels the attempt
        inplace = {}
        sym_lens = dict((k, len(getattr(t[0], 'sym_items', None) or []))
                        for k, t in dict_snaps.items())

        def attrs_of(v):
            if hasattr(v, '__dict__'):
                return dict(vars(v))
            return dict((n, getattr(v, n)) for n in type(v).__slots__
                        if hasattr(v, n))

        def children(v):
            if isinstance(v, (VList, VSet)):
                return list(v.items)
            if type(v).__name__ in ('VDict', 'JsonObj'):
                return list(v.items.values())
            if isinstance(v, tuple):
                return list(v)
            if isinstance(v, (SList, SSet, SMap, _NestedView)):
                return [x for x in attrs_of(v).values()
                        if isinstance(x, (SList, SSet, SMap, tuple))]
            return []

        def visit(v, depth):
            if id(v) in inplace:
                return
            top_dict = depth == 0 and id(v) in dict_snaps
            if isinstance(v, (SList, SSet, SMap, _NestedView, VList, VSet)) or \
                    (type(v).__name__ in ('VDict', 'JsonObj') and not top_dict):
                at = attrs_of(v)
                items = at.get('items')
                inplace[id(v)] = (v, at, None if items is None else
                                  (dict(items) if isinstance(items, dict)
                                   else list(items)))
            if depth < 4:
                for x in children(v):
                    visit(x, depth + 1)
        for (fr, loc) in snap_locals.values():
            for v in loc.values():
                visit(v, 0)
        for v in meta.values():
            visit(v, 1)

        def inplace_changed():
            for k, t in dict_snaps.items():
                if len(getattr(t[0], 'sym_items', None) or []) != sym_lens[k]:
                    return True
            for (v, at, items) in inplace.values():
                cur = attrs_of(v)
                if set(cur) != set(at) or any(cur[k] is not at[k] for k in at):
                    return True
                if items is not None:
                    now = cur['items']
                    if len(now) != len(items):
                        return True
                    if isinstance(items, dict):
                        if any(k not in now or now[k] is not items[k]
                               for k in items):
                            return True
                    elif isinstance(now, list):
                        if any(x is not y for x, y in zip(now, items)):
                            return True
                    elif set(map(id, now)) != set(map(id, items)):
                        return True
            return False

        def rollback():
            for k, t in dict_snaps.items():
                si = getattr(t[0], 'sym_items', None)
                if si is not None:
                    del si[sym_lens[k]:]
            for (v, at, items) in inplace.values():
                for n, x in at.items():
                    if getattr(v, n, _MISSING) is not x:
                        setattr(v, n, x)
                if items is not None:
                    cont = at['items']
                    if isinstance(cont, dict):
                        cont.clear()
                        cont.update(items)
                    elif isinstance(cont, list):
                        cont[:] = items
                    else:
                        cont.clear()
                        cont.update(items)
            for (fr, loc) in snap_locals.values():
                fr.locals.clear()
                fr.locals.update(loc)
            for (v, items, pres, had) in dict_snaps.values():
                v.items.clear()
                v.items.update(items)
                if had:
                    v.present = dict(pres)
            self.heap, self.heap_none, self.meta = heap, heap_none, meta
            del self.events[n_events:]
            self.written_fields = written
            self.next_ref = next_ref

        ok = True
        self.ex.qdepth += 1
        self.qguards.append([])
        self.ex.push_assumption(cond)
        self.ex.trial += 1
        try:
            self.exec_block(node.body, frame)
        except (Undecided, PyRaise, _Return, _Break, _Continue, PathEnd,
                Infeasible):
            ok = False
        finally:
            self.ex.trial -= 1
            self.ex.pop_assumption()
            guards = self.qguards.pop()
            self.ex.qdepth -= 1
        if ok and (guards or len(self.events) != n_events or
                   len(self.ex.pc) != n_pc or len(self.ex.hyps) != n_hyps or
                   len(self.ex.trace) != n_trace or
                   self.written_fields != written or self.next_ref != next_ref or
                   (self.db is not None and len(self.db.writes) != db_writes) or
                   any(self.heap.get(k) is not v for k, v in heap.items()) or
                   len(self.heap) != len(heap) or len(self.meta) != len(meta) or
                   inplace_changed()):
            ok = False
        if not ok:
            rollback()
            return False
        # merge locals
        merged = []
        try:
            for (fr, loc) in snap_locals.values():
                for nm, new in list(fr.locals.items()):
                    old = loc.get(nm, _MISSING)
                    if new is old:
                        continue
                    if old is _MISSING:
                        # bound only under the condition: a later read when the
                        # condition is false would be an error or a stale value
                        merged.append((fr, nm, Opaque(
                            'name %s bound only under a condition' % nm)))
                        continue
                    try:
                        merged.append((fr, nm, self.merge(cond, new, old, node)))
                    except Undecided:
                        if isinstance(old, Opaque) and 'bound only under' in old.what:
                            merged.append((fr, nm, old))
                        else:
                            raise
            for (v, items, pres, had) in dict_snaps.values():
                for k, new in list(v.items.items()):
                    if k in items and items[k] is new:
                        continue
                    if k in items:
                        oldp = pres.get(k, True)
                        if oldp is not True:
                            raise Undecided('conditional overwrite of optional key')
                        v.items[k] = self.merge(cond, new, items[k], node)
                    else:
                        if not hasattr(v, 'present') or v.present is None:
                            v.present = {}
                        v.present[k] = cond
                for k in items:
                    if k not in v.items:
                        raise Undecided('conditional delete')
        except Undecided:
            rollback()
            return False
        for fr, nm, val in merged:
            fr.locals[nm] = val
        return True

    def exec_Assert(self, node, frame):
        if not self.truth(self.eval(node.test, frame)):
            self.raise_(AssertionError)

    def exec_Global(self, node, frame):
        self.undecided('global statement', node)

    def exec_Nonlocal(self, node, frame):
        self.undecided('nonlocal statement', node)

    def exec_Import(self, node, frame):
        import importlib
        for a in node.names:
            m = importlib.import_module(a.name)
            frame.locals[a.asname or a.name.split('.')[0]] = \
                m if a.asname else importlib.import_module(a.name.split('.')[0])

    def exec_ImportFrom(self, node, frame):
        import importlib
        m = importlib.import_module(node.module)
        for a in node.names:
            frame.locals[a.asname or a.name] = self.lift(getattr(m, a.name))

    def exec_FunctionDef(self, node, frame):
        defaults = [self.eval(d, frame) for d in node.args.defaults]
        kwd = {a.arg: self.eval(d, frame) for a, d in
               zip(node.args.kwonlyargs, node.args.kw_defaults) if d is not None}
        f = Closure(node, frame, frame.globals, node.name, defaults, kwd,
                    frame.qualname + '.<locals>.' + node.name, frame.module)
        for d in reversed(node.decorator_list):
            dv = self.eval(d, frame)
            f = self.call(dv, [f], {}, d, frame)
        frame.locals[node.name] = f

    def exec_Raise(self, node, frame):
        if node.exc is None:
            if not frame.handling:
                self.raise_(RuntimeError, 'No active exception to reraise')
            raise PyRaise(frame.handling[-1])
        v = self.eval(node.exc, frame)
        if isinstance(v, type) and issubclass(v, BaseException):
            v = self.instantiate(v, [], {}, node)
        if isinstance(v, Native) and hasattr(v, 'as_exception'):
            v = v.as_exception(self)
        if not isinstance(v, ExcVal):
            self.undecided('raise of %r' % (v,), node)
        raise PyRaise(v)

    def exec_Try(self, node, frame):
        try:
            try:
                self.exec_block(node.body, frame)
            except PyRaise as pr:
                exc = pr.exc
                for h in node.handlers:
                    if self.handler_matches(h, exc, frame):
                        if h.name:
                            frame.locals[h.name] = exc
                        frame.handling.append(exc)
                        try:
                            self.exec_block(h.body, frame)
                        finally:
                            frame.handling.pop()
                        break
                else:
                    raise
            else:
                self.exec_block(node.orelse, frame)
        finally:
            if node.finalbody:
                self.exec_block(node.finalbody, frame)

    def handler_matches(self, h, exc, frame):
        if h.type is None:
            return True
        t = self.eval(h.type, frame)
        classes = t if isinstance(t, tuple) else (t,)
        for c in classes:
            if not isinstance(c, type):
                self.undecided('except clause with non-class %r' % (c,), h)
            if issubclass(exc.cls, c):
                return True
        return False

    def exec_With(self, node, frame):
        if len(node.items) != 1:
            self.undecided('multi-item with', node)
        item = node.items[0]
        cm = self.eval(item.context_expr, frame)
        if not (isinstance(cm, Native) and hasattr(cm, 'cm_enter')):
            self.undecided('context manager %r has no model' % (cm,), node)
        v = cm.cm_enter(self, frame)
        if item.optional_vars is not None:
            self.assign(item.optional_vars, v, frame)
        try:
            self.exec_block(node.body, frame)
        except PyRaise as pr:
            if cm.cm_exit(self, frame, pr.exc):
                return
            raise
        except (_Return, _Break, _Continue):
            cm.cm_exit(self, frame, None)
            raise
        else:
            cm.cm_exit(self, frame, None)

    # ------------------------------------------------------------------ loops
    def loop_ordinal(self, node, frame):
        """Syntactic ordinal of a loop inside its function (pre-order over
        for / while statements, nested function definitions excluded)."""
        fnode = getattr(frame, 'fnode', None)
        if fnode is None:
            frame.loop_ordinal += 1
            return frame.loop_ordinal
        cache = _LOOP_ORDINALS.get(id(fnode))
        if cache is None:
            cache = {}
            n = [0]

            def walk(x):
                for c in ast.iter_child_nodes(x):
                    if isinstance(c, (ast.FunctionDef, ast.AsyncFunctionDef,
                                      ast.Lambda, ast.ClassDef)):
                        continue
                    if isinstance(c, (ast.For, ast.While)):
                        n[0] += 1
                        cache[id(c)] = n[0]
                    walk(c)
            walk(fnode)
            _LOOP_ORDINALS[id(fnode)] = cache
        return cache.get(id(node), 0)

    def exec_While(self, node, frame):
        ordinal = self.loop_ordinal(node, frame)
        frame.loop_ordinal = ordinal
        spec = self.registry.get('loops', {}).get(
            (frame.qualname, ordinal))
        handler = self.registry.get('while_handler')
        if handler is not None:
            r = handler(self, node, frame, spec)
            if r is not NotImplemented:
                return
        if spec is not None:
            return self.symbolic_while(node, frame, spec, ordinal)
        # a loop whose condition is a concrete value at every test (a
        # counter) is executed as it is: complete unrolling, no bound assumed
        n = 0
        while True:
            c = self.eval(node.test, frame)
            if not is_concrete(c):
                self.undecided('while loop with a symbolic condition and no '
                               'model', node)
            if not c:
                self.exec_block(node.orelse, frame)
                return
            n += 1
            if n > 1000:
                self.undecided('while loop: more than 1000 iterations', node)
            try:
                self.exec_block(node.body, frame)
            except _Break:
                return
            except _Continue:
                continue

    def symbolic_while(self, node, frame, spec, ordinal):
        """`while` with a sidecar invariant, inductive treatment:
        exit: havoc the assigned locals, assume invariant and not(test), run
              the else clause, go on after the loop;
        iter: havoc, assume invariant and test, run the body once; `break`
              leaves the loop, otherwise the invariant is obliged again."""
        name = spec.name or '%s#%d' % (frame.qualname, ordinal)
        for k, f in enumerate(spec.invariant(self, frame, None, None)
                              if spec.invariant else []):
            self.ex.oblige('%s.init.%d' % (name, k), f, 'A')
        if spec.on_entry is not None:
            spec.on_entry(self, frame, None)
        bound, mutated = source.assigned_names(node.body)
        for nm in sorted((bound | mutated) - set(spec.keep)):
            holder = _find_holder(frame, nm)
            if holder is None:
                continue
            try:
                holder.locals[nm] = self.havoc_value(holder.locals[nm], nm)
            except Undecided:
                holder.locals[nm] = Opaque('havocked local %s' % nm)
        for mf in spec.modifies_fields:
            self.havoc_field(mf[0], mf[1], keep_null=len(mf) > 2)
        if spec.modifies_db:
            self.db.havoc(spec.modifies_db)
            for tb in spec.modifies_db:
                self.event('db.write', tb, 'loop:' + name, self.db._tid())
        mode = self.ex.choose(2, tag=name)
        if spec.invariant is not None:
            for f in spec.invariant(self, frame, None, None):
                self._assume_or_hyp(f)
        tt = self.truth_term(self.eval(node.test, frame))
        if mode == 0:
            self.ex.assume(z3.Not(ops.z3bool(tt)))
            self.exec_block(node.orelse, frame)
            return
        self.ex.assume(ops.z3bool(tt))
        try:
            self.exec_block(node.body, frame)
        except _Continue:
            pass
        except _Break:
            return
        if spec.invariant is not None:
            for k, f in enumerate(spec.invariant(self, frame, None, None)):
                self.ex.oblige('%s.step.%d' % (name, k), f, 'A')
        raise PathEnd()

    def exec_For(self, node, frame):
        ordinal = self.loop_ordinal(node, frame)
        it = self.eval(node.iter, frame)
        if isinstance(it, Native) and hasattr(it, 'iter_value'):
            it = it.iter_value(self)
        if isinstance(it, (SList, SSet, SMap)) or (
                isinstance(it, _View) and it.symbolic()) or (
                isinstance(it, Native) and hasattr(it, 'sequence')):
            if isinstance(it, SSet) and it.elems is not None and len(it.elems) <= 1:
                pass
            else:
                return self.symbolic_for(node, frame, it, ordinal)
        items = self.iter_concrete(it, node)
        broke = False
        for x in items:
            self.assign(node.target, x, frame)
            try:
                self.exec_block(node.body, frame)
            except _Break:
                broke = True
                break
            except _Continue:
                continue
        if not broke:
            self.exec_block(node.orelse, frame)

    def symbolic_for(self, node, frame, it, ordinal):
        """Loop over a collection of symbolic size: inductive treatment.

        choice 0: 'exit'  -- havoc, assume invariant at i = n, continue after
                            the loop;
        choice 1: 'iter'  -- havoc, assume invariant at an arbitrary i < n,
                            run the body once, oblige invariant at i + 1.
        Without a LoopSpec the invariant is True.
        """
        spec = self.registry.get('loops', {}).get((frame.qualname, ordinal))
        auto = False
        if spec is None:
            auto = True
            learnt = AUTO_FRAMES.get((frame.qualname, ordinal), (set(), set()))
            spec = LoopSpec(name='%s#%d' % (frame.qualname, ordinal),
                            modifies_db=tuple(sorted(learnt[0])),
                            modifies_fields=tuple(sorted(learnt[1])))
        self._loop_key = (frame.qualname, ordinal, auto)
        name = spec.name or '%s#%d' % (frame.qualname, ordinal)
        seq = self.loop_sequence(it, name)
        n = seq.len
        bound, mutated = source.assigned_names(node.body)
        target_names, _ = source.assigned_names([ast.Expr(node.target)]) \
            if False else (set(_target_names(node.target)), None)
        # empty containers with a declared element type become symbolic ones
        hints = self.registry.get('havoc_types', {})
        for nm in sorted(bound | mutated | set(spec.extra_havoc)):
            holder = _find_holder(frame, nm)
            if holder is None or (frame.qualname, nm) not in hints:
                continue
            cur = holder.locals[nm]
            if isinstance(cur, (VDict, VSet, VList)) and not cur.items:
                holder.locals[nm] = self.typed_empty(
                    hints[(frame.qualname, nm)], nm)
        if spec.on_entry is not None:
            spec.on_entry(self, frame, seq)
        # initiation
        if spec.lemmas is not None:
            for f in spec.lemmas(self, frame, z3.IntVal(0), seq):
                self.ex.hyp(f)
        if spec.invariant is not None:
            for k, f in enumerate(spec.invariant(self, frame, z3.IntVal(0), seq)):
                self.ex.oblige('%s.init.%d' % (name, k), f, 'A')
        pre_written = set(self.written_fields)
        # objects allocated by earlier iterations live in a reference range
        # of their own: (entry mark, entry mark + gap]; this iteration
        # allocates above it, pre-existing objects lie at or below the mark
        self.loop_entry_mark = self.next_ref
        self.next_ref += _LOOP_REF_GAP
        # havoc
        havocked = set()
        replay_colls = []
        for nm in sorted((bound | mutated | set(spec.extra_havoc)) - set(spec.keep)):
            if nm in target_names:
                continue
            holder = _find_holder(frame, nm)
            if holder is None:
                continue
            cur = holder.locals[nm]
            if isinstance(cur, Native) and getattr(cur, 'loop_stable', False):
                # a stub whose state lives elsewhere (request context: the
                # ghost database): method calls on it do not change the local
                continue
            if isinstance(cur, (VList, VDict)) and not cur.items and \
                    not getattr(cur, 'present', None) and nm in mutated and \
                    getattr(cur, 'default', None) is None and \
                    _stores_unconditionally(node, nm) and \
                    (frame.qualname, nm) not in hints and \
                    not isinstance(cur, type(None)):
                rc = _ReplayColl('dict' if isinstance(cur, VDict) else 'list',
                                 node, holder, nm, seq, name)
                holder.locals[nm] = rc
                replay_colls.append(rc)
                havocked.add(nm)
                continue
            try:
                holder.locals[nm] = self.havoc_value(holder.locals[nm], nm)
            except Undecided:
                # not havocable: poison it; a read before the body assigns
                # it makes the obligation undecided, never wrong
                holder.locals[nm] = Opaque('havocked local %s' % nm)
            havocked.add(nm)
        keepnull = set()
        for mf in spec.modifies_fields:
            self.havoc_field(mf[0], mf[1], keep_null=len(mf) > 2)
            if len(mf) > 2:
                keepnull.add((mf[0], mf[1]))
        self.keepnull = keepnull
        if spec.modifies_db:
            self.db.havoc(spec.modifies_db)
            # the iterations (not re-executed on this path) may have written
            # these tables in the current transaction
            for tb in spec.modifies_db:
                self.event('db.write', tb, 'loop:' + name, self.db._tid())
        db_writes0 = len(self.db.writes) if self.db is not None else 0
        self._loop_db_mark = (db_writes0, spec.modifies_db)
        for rc in replay_colls:
            rc.snapshot = dict(rc.holder.locals)
            rc.frame = frame
        mode = self.ex.choose(2, tag=name)
        i = z3.Int(self.ex.fresh_name('i.' + name.split('.')[-1]))
        if mode == 0:
            self.ex.assume(i == n)
            if spec.invariant is not None:
                for f in spec.invariant(self, frame, i, seq):
                    self._assume_or_hyp(f)
            if spec.lemmas is not None:
                for f in spec.lemmas(self, frame, i, seq):
                    self.ex.hyp(f)
            self.exec_block(node.orelse, frame)
            return
        # arbitrary iteration
        self.ex.assume(z3.And(i >= 0, i < n))
        if spec.invariant is not None:
            for f in spec.invariant(self, frame, i, seq):
                self._assume_or_hyp(f)
        if spec.lemmas is not None:
            for f in spec.lemmas(self, frame, i, seq):
                self.ex.hyp(f)
        self.written_fields = set()
        self._loop_alloc_mark = self.next_ref
        self.assign(node.target, seq.element(self, i), frame)
        before = dict((nm, _find_holder(frame, nm).locals.get(nm))
                      for nm in spec.keep if _find_holder(frame, nm))
        try:
            self.exec_block(node.body, frame)
        except _Continue:
            pass
        except _Break:
            self._check_frame(spec, name, pre_written)
            return                      # continues after the loop, no else
        # body completed: frame check + preservation
        self._check_frame(spec, name, pre_written)
        if spec.invariant is not None:
            info = {}
            if spec.probes is not None:
                info['probes'] = spec.probes(self, frame, i, seq)
            for k, f in enumerate(spec.invariant(self, frame, i + 1, seq)):
                self.ex.oblige('%s.step.%d' % (name, k), f, 'A', dict(info))
        raise PathEnd()

    def _check_frame(self, spec, name, pre_written):
        if self.db is not None:
            mark, allowed = self._loop_db_mark
            for w in self.db.writes[mark:]:
                if w[0] not in allowed:
                    q, o, auto = self._loop_key
                    if auto:
                        fr = AUTO_FRAMES.setdefault((q, o), (set(), set()))
                        fr[0].add(w[0])
                        if w[0] == 'allocations':
                            fr[0].add('aggregates')
                        raise Restart()
                    raise Undecided('loop %s writes table %s not in its frame'
                                    % (name, w[0]))
        declared = set((m[0], m[1]) for m in spec.modifies_fields)
        extra = self.written_fields - declared
        # fields of objects allocated inside the body are fresh: ignore
        extra = set(e for e in extra if e not in self._fresh_only_fields)
        if extra:
            q, o, auto = self._loop_key
            if auto:
                fr = AUTO_FRAMES.setdefault((q, o), (set(), set()))
                fr[1].update(extra)
                raise Restart()
            raise Undecided('loop %s writes heap fields %s not in its frame'
                            % (name, sorted(extra)))
        self.written_fields |= pre_written
        self._loop_alloc_mark = 1 << 62

    _fresh_only_fields = frozenset()

    def _assume_or_hyp(self, f):
        if isinstance(f, bool):
            self.ex.assume(f)
        elif _has_quantifier(f):
            self.ex.hyp(f)
        else:
            self.ex.assume(f)

    def havoc_value(self, v, nm):
        if isinstance(v, Native) and hasattr(v, 'havoc'):
            return v.havoc(self, nm)
        if isinstance(v, Sym):
            return self.fresh(nm, v.ty, nullable=v.none is not None)
        if isinstance(v, bool):
            return self.fresh(nm, 'bool')
        if isinstance(v, int):
            return self.fresh(nm, 'int')
        if isinstance(v, float):
            return self.fresh(nm, 'real')
        if isinstance(v, str):
            return self.fresh(nm, 'str')
        if v is None:
            self.undecided('cannot havoc %s: type unknown (None before loop)'
                           % nm)
        if isinstance(v, Obj):
            return self.fresh(nm, ('obj', v.cls), nullable=v.none is not None)
        if isinstance(v, SList):
            return self.fresh_list(nm, v.ety, upper='now')
        if isinstance(v, SSet):
            return self.fresh_set(nm, v.ety)
        if isinstance(v, SMap):
            d = v.default
            if d is not None and d[0] == 'nested':
                inner = d[4]
                d = ('nested', d[1], d[2], d[3],
                     self.fresh_map(nm + '.inner', inner.kty, inner.vty))
            return self.fresh_map(nm, v.kty, v.vty, d)
        if isinstance(v, (VList, VDict, VSet)) and not v.items:
            hint = None
            for (q, n2), h in self.registry.get('havoc_types', {}).items():
                if n2 == nm and self.callstack and self.callstack[-1].qualname == q:
                    hint = h
            if hint is None:
                self.undecided('cannot havoc empty container %s without a '
                               'type hint' % nm)
            if hint[0] == 'list':
                return self.fresh_list(nm, hint[1], upper='now')
            if hint[0] == 'set':
                return self.fresh_set(nm, hint[1])
            if hint[0] == 'map':
                return self.fresh_map(nm, hint[1], hint[2],
                                      hint[3] if len(hint) > 3 else None)
        self.undecided('cannot havoc %s = %r' % (nm, v))

    def typed_empty(self, hint, nm):
        name = self.ex.fresh_name(nm)
        if hint[0] == 'set':
            return SSet(z3.K(sort_of(hint[1]), z3.BoolVal(False)), hint[1], [],
                        name)
        if hint[0] == 'map':
            dom = z3.K(sort_of(hint[1]), z3.BoolVal(False))
            val = z3.Const(name + '.val0', z3.ArraySort(sort_of(hint[1]),
                                                        sort_of(hint[2])))
            return SMap(dom, val, hint[1], hint[2], None, name)
        if hint[0] == 'nested':
            # defaultdict(lambda: defaultdict(<const>)) as a map over pairs
            k1, k2, vty, dflt = hint[1], hint[2], hint[3], hint[4]
            pty = ('tuple', (k1, k2))
            inner = SMap(z3.K(sort_of(pty), z3.BoolVal(False)),
                         z3.K(sort_of(pty), to_term(dflt, vty)), pty, vty,
                         None, name + '.inner')
            outer = SMap(z3.K(sort_of(k1), z3.BoolVal(False)),
                         z3.K(sort_of(k1), z3.IntVal(0)), k1, 'int',
                         ('nested', k1, k2, dflt, inner), name)
            return outer
        if hint[0] == 'list':
            arr = z3.Const(name + '.arr0', z3.ArraySort(z3.IntSort(),
                                                        sort_of(hint[1])))
            return SList(z3.IntVal(0), arr, hint[1], name)
        self.undecided('type hint %r' % (hint,))

    def havoc_field(self, cname, field, keep_null=False):
        key = (cname, field)
        if key in self.heap:
            old = self.heap[key]
            self.heap[key] = z3.Const(self.ex.fresh_name('heap.%s.%s' % key),
                                      old.sort())
        if key in self.heap_none and not keep_null:
            old = self.heap_none[key]
            self.heap_none[key] = z3.Const(
                self.ex.fresh_name('heapnone.%s.%s' % key), old.sort())

    def loop_sequence(self, it, name):
        """View any symbolic collection as an enumeration a_0 .. a_{n-1}
        (A-order: arbitrary but fixed, without repetition for sets/dicts)."""
        if isinstance(it, SList):
            return _Seq(it.len, lambda I, i: I.value_of_term(
                z3.Select(it.arr, i), it.ety), it)
        if isinstance(it, SSet):
            return self._enum(it.arr, it.ety, name, it)
        if isinstance(it, SMap):
            return self._enum(it.dom, it.kty, name, it)
        if isinstance(it, _View):
            return it.sequence(self, name)
        if isinstance(it, Native) and hasattr(it, 'sequence'):
            return it.sequence(self, name)
        self.undecided('loop over %r' % (it,))

    def _enum(self, arr, ety, name, origin):
        key = ('enum', arr.sexpr() if hasattr(arr, 'sexpr') else id(arr))
        if key in self.ghost:
            return self.ghost[key]
        base = self.ex.fresh_name('enum.' + name.split('.')[-1])
        n = z3.Int(base + '.n')
        e = z3.Function(base + '.at', z3.IntSort(), sort_of(ety))
        idx = z3.Function(base + '.idx', sort_of(ety), z3.IntSort())
        self.ex.assume(n >= 0)
        j = z3.Int('j!' + base)
        x = z3.Const('x!' + base, sort_of(ety))
        # bijection between [0, n) and the members
        self.ex.hyp(ops.forall([j], z3.Implies(
            z3.And(j >= 0, j < n),
            z3.And(z3.Select(arr, e(j)), idx(e(j)) == j)), patterns=[e(j)]))
        self.ex.hyp(ops.forall([x], z3.Implies(
            z3.Select(arr, x),
            z3.And(idx(x) >= 0, idx(x) < n, e(idx(x)) == x)),
            patterns=[z3.Select(arr, x)]))
        seq = _Seq(n, lambda I, i: from_term(e(i), ety), origin)
        seq.at, seq.idx = e, idx
        self.ghost[key] = seq
        return seq

    # ------------------------------------------------------- comprehensions
    def comprehension(self, node, frame, kind):
        gens = node.generators
        inner = Frame({}, frame, frame.globals, frame.qualname, frame.module)
        inner.handling = frame.handling
        first = self.eval(gens[0].iter, frame)
        if isinstance(first, Native) and hasattr(first, 'iter_value'):
            first = first.iter_value(self)
        symbolic = isinstance(first, (SList, SMap)) or \
            (isinstance(first, SSet) and not (first.elems is not None and len(first.elems) <= 1)) or \
            (isinstance(first, _View) and first.symbolic()) or \
            (isinstance(first, Native) and hasattr(first, 'sequence'))
        if symbolic:
            if len(gens) != 1:
                self.undecided('nested comprehension over symbolic collection',
                               node)
            if isinstance(first, Native) and hasattr(first, 'sequence') and \
                    not gens[0].ifs and kind in ('list', 'gen', 'dict'):
                return _LazyComp(kind, node, frame, first.sequence(self, 'comp'))
            return self.symbolic_comprehension(node, frame, inner, first, kind)
        out = []

        def rec(gi):
            if gi == len(gens):
                if kind == 'dict':
                    out.append((self.eval(node.key, inner),
                                self.eval(node.value, inner)))
                else:
                    out.append(self.eval(node.elt, inner))
                return
            g = gens[gi]
            it = first if gi == 0 else self.eval(g.iter, inner)
            for x in self.iter_concrete(it, node):
                self.assign(g.target, x, inner)
                if all(self.truth(self.eval(c, inner)) for c in g.ifs):
                    rec(gi + 1)
        rec(0)
        if kind == 'dict':
            d = VDict()
            for k, v in out:
                if not is_concrete(k):
                    self.undecided('dict comprehension with symbolic keys over '
                                   'a concrete iterable', node)
                d.items[k] = v
            return d
        if kind == 'set':
            return self.make_set(out)
        return VList(out)

    def symbolic_comprehension(self, node, frame, inner, coll, kind):
        name = self.ex.fresh_name('comp')
        seq = self.loop_sequence(coll, name)
        n = seq.len
        g = node.generators[0]
        q = z3.Int('q!' + name)
        # --- evaluate once at the bound index q, without forking
        self.ex.qdepth += 1
        self.qguards.append([])
        heap0, none0 = dict(self.heap), dict(self.heap_none)
        saved_ca = self._comp_alloc
        ca = self._comp_alloc = [self.next_ref, q, 0]
        try:
            self.assign(g.target, seq.element(self, q), inner)
            conds = [ops.z3bool(self.truth_term(self.eval(c, inner)))
                     for c in g.ifs]
            if kind == 'dict':
                kv = self.eval(node.key, inner)
                vv = self.eval(node.value, inner)
            else:
                ev = self.eval(node.elt, inner)
        finally:
            self._comp_alloc = saved_ca
            guards = self.qguards.pop()
            self.ex.qdepth -= 1
        in_range = z3.And(q >= 0, q < n)
        if ca[2]:
            self._close_comp_alloc(ca[0], q, n, heap0, none0, name, node)
        cond = z_and(*conds) if conds else True
        if guards:
            if self.ex.choose(2, tag=name) == 1:
                # some iteration raises: run it concretely at a witness index
                i0 = z3.Int(self.ex.fresh_name('i0.' + name))
                self.ex.assume(z3.And(i0 >= 0, i0 < n))
                self.assign(g.target, seq.element(self, i0), inner)
                if all(self.truth(self.eval(c, inner)) for c in g.ifs):
                    if kind == 'dict':
                        self.eval(node.key, inner)
                        self.eval(node.value, inner)
                    else:
                        self.eval(node.elt, inner)
                raise PathEnd()
            gd = z_and(*[x for x in guards])
            self.ex.hyp(ops.forall([q], z3.Implies(in_range, ops.z3bool(gd))))
        if kind == 'dict':
            try:
                kty, vty = ty_of(kv), ty_of(vv)
            except Undecided:
                # structured (non-term) values: the result is only good for
                # being passed on (e.g. into a JSON body)
                return Opaque('havocked local (comprehension of structured '
                              'values)')
            m = self.fresh_map(name, kty, vty)
            kt, vt = to_term(kv, kty), to_term(vv, vty)
            x = z3.Const('x!' + name, sort_of(kty))
            w = z3.Function(name + '.w', sort_of(kty), z3.IntSort())
            self.ex.hyp(ops.forall([q], z3.Implies(
                z3.And(in_range, ops.z3bool(cond)), z3.Select(m.dom, kt)),
                patterns=[kt] if _mentions(kt, q) else None))
            wq = w(x)
            self.ex.hyp(ops.forall([x], z3.Implies(
                z3.Select(m.dom, x),
                z3.And(wq >= 0, wq < n,
                       z3.substitute(ops.z3bool(cond), (q, wq)),
                       z3.substitute(kt, (q, wq)) == x,
                       z3.Select(m.val, x) == z3.substitute(vt, (q, wq)))),
                patterns=[z3.Select(m.dom, x)]))
            m.ghost_w = w
            return m
        try:
            ety = ty_of(ev)
        except Undecided:
            if kind in ('list', 'gen') and not conds and not guards:
                # structured elements (dicts ...): kept as a lazily evaluated
                # sequence over the same enumeration
                return _LazyComp(kind, node, frame, seq)
            return Opaque('havocked local (comprehension of structured '
                          'values)')
        et = to_term(ev, ety)
        if kind == 'set':
            s = self.fresh_set(name, ety)
            self._define_image(s.arr, ety, q, n, cond, et, name)
            return s
        if not conds:
            lst = self.fresh_list(name, ety, upper=None)
            self.ex.assume(lst.len == n)
            self.ex.hyp(ops.forall([q], z3.Implies(
                in_range, z3.Select(lst.arr, q) == et),
                patterns=[z3.Select(lst.arr, q)]))
            lst.defn = (q, et)
            return lst
        # filtered list: order-preserving bijection with the kept indices
        lst = self.fresh_list(name, ety, upper=None)
        m = lst.len
        src = z3.Function(name + '.src', z3.IntSort(), z3.IntSort())
        pos = z3.Function(name + '.pos', z3.IntSort(), z3.IntSort())
        p = z3.Int('p!' + name)
        p2 = z3.Int('p2!' + name)
        self.ex.assume(m <= n)
        self.ex.hyp(ops.forall([p], z3.Implies(
            z3.And(p >= 0, p < m),
            z3.And(src(p) >= 0, src(p) < n,
                   z3.substitute(ops.z3bool(cond), (q, src(p))),
                   z3.Select(lst.arr, p) == z3.substitute(et, (q, src(p))),
                   pos(src(p)) == p)),
            patterns=[z3.Select(lst.arr, p)]))
        self.ex.hyp(ops.forall([p, p2], z3.Implies(
            z3.And(p >= 0, p < p2, p2 < m), src(p) < src(p2)),
            patterns=[z3.MultiPattern(src(p), src(p2))]))
        self.ex.hyp(ops.forall([q], z3.Implies(
            z3.And(in_range, ops.z3bool(cond)),
            z3.And(pos(q) >= 0, pos(q) < m, src(pos(q)) == q)),
            patterns=[pos(q)]))
        lst.src, lst.pos = src, pos
        return lst

    def _close_comp_alloc(self, base, q, n, heap0, none0, name, node):
        """The element expression allocated one object per element (reference
        base + 1 + q) and initialised its fields.  Generalise the field
        arrays over q: inside the block (base, base + n] they hold what
        element q wrote, outside they are unchanged.  Writes to anything but
        the element's own object are not handled."""
        self.ex.assume(n < _LOOP_REF_GAP)
        self.next_ref = base + _LOOP_REF_GAP
        own = z3.IntVal(base + 1) + q
        r = z3.Int('r!' + name)
        for store, old, tag in ((self.heap, heap0, ''),
                                (self.heap_none, none0, 'none.')):
            for key in list(store):
                cur = store[key]
                o = old.get(key)
                if o is not None and cur.eq(o):
                    continue
                inner = cur
                while z3.is_store(inner) and not (o is not None and inner.eq(o)):
                    if not inner.arg(1).eq(own):
                        self.undecided('comprehension element writes to an '
                                       'object other than its own', node)
                    inner = inner.arg(0)
                if o is not None and not inner.eq(o):
                    self.undecided('comprehension element replaces a field '
                                   'array', node)
                new = z3.Const('%s.%s%s.%s' % (name, tag, key[0], key[1]),
                               cur.sort())
                self.ex.hyp(ops.forall([q], z3.Implies(
                    z3.And(q >= 0, q < n),
                    z3.Select(new, own) == z3.simplify(z3.Select(cur, own))),
                    patterns=[z3.Select(new, own)]))
                self.ex.hyp(ops.forall([r], z3.Implies(
                    z3.Or(r <= base, r > base + n),
                    z3.Select(new, r) == z3.Select(inner, r)),
                    patterns=[z3.Select(new, r)]))
                store[key] = new

    def _define_image(self, arr, ety, q, n, cond, et, name):
        """arr = { et(q) | 0 <= q < n, cond(q) }"""
        in_range = z3.And(q >= 0, q < n)
        x = z3.Const('x!' + name, sort_of(ety))
        w = z3.Function(name + '.w', sort_of(ety), z3.IntSort())
        self.ex.hyp(ops.forall([q], z3.Implies(
            z3.And(in_range, ops.z3bool(cond)), z3.Select(arr, et)),
            patterns=[et] if _mentions(et, q) and not z3.is_var(et) and not et.eq(q) else None))
        wq = w(x)
        self.ex.hyp(ops.forall([x], z3.Implies(
            z3.Select(arr, x),
            z3.And(wq >= 0, wq < n,
                   z3.substitute(ops.z3bool(cond), (q, wq)),
                   z3.substitute(et, (q, wq)) == x)),
            patterns=[z3.Select(arr, x)]))

    def raise_if(self, cond, cls, *args, **fields):
        """Contract helper: raise cls when cond.  Inside a quantified
        comprehension the negated condition is recorded as a guard."""
        if self.ex.qdepth > 0:
            self.qguards[-1].append(z_not(cond))
            return
        if self.ex.branch(ops.z3bool(cond)):
            self.raise_(cls, *args, **fields)

    qguards = None


# ==========================================================================
# helper classes

_MISSING = object()


class _Seq(object):
    """Enumeration a_0 .. a_{n-1} of a symbolic collection."""

    def __init__(self, length, elem, origin):
        self.len = length
        self._elem = elem
        self.origin = origin

    def element(self, I, i):
        return self._elem(I, i)


class _View(object):
    """dict view: .items() / .values() / .keys()"""

    def __init__(self, d, what):
        self.d = d
        self.what = what

    def symbolic(self):
        return isinstance(self.d, SMap)

    def concrete(self, I):
        d = self.d
        if isinstance(d, VDict):
            if self.what == 'keys':
                return list(d.items.keys())
            if self.what == 'values':
                return list(d.items.values())
            return [(k, v) for k, v in d.items.items()]
        I.undecided('concrete iteration over symbolic dict view')

    def sequence(self, I, name):
        d = self.d
        base = I._enum(d.dom, d.kty, name, d)

        def elem(I_, i):
            k = base.element(I_, i)
            kt = to_term(k, d.kty)
            v = from_term(z3.Select(d.val, kt), d.vty)
            if self.what == 'keys':
                return k
            if self.what == 'values':
                return v
            return (k, v)
        s = _Seq(base.len, elem, d)
        s.at, s.idx = base.at, base.idx
        return s


class _ReplayColl(Native):
    """A list / dict built by a loop over a symbolic collection, one entry per
    iteration (`out.append(f(x))` / `out[k(x)] = f(x)`).  Its i-th entry is
    obtained by re-running the loop body on the i-th element; the body must
    be pure (no contract call, no event, no heap write)."""

    def __init__(self, kind, loop_node, holder, name, seq, loop_name):
        self.kind = kind
        self.loop_node = loop_node
        self.holder = holder
        self.name = name
        self.seq = seq
        self.loop_name = loop_name
        self.capture = None
        self.snapshot = None
        self.frame = None
        self.unconditional = _stores_unconditionally(loop_node, name)

    def getattr(self, I, name):
        return BoundMethod(self, _ContainerMethod(name))

    def store(self, I, k, v):
        if self.capture is not None:
            self.capture.append((k, v))

    def _append(self, I, v):
        if self.capture is not None:
            self.capture.append((None, v))

    def entry(self, I, i):
        if not self.unconditional:
            raise Undecided('collection %s is filled conditionally by loop %s'
                            % (self.name, self.loop_name))
        fr = Frame(dict(self.snapshot), self.frame.parent, self.frame.globals,
                   self.frame.qualname, self.frame.module)
        fr.locals[self.name] = self
        n_events = len(I.events)
        written = set(I.written_fields)
        saved = self.capture
        self.capture = []
        try:
            I.assign(self.loop_node.target, self.seq.element(I, i), fr)
            try:
                I.exec_block(self.loop_node.body, fr)
            except _Continue:
                pass
            except PyRaise:
                # the loop that built the collection completed normally for
                # every element, so a raising re-execution is not a real path
                raise Infeasible()
            got = self.capture
        finally:
            self.capture = saved
        if len(I.events) != n_events:
            raise Undecided('replayed loop body of %s is not pure (events)'
                            % self.loop_name)
        if len(got) != 1:
            raise Undecided('replayed loop body of %s stored %d entries'
                            % (self.loop_name, len(got)))
        return got[0]

    def sequence(self, I, name, what='default'):
        coll = self

        def elem(I_, i):
            k, v = coll.entry(I_, i)
            if coll.kind == 'list':
                return v
            if what == 'items':
                return (k, v)
            if what == 'values':
                return v
            return k
        s = _Seq(self.seq.len, elem, self)
        return s

    def truth(self, I):
        return self.seq.len > 0

    def length(self, I):
        return from_term(self.seq.len, 'int')

    def iter_value(self, I):
        return self


class _LazyComp(Native):
    """[f(x) for x in S] / {k(x): v(x) for x in S} over a sequence whose
    elements are structured (not z3-typed): evaluated per element on demand."""

    def __init__(self, kind, node, frame, seq):
        self.kind = 'dict' if kind == 'dict' else 'list'
        self.node = node
        self.frame = frame
        self.seq = seq
        self.snapshot = dict(frame.locals)

    def getattr(self, I, name):
        return BoundMethod(self, _ContainerMethod(name))

    def entry(self, I, i):
        fr = Frame(dict(self.snapshot), self.frame.parent, self.frame.globals,
                   self.frame.qualname, self.frame.module)
        g = self.node.generators[0]
        I.assign(g.target, self.seq.element(I, i), fr)
        if self.kind == 'dict':
            return (I.eval(self.node.key, fr), I.eval(self.node.value, fr))
        return (None, I.eval(self.node.elt, fr))

    def sequence(self, I, name, what='default'):
        coll = self

        def elem(I_, i):
            k, v = coll.entry(I_, i)
            if coll.kind == 'list' or what == 'values':
                return v
            if what == 'items':
                return (k, v)
            return k
        return _Seq(self.seq.len, elem, self)

    def truth(self, I):
        return self.seq.len > 0

    def length(self, I):
        return from_term(self.seq.len, 'int')

    def iter_value(self, I):
        return self


class _ReplayView(Native):
    def __init__(self, coll, what):
        self.coll = coll
        self.what = what

    def sequence(self, I, name):
        return self.coll.sequence(I, name, self.what)

    def iter_value(self, I):
        return self

    def truth(self, I):
        return self.coll.truth(I)


def _stores_unconditionally(loop_node, name):
    """The loop body stores into `name` exactly once, at its top level."""
    uses = sum(1 for st in loop_node.body for sub in ast.walk(st)
               if isinstance(sub, ast.Name) and sub.id == name)
    if uses != 1:
        return False
    n = 0
    for st in loop_node.body:
        if isinstance(st, ast.Assign) and len(st.targets) == 1 and \
                isinstance(st.targets[0], ast.Subscript) and \
                isinstance(st.targets[0].value, ast.Name) and \
                st.targets[0].value.id == name:
            n += 1
        elif isinstance(st, ast.Expr) and isinstance(st.value, ast.Call) and \
                isinstance(st.value.func, ast.Attribute) and \
                isinstance(st.value.func.value, ast.Name) and \
                st.value.func.value.id == name and \
                st.value.func.attr == 'append':
            n += 1
        else:
            for sub in ast.walk(st):
                if isinstance(sub, (ast.Continue, ast.Break, ast.Return)):
                    return False
                if isinstance(sub, ast.Name) and sub.id == name and \
                        isinstance(sub.ctx, ast.Load) and \
                        not isinstance(st, (ast.Assign, ast.Expr)):
                    pass
    return n == 1


class _NestedView(object):
    """d[k1] of a defaultdict(lambda: defaultdict(int)) modelled as a map
    over pairs."""

    def __init__(self, m, k1):
        self.m = m
        self.k1 = k1

    def _key(self, I, k2):
        d = self.m.default
        pair_ty = ('tuple', (d[1], d[2]))
        s = sort_of(pair_ty)
        return s.mk(self.k1, to_term(k2, d[2]))

    def get(self, I, k2):
        d = self.m.default
        inner = d[4]
        kt = self._key(I, k2)
        cur = z3.If(z3.Select(inner.dom, kt), z3.Select(inner.val, kt),
                    to_term(d[3], inner.vty))
        inner.val = z3.Store(inner.val, kt, cur)
        inner.dom = z3.Store(inner.dom, kt, z3.BoolVal(True))
        return from_term(cur, inner.vty)

    def set(self, I, k2, val):
        inner = self.m.default[4]
        kt = self._key(I, k2)
        inner.val = z3.Store(inner.val, kt, to_term(val, inner.vty))
        inner.dom = z3.Store(inner.dom, kt, z3.BoolVal(True))


class _Super(object):
    def __init__(self, cls, inst):
        self.cls = cls
        self.inst = inst

    def getattr(self, I, name):
        mro = self.inst.cls.__mro__ if isinstance(self.inst, Obj) else self.cls.__mro__
        idx = mro.index(self.cls)
        for c in mro[idx + 1:]:
            if name in c.__dict__:
                raw = c.__dict__[name]
                hook = I.registry.get('super_hook')
                if hook is not None:
                    r = hook(I, c, name, raw, self.inst)
                    if r is not NotImplemented:
                        return r
                return I.bind(raw, self.inst, c)
        I.raise_(AttributeError, name)


_MUTATING_METHODS = frozenset((
    'append', 'extend', 'add', 'discard', 'remove', 'update', 'pop',
    'setdefault', 'clear', 'insert', 'sort'))


class _ContainerMethod(object):
    def __init__(self, name):
        self.name = name

    def call(self, I, recv, args, kwargs, node):
        m = getattr(self, 'm_' + self.name, None)
        if m is None:
            I.undecided('container method %s on %r' % (self.name, recv), node)
        r = m(I, recv, args, kwargs, node)
        if self.name in _MUTATING_METHODS:
            I.touched(recv)
        return r

    # dict ----------------------------------------------------------------
    def m_items(self, I, d, a, k, n):
        if isinstance(d, (_ReplayColl, _LazyComp)):
            return _ReplayView(d, 'items')
        if isinstance(d, (VDict, SMap)):
            return _View(d, 'items')
        I.undecided('.items() on %r' % (d,), n)

    def m_keys(self, I, d, a, k, n):
        if isinstance(d, (_ReplayColl, _LazyComp)):
            return _ReplayView(d, 'keys')
        return _View(d, 'keys')

    def m_values(self, I, d, a, k, n):
        if isinstance(d, (_ReplayColl, _LazyComp)):
            return _ReplayView(d, 'values')
        return _View(d, 'values')

    def m_get(self, I, d, a, k, n):
        default = a[1] if len(a) > 1 else None
        if isinstance(d, VDict):
            if is_concrete(a[0]):
                pres = getattr(d, 'present', None)
                if pres and a[0] in pres:
                    if I.ex.branch(pres[a[0]]):
                        return d.items[a[0]]
                    return default
                return d.items.get(a[0], default)
            for ck, cv in d.items.items():
                if I.ex.branch(ops.z3bool(I.truth_term(I._b(I.eq(a[0], ck))))):
                    return cv
            return default
        if isinstance(d, SMap):
            kt = to_term(a[0], d.kty)
            if I.ex.branch(z3.Select(d.dom, kt)):
                return from_term(z3.Select(d.val, kt), d.vty)
            return default
        I.undecided('.get on %r' % (d,), n)

    def m_pop(self, I, d, a, k, n):
        if isinstance(d, VDict) and is_concrete(a[0]):
            if a[0] in d.items:
                return d.items.pop(a[0])
            if len(a) > 1:
                return a[1]
            I.raise_(KeyError, a[0])
        if isinstance(d, VList) and not a:
            if not d.items:
                I.raise_(IndexError)
            return d.items.pop()
        I.undecided('.pop on %r' % (d,), n)

    def m_setdefault(self, I, d, a, k, n):
        if isinstance(d, VDict) and is_concrete(a[0]):
            return d.items.setdefault(a[0], a[1] if len(a) > 1 else None)
        if isinstance(d, SMap) and d.default is None:
            kt = to_term(a[0], d.kty)
            if not I.ex.branch(z3.Select(d.dom, kt)):
                I.setitem(d, a[0], a[1] if len(a) > 1 else None, n)
            return from_term(z3.Select(d.val, kt), d.vty)
        I.undecided('.setdefault on %r' % (d,), n)

    def m_update(self, I, d, a, k, n):
        if isinstance(d, VDict):
            for o in a:
                if isinstance(o, VDict) and getattr(o, 'present', None):
                    for kk, vv in o.items.items():
                        pb = o.present.get(kk)
                        if pb is None:
                            d.items[kk] = vv
                            if getattr(d, 'present', None):
                                d.present.pop(kk, None)
                        elif kk in d.items and not (getattr(d, 'present', None)
                                                    and kk in d.present):
                            try:
                                d.items[kk] = I.merge(pb, vv, d.items[kk], n)
                            except Undecided:
                                if I.ex.branch(pb):
                                    d.items[kk] = vv
                        else:
                            if I.ex.branch(pb):
                                d.items[kk] = vv
                                if getattr(d, 'present', None):
                                    d.present.pop(kk, None)
                elif isinstance(o, VDict):
                    d.items.update(o.items)
                else:
                    I.undecided('dict.update with %r' % (o,), n)
            d.items.update(k)
            return None
        if isinstance(d, (VSet, SSet)):
            for o in a:
                r = I.aug(ast.BitOr(), d, o if isinstance(o, (VSet, SSet)) else I.make_set(I.iter_concrete(o)), n)
            return None
        I.undecided('.update on %r' % (d,), n)

    def m_copy(self, I, d, a, k, n):
        if isinstance(d, VDict):
            return I.copy_dict(d)
        if isinstance(d, VList):
            return VList(d.items)
        if isinstance(d, VSet):
            return VSet(d.items)
        if isinstance(d, SSet):
            return SSet(d.arr, d.ety, d.elems, d.name)
        if isinstance(d, SMap):
            return SMap(d.dom, d.val, d.kty, d.vty, d.default, d.name)
        I.undecided('.copy on %r' % (d,), n)

    # list ----------------------------------------------------------------
    def m_append(self, I, l, a, k, n):
        if isinstance(l, _ReplayColl):
            l._append(I, a[0])
            return None
        if isinstance(l, VList):
            l.items.append(a[0])
            return None
        if isinstance(l, SList):
            l.arr = z3.Store(l.arr, l.len, I.term_of_value(a[0], l.ety))
            l.len = l.len + 1
            return None
        I.undecided('.append on %r' % (l,), n)

    def m_extend(self, I, l, a, k, n):
        if isinstance(l, SList) and isinstance(a[0], SList):
            o = a[0]
            q = z3.Int('q!ext')
            l.arr = z3.Lambda([q], z3.If(q < l.len, z3.Select(l.arr, q),
                                         z3.Select(o.arr, q - l.len)))
            l.len = l.len + o.len
            return None
        if isinstance(l, SList) and isinstance(a[0], (VList, tuple)):
            for x in (a[0].items if isinstance(a[0], VList) else a[0]):
                self.m_append(I, l, [x], {}, n)
            return None
        if isinstance(l, VList):
            l.items.extend(I.iter_concrete(a[0], n))
            return None
        I.undecided('.extend on %r' % (l,), n)

    def m_sort(self, I, l, a, k, n):
        if isinstance(l, VList) and all(is_concrete(x) for x in l.items) and not k:
            l.items.sort()
            return None
        I.undecided('.sort on %r' % (l,), n)

    def m_index(self, I, l, a, k, n):
        if isinstance(l, (VList,)) and is_concrete(a[0]):
            try:
                return l.items.index(a[0])
            except ValueError:
                I.raise_(ValueError)
        I.undecided('.index', n)

    # set -----------------------------------------------------------------
    def m_add(self, I, s, a, k, n):
        if isinstance(s, VSet):
            if is_concrete(a[0]):
                s.items.add(a[0])
                return None
            I.undecided('add of symbolic element to concrete set (use a typed '
                        'set)', n)
        if isinstance(s, SSet):
            t = to_term(a[0], s.ety)
            s.arr = z3.Store(s.arr, t, z3.BoolVal(True))
            if s.elems is not None:
                s.elems = s.elems + [t]
            return None
        I.undecided('.add on %r' % (s,), n)

    def m_discard(self, I, s, a, k, n):
        if isinstance(s, VSet) and is_concrete(a[0]):
            s.items.discard(a[0])
            return None
        if isinstance(s, SSet):
            s.arr = z3.Store(s.arr, to_term(a[0], s.ety), z3.BoolVal(False))
            s.elems = None
            return None
        I.undecided('.discard', n)

    def m_issubset(self, I, s, a, k, n):
        sa, sb = I.as_sset(s), I.as_sset(a[0], getattr(s, 'ety', None))
        x = z3.Const('x!subset', sort_of(sa.ety))
        return I._b(ops.forall([x], z3.Implies(sa.arr[x], sb.arr[x])))

    def m_isdisjoint(self, I, s, a, k, n):
        if isinstance(s, VSet) and isinstance(a[0], VSet):
            return s.items.isdisjoint(a[0].items)
        sa, sb = I.as_sset(s), I.as_sset(a[0], getattr(s, 'ety', None))
        x = z3.Const('x!disj', sort_of(sa.ety))
        return I._b(ops.forall([x], z3.Not(z3.And(sa.arr[x], sb.arr[x]))))

    def m_union(self, I, s, a, k, n):
        r = s
        for o in a:
            r = I.set_binop(ast.BitOr(), r, o, n)
        return r

    def m_intersection(self, I, s, a, k, n):
        r = s
        for o in a:
            r = I.set_binop(ast.BitAnd(), r, o, n)
        return r

    def m_difference(self, I, s, a, k, n):
        r = s
        for o in a:
            r = I.set_binop(ast.Sub(), r, o, n)
        return r


class _StrMethod(object):
    def __init__(self, name):
        self.name = name

    def call(self, I, recv, args, kwargs, node):
        if isinstance(recv, str) and all(is_concrete(a) for a in args) \
                and not kwargs:
            try:
                return I.lift(getattr(recv, self.name)(*args))
            except Exception as e:
                raise PyRaise(ExcVal(type(e), e.args))
        if self.name == 'join':
            if isinstance(args[0], VList):
                pass
            return I.fresh('joined', 'str')
        if self.name in ('lower', 'upper', 'strip', 'format', 'lstrip',
                         'rstrip', 'replace', 'encode', 'decode', 'title'):
            f = z3.Function('str_' + self.name, StrSort, StrSort)
            if isinstance(recv, Sym) and not args:
                return Sym(f(recv.t), 'str')
            return I.fresh('str_' + self.name, 'str')
        if self.name in ('startswith', 'endswith') and len(args) == 1 and \
                isinstance(recv, Sym) and \
                (isinstance(args[0], str) or
                 (isinstance(args[0], Sym) and args[0].ty == 'str')):
            # an uninterpreted but functional predicate of (string, affix)
            f = z3.Function('str_' + self.name, StrSort, StrSort, z3.BoolSort())
            return Sym(f(recv.t, to_term(args[0], 'str')), 'bool')
        if self.name in ('startswith', 'endswith', 'isdigit'):
            return I.fresh('str_' + self.name, 'bool')
        if self.name in ('split', 'partition', 'rpartition', 'rsplit'):
            hook = I.registry.get('str_split')
            if hook is not None:
                return hook(I, recv, self.name, args)
        I.undecided('str method %s' % self.name, node)


# ==========================================================================
# helper functions and tables

import operator as _op

_PYOPS = {ast.Add: _op.add, ast.Sub: _op.sub, ast.Mult: _op.mul,
          ast.Mod: _op.mod, ast.Div: _op.truediv, ast.FloorDiv: _op.floordiv,
          ast.BitAnd: _op.and_, ast.BitOr: _op.or_, ast.Pow: _op.pow,
          ast.BitXor: _op.xor}
_PYCMP = {ast.Lt: _op.lt, ast.LtE: _op.le, ast.Gt: _op.gt, ast.GtE: _op.ge}
_Z3CMP = _PYCMP
_DUNDER = {ast.Add: '__add__', ast.Sub: '__sub__', ast.Mult: '__mul__',
           ast.Mod: '__mod__', ast.BitAnd: '__and__', ast.BitOr: '__or__'}
_CMPDUNDER = {ast.Lt: '__lt__', ast.LtE: '__le__', ast.Gt: '__gt__',
              ast.GtE: '__ge__'}
_SWAP = {ast.Lt: ast.Gt, ast.Gt: ast.Lt, ast.LtE: ast.GtE, ast.GtE: ast.LtE}


def _ident(v):
    """Registry key of a real object (functions, classes, methods)."""
    if isinstance(v, (types.FunctionType, type, types.BuiltinFunctionType,
                      types.MethodType)):
        return id(v)
    if isinstance(v, (Sym, Obj, VList, VDict, VSet, SList, SSet, SMap, Closure,
                      BoundMethod, Native, ExcVal, Opaque, tuple, str, int,
                      float, bool, type(None))):
        return None
    return id(v) if callable(v) else None


def _qualname(fn):
    return '%s.%s' % (getattr(fn, '__module__', '?'),
                      getattr(fn, '__qualname__', getattr(fn, '__name__', repr(fn))))


def _owner_class(fn):
    """Class in which a real function is defined (for super())."""
    q = getattr(fn, '__qualname__', '')
    if '.' not in q or '<locals>' in q:
        return None
    import sys
    mod = sys.modules.get(fn.__module__)
    obj = mod
    for part in q.split('.')[:-1]:
        obj = getattr(obj, part, None)
        if obj is None:
            return None
    return obj if isinstance(obj, type) else None


def _is_log_call(node):
    if isinstance(node, ast.Call) and isinstance(node.func, ast.Attribute):
        v = node.func.value
        if isinstance(v, ast.Name) and v.id == 'LOG':
            return True
    return False


def _is_slot_descriptor(raw):
    return type(raw).__name__ in ('member_descriptor', 'getset_descriptor')


def _target_names(t):
    if isinstance(t, ast.Name):
        return [t.id]
    if isinstance(t, (ast.Tuple, ast.List)):
        out = []
        for e in t.elts:
            out.extend(_target_names(e))
        return out
    return []


def _find_holder(frame, name):
    f = frame
    while f is not None:
        if name in f.locals:
            return f
        f = f.parent
    return None


def _has_quantifier(f):
    seen = set()
    stack = [f]
    while stack:
        t = stack.pop()
        if t.get_id() in seen:
            continue
        seen.add(t.get_id())
        if z3.is_quantifier(t):
            return True
        stack.extend(t.children())
    return False


def _mentions(t, v):
    seen = set()
    stack = [t]
    while stack:
        x = stack.pop()
        if x.get_id() in seen:
            continue
        seen.add(x.get_id())
        if x.eq(v):
            return True
        stack.extend(x.children())
    return False


# ==========================================================================
# builtins

def _b_len(I, a, k, n):
    v = a[0]
    if isinstance(v, (VList, VDict, VSet)):
        return len(v.items)
    if isinstance(v, (tuple, str)):
        return len(v)
    if isinstance(v, SList):
        return from_term(v.len, 'int')
    if isinstance(v, (SSet, SMap)):
        if isinstance(v, SSet) and v.elems is not None and len(v.elems) <= 1:
            return len(v.elems)
        arr = v.arr if isinstance(v, SSet) else v.dom
        seq = I._enum(arr, v.ety if isinstance(v, SSet) else v.kty, v.name, v)
        return from_term(seq.len, 'int')
    if isinstance(v, _View):
        if v.symbolic():
            return _b_len(I, [v.d], k, n)
        return len(v.concrete(I))
    if isinstance(v, Obj):
        r = I.call_special(v, '__len__', [])
        if r is not NotImplemented:
            return r
    if isinstance(v, Native) and hasattr(v, 'length'):
        return v.length(I)
    if isinstance(v, Sym) and v.ty == 'str':
        f = z3.Function('str_len', StrSort, z3.IntSort())
        I.ex.assume(f(v.t) >= 0)
        return Sym(f(v.t), 'int')
    I.undecided('len of %r' % (v,), n)


def _b_set(I, a, k, n):
    if not a:
        return VSet()
    v = a[0]
    if isinstance(v, Native) and hasattr(v, 'iter_value'):
        v = v.iter_value(I)
    if isinstance(v, (VSet,)):
        return VSet(v.items)
    if isinstance(v, SSet):
        return SSet(v.arr, v.ety, v.elems, v.name)
    if isinstance(v, SList):
        name = I.ex.fresh_name('setof.' + v.name)
        s = I.fresh_set(name, v.ety)
        q = z3.Int('q!' + name)
        I._define_image(s.arr, v.ety, q, v.len, True, z3.Select(v.arr, q), name)
        s.src_list = v
        return s
    if isinstance(v, SMap):
        return SSet(v.dom, v.kty, None, v.name + '.keys')
    if isinstance(v, _View) and v.symbolic():
        d = v.d
        if v.what == 'keys':
            return SSet(d.dom, d.kty, None, d.name + '.keys')
        if v.what == 'values':
            name = I.ex.fresh_name('valuesof.' + d.name)
            s = I.fresh_set(name, d.vty)
            x = z3.Const('kx!' + name, sort_of(d.kty))
            y = z3.Const('vy!' + name, sort_of(d.vty))
            w = z3.Function(name + '.w', sort_of(d.vty), sort_of(d.kty))
            I.ex.hyp(ops.forall([x], z3.Implies(
                z3.Select(d.dom, x), z3.Select(s.arr, z3.Select(d.val, x))),
                patterns=[z3.Select(d.val, x)]))
            I.ex.hyp(ops.forall([y], z3.Implies(
                z3.Select(s.arr, y),
                z3.And(z3.Select(d.dom, w(y)), z3.Select(d.val, w(y)) == y)),
                patterns=[z3.Select(s.arr, y)]))
            return s
    return I.make_set(I.iter_concrete(v, n))


def _b_list(I, a, k, n):
    if not a:
        return VList()
    v = a[0]
    if isinstance(v, Native) and hasattr(v, 'iter_value'):
        v = v.iter_value(I)
    if isinstance(v, SList):
        return SList(v.len, v.arr, v.ety, v.name)
    if isinstance(v, (SSet, SMap)) or (isinstance(v, _View) and v.symbolic()):
        name = I.ex.fresh_name('listof')
        seq = I.loop_sequence(v, name)
        probe = seq.element(I, z3.Int('q!' + name))
        ety = ty_of(probe)
        lst = I.fresh_list(name, ety)
        q = z3.Int('q!' + name)
        I.ex.assume(lst.len == seq.len)
        I.ex.hyp(ops.forall([q], z3.Implies(
            z3.And(q >= 0, q < seq.len),
            z3.Select(lst.arr, q) == to_term(seq.element(I, q), ety)),
            patterns=[z3.Select(lst.arr, q)]))
        lst.from_seq = seq
        return lst
    return VList(I.iter_concrete(v, n))


def _b_tuple(I, a, k, n):
    if not a:
        return ()
    return tuple(I.iter_concrete(a[0], n))


def _b_dict(I, a, k, n):
    d = VDict()
    if a:
        v = a[0]
        if isinstance(v, VDict):
            d.items.update(v.items)
        elif isinstance(v, SMap):
            return SMap(v.dom, v.val, v.kty, v.vty, v.default, v.name)
        else:
            for kv in I.iter_concrete(v, n):
                kk, vv = I.unpack(kv, 2, n)
                if not is_concrete(kk):
                    I.undecided('dict() with symbolic key', n)
                d.items[kk] = vv
    d.items.update(k)
    return d


def _b_int(I, a, k, n):
    v = a[0] if a else 0
    if is_concrete(v):
        try:
            return int(v)
        except (ValueError, TypeError, OverflowError) as e:
            I.raise_(type(e))
    if isinstance(v, Sym) and v.ty == 'int':
        return v
    if isinstance(v, Sym) and v.ty == 'bool':
        return Sym(z3.If(v.t, 1, 0), 'int')
    if isinstance(v, Sym) and v.ty == 'real':
        hook = I.registry.get('int_of_real')
        if hook is not None:
            hook(I, v)
        # truncation toward zero
        t = v.t
        fl = z3.ToInt(t)
        r = z3.If(t >= 0, fl, z3.If(z3.ToReal(fl) == t, fl, fl + 1))
        return Sym(r, 'int')
    if isinstance(v, Sym) and v.ty == 'str':
        ok = z3.Function('str_is_int', StrSort, z3.BoolSort())(v.t)
        I.raise_if(z3.Not(ok), ValueError)
        return Sym(z3.Function('str_to_int', StrSort, z3.IntSort())(v.t), 'int')
    I.undecided('int(%r)' % (v,), n)


def _b_str(I, a, k, n):
    if not a:
        return ''
    v = a[0]
    if is_concrete(v):
        return str(v)
    if isinstance(v, Sym) and v.ty == 'str':
        return v
    return I.fresh('str', 'str')


def _b_bool(I, a, k, n):
    if not a:
        return False
    return I._b(I.truth_term(a[0]))


def _b_isinstance(I, a, k, n):
    v, c = a
    classes = c if isinstance(c, tuple) else (c,)
    for cl in classes:
        if isinstance(v, Obj) and isinstance(v.cls, type) and isinstance(cl, type) \
                and issubclass(v.cls, cl):
            return True
        if isinstance(v, ExcVal) and isinstance(cl, type) and issubclass(v.cls, cl):
            return True
        if cl is str and (isinstance(v, str) or (isinstance(v, Sym) and v.ty == 'str')):
            return True
        if cl is int and (isinstance(v, int) or (isinstance(v, Sym) and v.ty in ('int', 'bool'))):
            return True
        if cl is float and (isinstance(v, float) or (isinstance(v, Sym) and v.ty == 'real')):
            return True
        if cl is dict and isinstance(v, (VDict, SMap)):
            return True
        if cl is list and isinstance(v, (VList, SList)):
            return True
        if cl is set and isinstance(v, (VSet, SSet)):
            return True
        if cl is tuple and isinstance(v, tuple):
            return True
        if isinstance(v, Native) and hasattr(v, 'isinstance_of'):
            if v.isinstance_of(cl):
                return True
        if is_concrete(v) and isinstance(cl, type) and isinstance(v, cl):
            return True
    if isinstance(v, Opaque):
        I.undecided('isinstance of opaque value', n)
    return False


def _b_getattr(I, a, k, n):
    if len(a) == 3:
        try:
            return I.getattr(a[0], a[1], n)
        except PyRaise as pr:
            if issubclass(pr.exc.cls, AttributeError):
                return a[2]
            raise
    return I.getattr(a[0], a[1], n)


def _b_setattr(I, a, k, n):
    I.setattr(a[0], a[1], a[2], n)


def _b_hasattr(I, a, k, n):
    try:
        I.getattr(a[0], a[1], n)
        return True
    except PyRaise as pr:
        if issubclass(pr.exc.cls, AttributeError):
            return False
        raise


def _b_sorted(I, a, k, n):
    v = a[0]
    items = I.iter_concrete(v, n) if not isinstance(v, (SList, SSet)) else None
    if items is not None and all(is_concrete(x) for x in items) and not k:
        return VList(sorted(items))
    if items is not None and len(items) <= 1:
        return VList(items)
    I.undecided('sorted of symbolic items', n)


def _b_any(I, a, k, n, want=True):
    v = a[0]
    if isinstance(v, SList):
        if v.ety == 'bool':
            tr = lambda t: t
        elif v.ety == 'str':
            ne = z3.Function('str_nonempty', StrSort, z3.BoolSort())
            tr = lambda t: ne(t)
        elif v.ety == 'int':
            tr = lambda t: t != 0
        else:
            I.undecided('any/all over a symbolic list of %r' % (v.ety,), n)
        b = z3.Bool(I.ex.fresh_name('any' if want else 'all'))
        w = z3.Int(I.ex.fresh_name('w'))
        q = z3.Int('q!anyall')
        hit = (lambda t: tr(t)) if want else (lambda t: z3.Not(tr(t)))
        # b <=> exists hit ; result = b (any) or not b (all)
        I.ex.assume(z3.Implies(b, z3.And(w >= 0, w < v.len,
                                          hit(z3.Select(v.arr, w)))))
        I.ex.hyp(z3.Implies(z3.Not(b), ops.forall(
            [q], z3.Implies(z3.And(q >= 0, q < v.len),
                            z3.Not(hit(z3.Select(v.arr, q)))),
            patterns=[z3.Select(v.arr, q)])))
        return Sym(b if want else z3.Not(b), 'bool')
    res = not want
    for x in I.iter_concrete(v, n):
        t = I.truth(x)
        if t == want:
            return want
    return res


def _b_all(I, a, k, n):
    return _b_any(I, a, k, n, want=False)


def _b_zip(I, a, k, n):
    lists = [I.iter_concrete(x, n) for x in a]
    return VList([tuple(t) for t in zip(*lists)])


def _b_enumerate(I, a, k, n):
    start = a[1] if len(a) > 1 else k.get('start', 0)
    return VList([(i + start, x) for i, x in enumerate(I.iter_concrete(a[0], n))])


def _b_range(I, a, k, n):
    if all(isinstance(x, int) for x in a):
        return VList(list(range(*a)))
    I.undecided('symbolic range', n)


def _b_minmax(is_min):
    def f(I, a, k, n):
        items = a if len(a) > 1 else I.iter_concrete(a[0], n)
        if all(is_concrete(x) for x in items):
            return (min if is_min else max)(items)
        cur = items[0]
        for x in items[1:]:
            ty = ops.num_ty(cur, x)
            c, t = to_term(cur, ty), to_term(x, ty)
            cur = from_term(z3.If((t < c) if is_min else (t > c), t, c), ty)
        return cur
    return f


def _b_sum(I, a, k, n):
    items = I.iter_concrete(a[0], n)
    cur = a[1] if len(a) > 1 else 0
    for x in items:
        cur = I.binop(ast.Add(), cur, x, n)
    return cur


def _b_hash(I, a, k, n):
    v = a[0]
    if isinstance(v, Obj):
        r = I.call_special(v, '__hash__', [])
        if r is not NotImplemented:
            return r
        return Sym(v.ref, 'int')
    if is_concrete(v):
        return hash(v)
    try:
        ty = ty_of(v)
        f = z3.Function('hash_' + str(sort_of(ty)), sort_of(ty), z3.IntSort())
        return Sym(f(to_term(v, ty)), 'int')
    except Undecided:
        I.undecided('hash of %r' % (v,), n)


def _b_print(I, a, k, n):
    return None


def _b_iter(I, a, k, n):
    return a[0]


def _b_type(I, a, k, n):
    v = a[0]
    if isinstance(v, Obj):
        return v.cls
    if isinstance(v, ExcVal):
        return v.cls
    if is_concrete(v):
        return type(v)
    I.undecided('type() of %r' % (v,), n)


def _b_float(I, a, k, n):
    v = a[0]
    if is_concrete(v):
        try:
            return float(v)
        except (ValueError, TypeError) as e:
            I.raise_(type(e))
    if isinstance(v, Sym) and v.ty == 'int':
        return Sym(z3.ToReal(v.t), 'real')
    if isinstance(v, Sym) and v.ty == 'real':
        return v
    I.undecided('float()', n)


def _b_frozenset(I, a, k, n):
    return _b_set(I, a, k, n)


def _b_callable(I, a, k, n):
    return isinstance(a[0], (Closure, BoundMethod, types.FunctionType, type)) or \
        (isinstance(a[0], Native) and type(a[0]).call is not Native.call)


_BUILTINS = {
    'len': _b_len, 'set': _b_set, 'list': _b_list, 'tuple': _b_tuple,
    'dict': _b_dict, 'int': _b_int, 'str': _b_str, 'bool': _b_bool,
    'isinstance': _b_isinstance, 'getattr': _b_getattr, 'setattr': _b_setattr,
    'hasattr': _b_hasattr, 'sorted': _b_sorted, 'any': _b_any, 'all': _b_all,
    'zip': _b_zip, 'enumerate': _b_enumerate, 'range': _b_range,
    'min': _b_minmax(True), 'max': _b_minmax(False), 'sum': _b_sum,
    'hash': _b_hash, 'print': _b_print, 'iter': _b_iter, 'type': _b_type,
    'float': _b_float, 'frozenset': _b_frozenset, 'callable': _b_callable,
}
