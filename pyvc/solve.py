"""Discharging obligations: z3 (wheel, in worker processes) first, cvc5 on
the same SMT-LIB text for whatever z3 leaves `unknown`."""
import multiprocessing
import os
import subprocess
import tempfile
import time

import z3

from pyvc.values import str_distinct_axioms


def obligation_smt2(ob):
    s = z3.Solver()
    for f in str_distinct_axioms():
        s.add(f)
    for f in ob.pc:
        s.add(f)
    for f in ob.hyps:
        s.add(f)
    s.add(z3.Not(ob.goal))
    for name, term in (ob.info.get('probes') or {}).items():
        if name == '__prefer__':
            for i, c in enumerate(term):
                s.add(z3.Bool('prefer!%d' % i) == c)
            continue
        s.add(z3.Const('probe!' + name, term.sort()) == term)
    return s.to_smt2()


def _solve_z3(args):
    text, timeout_ms, want_model = args[:3]
    ground = args[3] if len(args) > 3 else True
    t0 = time.time()
    try:
        ctx = z3.Context()
        s = z3.Solver(ctx=ctx)
        first = min(timeout_ms, 8000)
        s.set('timeout', first)
        s.from_string(text)
        r = s.check()
        res = str(r)
        model = None
        if res == 'sat' and want_model:
            m = s.model()
            model = {}
            for d in m.decls():
                if d.arity() == 0:
                    try:
                        model[d.name()] = str(m[d])
                    except Exception:
                        pass
        reason = s.reason_unknown() if res == 'unknown' else ''
        if res == 'unknown' and ground:
            # ground instantiation: unsat is a proof, sat only a candidate
            from pyvc import inst
            z3.main_ctx()
            fs = z3.parse_smt2_string(text)
            cand = None
            for rounds, cap in ((1, 400), (2, 1500)):
                qf, stats = inst.ground_vc(list(fs), rounds=rounds, cap=cap)
                if sum(len(f.sexpr()) for f in qf) > 1500000:
                    reason += '; ground(%d): too large' % rounds
                    break
                s2 = z3.Solver()
                s2.set('timeout', min(timeout_ms, 15000 if rounds == 1 else 5000))
                for f in qf:
                    s2.add(f)
                r2 = str(s2.check())
                if r2 == 'unsat':
                    return 'unsat', None, time.time() - t0, \
                        'ground instances: %r' % (stats,)
                if r2 == 'sat':
                    m = s2.model()
                    # prefer a model inside the replayable region
                    prefs = [z3.Bool('prefer!%d' % i) for i in range(64)
                             if 'prefer!%d' % i in text]
                    if prefs:
                        s2.push()
                        for pb in prefs:
                            s2.add(pb)
                        if str(s2.check()) == 'sat':
                            m = s2.model()
                        s2.pop()
                    model = {}
                    for d in m.decls():
                        try:
                            model[d.name()] = str(m[d])[:400]
                        except Exception:
                            pass
                    cand = (model, 'sat after %d round(s) of ground '
                            'instantiation %r' % (rounds, stats))
                    continue
                reason += '; ground(%d): %s' % (rounds, s2.reason_unknown())
                break
            if cand is not None and timeout_ms > first:
                # the instantiation is incomplete: give the full VC the rest
                # of the budget before calling it a candidate
                s3 = z3.Solver(ctx=ctx)
                s3.set('timeout', timeout_ms - first)
                s3.from_string(text)
                if str(s3.check()) == 'unsat':
                    return 'unsat', None, time.time() - t0, \
                        'second attempt (after a candidate)'
            if cand is not None:
                return 'candidate', cand[0], time.time() - t0, cand[1]
            if timeout_ms > first:
                s3 = z3.Solver(ctx=ctx)
                s3.set('timeout', timeout_ms - first)
                s3.from_string(text)
                r3 = str(s3.check())
                if r3 == 'unsat':
                    return 'unsat', None, time.time() - t0, 'second attempt'
                if r3 == 'sat':
                    return 'sat', {}, time.time() - t0, 'second attempt'
        return res, model, time.time() - t0, reason
    except Exception as e:        # solver crash is `unknown`, never a verdict
        return 'unknown', None, time.time() - t0, 'z3 error: %r' % (e,)


def _solve_cvc5(text, timeout_s):
    t0 = time.time()
    exe = '/usr/bin/cvc5'
    if not os.path.exists(exe):
        return 'unknown', time.time() - t0, 'cvc5 not installed'
    with tempfile.NamedTemporaryFile('w', suffix='.smt2', delete=False) as f:
        f.write('(set-logic ALL)\n' + text.replace('(check-sat)', '') +
                '\n(check-sat)\n')
        path = f.name
    try:
        p = subprocess.run([exe, '--tlimit=%d' % int(timeout_s * 1000),
                            '--full-saturate-quant', path],
                           capture_output=True, text=True,
                           timeout=timeout_s + 5)
        out = p.stdout.strip().splitlines()
        res = out[0].strip() if out else 'unknown'
        if res not in ('sat', 'unsat'):
            res = 'unknown'
        return res, time.time() - t0, (p.stderr or '')[:200]
    except Exception as e:
        return 'unknown', time.time() - t0, 'cvc5 error: %r' % (e,)
    finally:
        os.unlink(path)


class Result(object):
    __slots__ = ('ob', 'status', 'backend', 'seconds', 'model', 'reason',
                 'smt2')

    def __init__(self, ob):
        self.ob = ob
        self.status = 'unknown'
        self.backend = None
        self.seconds = 0.0
        self.model = None
        self.reason = ''
        self.smt2 = None


def discharge(obligations, timeout_s=30, procs=None, both=False, ground=True):
    """Returns list of Result.  status: 'proved' (unsat), 'refuted' (sat, with
    model), 'unknown'."""
    procs = procs or min(16, os.cpu_count() or 4)
    results = [Result(ob) for ob in obligations]
    texts = []
    for r in results:
        # trivial goals never reach a solver
        g = z3.simplify(r.ob.goal)
        if z3.is_true(g):
            r.status, r.backend = 'proved', 'simplifier'
            texts.append(None)
            continue
        r.smt2 = obligation_smt2(r.ob)
        texts.append(r.smt2)
    jobs = [(i, t) for i, t in enumerate(texts) if t is not None]
    if jobs:
        if len(jobs) == 1 or procs == 1:
            outs = []
            failed = {}
            for i, t in jobs:
                nm = results[i].ob.name
                if failed.get(nm, 0) >= 2:
                    # this obligation already failed twice in this script: do
                    # not spend the budget on every further instance of it
                    o = ('unknown', None, 0.0,
                         'not attempted: the same obligation already failed '
                         'twice in this script')
                else:
                    o = _solve_z3((t, int(timeout_s * 1000), True, ground))
                if o[0] != 'unsat':
                    failed[nm] = failed.get(nm, 0) + 1
                outs.append(o)
        else:
            ctx = multiprocessing.get_context('fork')
            with ctx.Pool(min(procs, len(jobs))) as pool:
                outs = pool.map(_solve_z3, [(t, int(timeout_s * 1000), True,
                                             ground)
                                            for _, t in jobs], chunksize=1)
        for (i, t), (res, model, secs, reason) in zip(jobs, outs):
            r = results[i]
            r.seconds = secs
            r.backend = 'z3'
            r.reason = reason
            if res == 'unsat':
                r.status = 'proved'
            elif res == 'sat':
                r.status = 'refuted'
                r.model = model
            elif res == 'candidate':
                r.status = 'candidate'
                r.model = model
            cvc_used = getattr(discharge, '_cvc_count', {})
            skip = (r.reason or '').startswith('not attempted') or \
                cvc_used.get(r.ob.name, 0) >= 2
            if (r.status == 'unknown' and not skip) or both:
                cvc_used[r.ob.name] = cvc_used.get(r.ob.name, 0) + 1
                discharge._cvc_count = cvc_used
                cres, csecs, creason = _solve_cvc5(t, min(timeout_s, 15))
                r.seconds += csecs
                if r.status == 'unknown' and cres == 'unsat':
                    r.status, r.backend = 'proved', 'cvc5'
                elif r.status == 'unknown' and cres == 'sat':
                    r.status, r.backend = 'refuted', 'cvc5'
                    r.reason = 'cvc5 sat (no model extracted)'
                elif both and cres in ('sat', 'unsat') and \
                        (cres == 'unsat') != (r.status == 'proved'):
                    r.status = 'unknown'
                    r.reason = 'solvers disagree: z3=%s cvc5=%s' % (res, cres)
    return results
