"""Python `re` patterns as z3 regular expressions.

accepted(pattern) is the language { s | re.search(pattern, s) is not None }
for patterns whose anchors appear only at the ends of top-level alternatives
(everything the schemas of the tree use); other shapes raise Undecided.
Python semantics of the anchors: `^` start of string, `$` end of string or
just before a trailing newline, `\\Z` end of string.  Flags are not supported
(none are used)."""
import re
try:
    import re._parser as sre_parse
    import re._constants as sre_c
except ImportError:                                   # python < 3.11
    import sre_parse
    import sre_constants as sre_c

import z3

from pyvc.core import Undecided


def _any():
    return z3.AllChar(z3.ReSort(z3.StringSort()))


def _sigma_star():
    return z3.Star(_any())


def _char(c):
    return z3.Re(z3.StringVal(chr(c)))


def _range(lo, hi):
    return z3.Range(z3.StringVal(chr(lo)), z3.StringVal(chr(hi)))


_CATS = {
    'CATEGORY_DIGIT': lambda: _range(ord('0'), ord('9')),
    'CATEGORY_WORD': lambda: z3.Union(_range(ord('a'), ord('z')),
                                      _range(ord('A'), ord('Z')),
                                      _range(ord('0'), ord('9')), _char(ord('_'))),
    'CATEGORY_SPACE': lambda: z3.Union(*[_char(ord(c)) for c in ' \t\n\r\f\v']),
}


def _set(items):
    neg = False
    parts = []
    for op, av in items:
        name = str(op)
        if name == 'NEGATE':
            neg = True
        elif name == 'LITERAL':
            parts.append(_char(av))
        elif name == 'RANGE':
            parts.append(_range(av[0], av[1]))
        elif name == 'CATEGORY':
            f = _CATS.get(str(av))
            if f is None:
                raise Undecided('regex category %s' % av)
            parts.append(f())
        else:
            raise Undecided('regex set item %s' % name)
    u = parts[0] if len(parts) == 1 else z3.Union(*parts)
    if neg:
        return z3.Intersect(_any(), z3.Complement(u))
    return u


def _seq(items):
    """regex of an anchor-free item sequence"""
    out = []
    for op, av in items:
        name = str(op)
        if name == 'LITERAL':
            out.append(_char(av))
        elif name == 'NOT_LITERAL':
            out.append(z3.Intersect(_any(), z3.Complement(_char(av))))
        elif name == 'ANY':
            # '.' without DOTALL: anything but a newline
            out.append(z3.Intersect(_any(), z3.Complement(_char(10))))
        elif name == 'IN':
            out.append(_set(av))
        elif name in ('MAX_REPEAT', 'MIN_REPEAT'):
            lo, hi, sub = av
            r = _seq(list(sub))
            if hi == sre_c.MAXREPEAT:
                if lo == 0:
                    out.append(z3.Star(r))
                elif lo == 1:
                    out.append(z3.Plus(r))
                else:
                    out.append(z3.Concat(z3.Loop(r, lo, lo), z3.Star(r)))
            else:
                out.append(z3.Loop(r, lo, hi))
        elif name == 'SUBPATTERN':
            out.append(_seq(list(av[3])))
        elif name == 'BRANCH':
            alts = [_seq(list(a)) for a in av[1]]
            out.append(alts[0] if len(alts) == 1 else z3.Union(*alts))
        elif name == 'AT':
            raise Undecided('anchor inside a regex')
        else:
            raise Undecided('regex construct %s' % name)
    if not out:
        return z3.Re(z3.StringVal(''))
    return out[0] if len(out) == 1 else z3.Concat(*out)


def _alternatives(parsed):
    items = list(parsed)
    if len(items) == 1 and str(items[0][0]) == 'BRANCH':
        return [list(a) for a in items[0][1][1]]
    return [items]


def accepted(pattern):
    """z3 regex of the strings on which re.search(pattern, s) succeeds"""
    parsed = sre_parse.parse(pattern)
    if parsed.state.flags & ~re.UNICODE:
        raise Undecided('regex flags')
    langs = []
    for alt in _alternatives(parsed):
        start = end = None
        if alt and str(alt[0][0]) == 'AT' and str(alt[0][1]) in (
                'AT_BEGINNING', 'AT_BEGINNING_STRING'):
            start = True
            alt = alt[1:]
        if alt and str(alt[-1][0]) == 'AT' and str(alt[-1][1]) in (
                'AT_END', 'AT_END_STRING'):
            end = str(alt[-1][1])
            alt = alt[:-1]
        body = _seq(alt)
        parts = []
        if not start:
            parts.append(_sigma_star())
        parts.append(body)
        if end is None:
            parts.append(_sigma_star())
        elif end == 'AT_END':
            parts.append(z3.Option(_char(10)))
        langs.append(parts[0] if len(parts) == 1 else z3.Concat(*parts))
    return langs[0] if len(langs) == 1 else z3.Union(*langs)


def schema_accepts(schema, s):
    """z3 Bool: the string term s passes the string-level keywords of a JSON
    schema dict (pattern, minLength, maxLength, enum)"""
    fs = []
    if 'pattern' in schema:
        fs.append(z3.InRe(s, accepted(schema['pattern'])))
    if 'minLength' in schema:
        fs.append(z3.Length(s) >= schema['minLength'])
    if 'maxLength' in schema:
        fs.append(z3.Length(s) <= schema['maxLength'])
    if 'enum' in schema:
        fs.append(z3.Or(*[s == z3.StringVal(x) for x in schema['enum']
                          if isinstance(x, str)]))
    return z3.And(*fs) if fs else z3.BoolVal(True)
