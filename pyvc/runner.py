"""Running a property check: explore proof scripts, discharge obligations,
vacuity guards, known findings, replay, evidence, verdict."""
import json
import os
import sys
import time
import traceback

import z3

from pyvc.core import Explorer, Undecided, Obligation
from pyvc import solve, source

VERIF = os.path.dirname(os.path.dirname(os.path.abspath(__file__)))


class Check(object):
    def __init__(self, prop, tier='quick', seed=0):
        self.prop = prop
        self.tier = tier
        self.seed = seed
        self.t0 = time.time()
        self.scripts = []            # (name, fn, expected_min_obligations)
        self.extra = []              # direct obligations (lemmas)
        self.results = []
        self.undecided = []
        self.functions = set()
        self.assumptions = []
        self.trusted = []
        self.contracts_hit = []
        self.bounded = []
        self.replayers = {}          # obligation-name prefix -> fn(result)
        self.paths = 0
        self.feas_time = 0.0
        self.notes = []
        self.canaries = []           # (name, fn) scripts that must be refuted
        self.timeout = 30 if tier == 'quick' else 180
        self.uncontracted = {}
        self.fallbacks = []          # bounded stand-ins run when the proof is incomplete

    def script(self, name, fn, functions=()):
        self.scripts.append((name, fn))
        self.functions.update(functions)

    def canary(self, name, fn):
        self.canaries.append((name, fn))

    def lemma(self, name, goal, hyps=(), kind='A', info=None):
        self.extra.append(Obligation(name, kind, [], list(hyps), goal, (),
                                     info))

    def _trusted_base(self):
        proved = set(f.split(':', 1)[1] for f in self.functions if ':' in f)
        out = list(self.trusted)
        for c in sorted(self.contracts_hit):
            qual = c.split('.', 1)[1] if c.startswith('placement.') else c
            tail = c.rsplit('.', 2)
            short = '.'.join(tail[-2:]) if len(tail) >= 2 else c
            last = c.rsplit('.', 1)[-1]
            if any(p == last or p.endswith('.' + last) and p in c
                   for p in proved):
                continue
            kind = 'assumed contract' if c.startswith('placement.') \
                else 'library stub'
            out.append('%s (%s)' % (c, kind))
        return out

    def assume(self, *ids):
        for i in ids:
            if i not in self.assumptions:
                self.assumptions.append(i)

    def fallback(self, name, fn, bound, always=False):
        """fn() -> dict(reproduced=bool, ...): bounded search on the real code
        (never counted as proved); run when some obligation is undecided, and
        always in the thorough tier."""
        self.fallbacks.append((name, fn, bound, always))

    def replayer(self, prefix, fn):
        self.replayers[prefix] = fn

    # ------------------------------------------------------------------ run
    def _explore(self, scripts, bucket):
        for name, fn in scripts:
            ex = Explorer()
            ex.check_name = name
            try:
                ex.explore(fn)
            except Undecided as u:
                self.undecided.append('%s: %s' % (name, u))
            except Exception:
                tb = traceback.format_exc().splitlines()
                self.undecided.append('%s: engine error: %s\n%s' % (
                    name, tb[-1], '\n'.join(tb[-14:])))
            self.paths += ex.paths
            self.feas_time += ex.feas_time
            if os.environ.get('PYVC_DEBUG'):
                print('  script %-60s paths=%d obligations=%d %.1fs' % (
                    name, ex.paths, len(ex.obligations), time.time() - self.t0))
            for ob in ex.obligations:
                ob.info.setdefault('script', name)
                bucket.append(ob)

    def run(self):
        """Scripts are explored and their obligations discharged in worker
        processes (one script per task, fork start method so that closures
        and imported repo modules are shared)."""
        import multiprocessing
        global _CURRENT
        _CURRENT = self
        tasks = [('script', i) for i in range(len(self.scripts))] + \
            [('canary', i) for i in range(len(self.canaries))]
        results = []
        if self.extra:
            self._absorb(_discharge_bucket(self, list(self.extra), 'lemmas'))
        procs = int(os.environ.get('PYVC_PROCS', '0')) or min(
            16, os.cpu_count() or 4)
        if len(tasks) <= 1 or procs == 1:
            outs = [_worker(t) for t in tasks]
        else:
            import concurrent.futures as cf
            ctx = multiprocessing.get_context('fork')
            outs = []
            budget = float(os.environ.get('PYVC_SCRIPT_TIMEOUT', '900'))
            ex_ = cf.ProcessPoolExecutor(max_workers=min(procs, len(tasks)),
                                         mp_context=ctx)
            futs = [(t, ex_.submit(_worker, t)) for t in tasks]
            for t, f in futs:
                nm = (self.scripts if t[0] == 'script' else self.canaries)[t[1]][0]
                try:
                    outs.append(f.result(timeout=budget))
                except Exception as e:       # crashed / timed-out worker
                    outs.append({'results': [], 'paths': 0, 'feas_time': 0.0,
                                 'notes': [], 'canaries': [], 'files': {},
                                 'undecided': ['%s: worker failed: %s: %s' % (
                                     nm, type(e).__name__, str(e)[:200])]})
            ex_.shutdown(wait=False, cancel_futures=True)
        for o in outs:
            self._absorb(o)
        return self.finish()

    def _absorb(self, o):
        self.results.extend(o['results'])
        self.undecided.extend(o['undecided'])
        self.paths += o['paths']
        self.feas_time += o['feas_time']
        self.notes.extend(o['notes'])
        if not hasattr(self, 'canary_results'):
            self.canary_results = []
        self.canary_results.extend(o['canaries'])
        for k, v in o.get('files', {}).items():
            source.files_read[k] = v
        for c in o.get('contracts_hit', []):
            if c not in self.contracts_hit:
                self.contracts_hit.append(c)
        if not hasattr(self, 'vac_bad'):
            self.vac_bad, self.vac_alive = set(), set()
        self.vac_bad.update(o.get('vacuous_only', ()))
        self.vac_alive.update(o.get('alive', ()))

    # -------------------------------------------------------------- verdict
    def finish(self):
        known = load_known_findings().get(self.prop, [])
        vac = sorted(getattr(self, 'vac_bad', set()) -
                     getattr(self, 'vac_alive', set()))
        for nm in vac:
            msg = ('%s was proved only on paths whose own hypotheses are '
                   'contradictory (vacuous proof)' % nm)
            why = [r for p_, r in getattr(self, 'unreachable_ok', {}).items()
                   if nm.startswith(p_)]
            if why:
                self.notes.append('%s is generated only on paths that are '
                                  'unreachable in the model: %s' % (nm, why[0]))
            elif os.environ.get('PYVC_VACUITY', 'strict') == 'strict':
                self.undecided.append(msg)
            else:
                self.notes.append(msg)
        violations = []      # (result, replay path, reproduced)
        known_hits = []
        unknown = []
        aux_failed = []
        replay_cache = {}
        for r in self.results:
            if r.status == 'proved':
                continue
            kf = match_known(known, r)
            if kf is not None:
                known_hits.append((kf, r))
                continue
            # a replay (model-guided concrete run of the real code) decides
            # whether a failed obligation is a violation
            if r.ob.name not in replay_cache:
                replay_cache[r.ob.name] = self.replay(r)
            path, reproduced = replay_cache[r.ob.name]
            if reproduced:
                violations.append((r, path, True))
            elif r.status == 'refuted' and r.ob.kind in ('T', 'C', 'G'):
                violations.append((r, path, False))
            elif r.status == 'unknown':
                unknown.append(r)
            else:
                aux_failed.append(r)
        lines = []
        exit_code = 0
        for kf, r in known_hits:
            line = 'KNOWN-FINDING: property=%s %s' % (self.prop, kf['what'])
            if line not in lines:
                lines.append(line)
        reported = set()
        for r, path, reproduced in violations:
            if path in reported:
                continue
            reported.add(path)
            lines.append('VIOLATION property=%s replay=%s%s' % (
                self.prop, path, '' if reproduced else ' no-failing-input-found'))
            exit_code = 1
        incomplete = bool(unknown or aux_failed or self.undecided)
        if exit_code == 0:
            for name, fn, bound, always in self.fallbacks:
                if not (always or incomplete or self.tier == 'thorough'):
                    continue
                if os.environ.get('PYVC_PROOF_ONLY'):
                    continue
                t1 = time.time()
                try:
                    out = fn()
                except Exception:
                    out = {'reproduced': False,
                           'error': traceback.format_exc(limit=5)}
                rec = {'name': name, 'bound': bound, 'level': 'bounded',
                       'seconds': round(time.time() - t1, 1),
                       'result': _jsonable(out),
                       'why': 'proof incomplete' if incomplete else
                              ('every run' if always else 'thorough tier')}
                self.bounded.append(rec)
                kf_all = {e['id']: e for e in json.load(open(os.path.join(
                    VERIF, 'known_findings.json'))).get('findings', [])} \
                    if os.path.exists(os.path.join(VERIF, 'known_findings.json')) else {}
                for fid in out.get('known_hits', []) or []:
                    if fid in kf_all and self.prop in kf_all[fid]['properties']:
                        line = 'KNOWN-FINDING: property=%s %s' % (
                            self.prop, kf_all[fid]['what'])
                        if line not in lines:
                            lines.append(line)
                    else:
                        # the stand-in recognised the witness of a finding
                        # that known_findings.json does not (or no longer)
                        # list for this property: it is a violation
                        out = dict(out, reproduced=True, witness={
                            'observed': 'the failure pattern of finding %s '
                            'occurs but the finding is not listed as open'
                            % fid})
                if out.get('reproduced'):
                    os.makedirs(os.path.join(VERIF, 'replays'), exist_ok=True)
                    path = os.path.join(VERIF, 'replays', '%s-%s.json' % (
                        self.prop, name))
                    with open(path, 'w') as f:
                        json.dump({'property': self.prop,
                                   'obligation': 'bounded stand-in ' + name,
                                   'undecided': [u[:300] for u in self.undecided],
                                   'failed_obligations': sorted(set(
                                       r.ob.name for r in unknown + aux_failed)),
                                   'replay': _jsonable(out), 'reproduced': True},
                                  f, indent=1, default=str)
                    lines.append('VIOLATION property=%s replay=%s' % (
                        self.prop, path))
                    exit_code = 1
                    break
        if exit_code == 0 and incomplete:
            exit_code = 2
        self.n_violation_lines = sum(1 for l in lines if l.startswith('VIOLATION'))
        self.write_evidence([v[0] for v in violations], known_hits, unknown,
                            aux_failed)
        for l in lines:
            print(l)
        n = len(self.results)
        proved = sum(1 for r in self.results if r.status == 'proved')
        print('%s: %d obligations, %d discharged, %d violated, %d known '
              'findings, %d unknown, %d failed without witness, %d paths, '
              '%.1fs' % (self.prop, n, proved, len(violations),
                         len(known_hits), len(unknown), len(aux_failed),
                         self.paths, time.time() - self.t0))
        for u in self.undecided:
            print("UNDECIDED: " + (u if os.environ.get("PYVC_DEBUG")
                                   else u.splitlines()[0][:300]))
        if os.environ.get('PYVC_DEBUG'):
            for r in self.results:
                print('  %-40s %-8s %-5s %.2fs' % (r.ob.name, r.status,
                                                   r.backend, r.seconds))
        for r in unknown:
            print('UNKNOWN: %s (%s)' % (r.ob.name, r.reason[:200]))
        for r in aux_failed:
            print('FAILED-NO-WITNESS: %s (%s; %s) %s' % (
                r.ob.name, r.status, r.reason[:80],
                {k: v for k, v in r.ob.info.items() if k != 'probes'}))
        if n == 0:
            print('UNDECIDED: no obligations were generated')
            exit_code = max(exit_code, 2)
        return exit_code

    def replay(self, r):
        """(path, reproduced)"""
        os.makedirs(os.path.join(VERIF, 'replays'), exist_ok=True)
        path = os.path.join(VERIF, 'replays', '%s-%s.json' % (
            self.prop, r.ob.name.replace('/', '_')))
        rec = {'property': self.prop, 'obligation': r.ob.name,
               'kind': r.ob.kind, 'info': _jsonable(r.ob.info),
               'solver': r.backend, 'solver_status': r.status,
               'model': r.model, 'reproduced': False}
        reproduced = False
        for prefix, fn in self.replayers.items():
            if os.environ.get('PYVC_PROOF_ONLY'):
                break       # selftest/mutate.py: kill power of the proofs alone
            if r.ob.name.startswith(prefix):
                try:
                    out = fn(r)
                    rec['replay'] = _jsonable(out)
                    reproduced = bool(out and out.get('reproduced'))
                except Exception:
                    rec['replay_error'] = traceback.format_exc(limit=6)
                break
        rec['reproduced'] = reproduced
        with open(path, 'w') as f:
            json.dump(rec, f, indent=1, default=str)
        return path, reproduced

    # ------------------------------------------------------------- evidence
    def write_evidence(self, violations, known_hits, unknown, aux_failed):
        n = len(self.results)
        proved = [r for r in self.results if r.status == 'proved']
        by_backend = {}
        secs = {}
        for r in self.results:
            b = r.backend or 'none'
            by_backend[b] = by_backend.get(b, 0) + (1 if r.status == 'proved' else 0)
            secs[b] = secs.get(b, 0.0) + r.seconds
        samples = []
        for r in self.results[:3] + self.results[-2:]:
            samples.append({
                'obligation': r.ob.name, 'kind': r.ob.kind,
                'status': r.status, 'backend': r.backend,
                'goal': str(r.ob.goal)[:400],
                'path_condition_size': len(r.ob.pc),
                'hypotheses': len(r.ob.hyps)})
        names = {}
        for r in self.results:
            names.setdefault(r.ob.name, [0, 0])
            names[r.ob.name][0] += 1
            names[r.ob.name][1] += 1 if r.status == 'proved' else 0
        ev = {
            'property_id': self.prop,
            'tier': self.tier,
            'seed': self.seed,
            'level': 'proof',
            'wall_s': round(time.time() - self.t0, 2),
            'violations': getattr(self, 'n_violation_lines', len(violations)),
            'assumptions': self.assumptions,
            'coverage': {
                'obligations': n - len(known_hits),
                'discharged': len(proved),
                'obligations_refuted_by_known_findings': len(known_hits),
                'checker_cmd': 'pyvc (AST symbolic executor over /repo '
                               'sources) + z3 %s / cvc5 1.0.3'
                               % z3.get_version_string(),
                # sidecar contracts / stubs that call sites used instead of
                # a body: functions of the tree whose body this check does not
                # prove itself are ASSUMED contracts here (several are proved
                # by another check, see DESIGN section 4); library entries are
                # A-lib
                'trusted_base': self._trusted_base(),
                'by_backend': by_backend,
                'solver_seconds': {k: round(v, 2) for k, v in secs.items()},
                'feasibility_seconds': round(self.feas_time, 2),
                'paths_explored': self.paths,
                'functions_under_contract': sorted(self.functions),
                'source_files': {k.replace(source.REPO + '/', ''): v
                                 for k, v in sorted(source.files_read.items())},
                'repo_head': source.repo_head(),
                'obligation_names': {k: {'instances': v[0], 'proved': v[1]}
                                     for k, v in sorted(names.items())},
                'refuted_known_findings': sorted(set(
                    kf['id'] for kf, r in known_hits)),
                'refuted_unlisted': sorted(set(r.ob.name for r in violations)),
                'unknown': sorted(set(r.ob.name for r in unknown)),
                'auxiliary_failed': sorted(set(r.ob.name for r in aux_failed)),
                'undecided': [u.splitlines()[0][:300] for u in self.undecided],
                'canaries': [{'name': c[0], 'refuted_as_expected': c[1],
                              'obligations': c[2]}
                             for c in getattr(self, 'canary_results', [])],
                'bounded': self.bounded,
                'notes': self.notes,
                'samples': samples,
            },
        }
        evdir = os.environ.get('VERIF_EVIDENCE_DIR') or os.path.join(VERIF, 'evidence')
        os.makedirs(evdir, exist_ok=True)
        with open(os.path.join(evdir, self.prop + '.json'), 'w') as f:
            json.dump(ev, f, indent=1, default=str)


_CURRENT = None


class _Ob(object):
    """Picklable summary of an obligation (z3 terms dropped)."""
    __slots__ = ('name', 'kind', 'info', 'goal_text', 'npc', 'nhyps')

    def __init__(self, ob):
        self.name = ob.name
        self.kind = ob.kind
        self.info = _jsonable({k: v for k, v in ob.info.items()
                               if k != 'probes'})
        self.goal_text = str(ob.goal)[:400]
        self.npc = len(ob.pc)
        self.nhyps = len(ob.hyps)

    # attributes read by finish() / write_evidence()
    @property
    def goal(self):
        return self.goal_text

    @property
    def pc(self):
        return [None] * self.npc

    @property
    def hyps(self):
        return [None] * self.nhyps


class _Res(object):
    __slots__ = ('ob', 'status', 'backend', 'seconds', 'model', 'reason')

    def __init__(self, r):
        self.ob = _Ob(r.ob)
        self.status = r.status
        self.backend = r.backend
        self.seconds = r.seconds
        self.model = r.model
        self.reason = r.reason


_sym_cache = {}


def _symbols(t):
    key = t.get_id()
    if key in _sym_cache:
        return _sym_cache[key]
    out = set()
    seen = set()
    stack = [t]
    while stack:
        x = stack.pop()
        i = x.get_id()
        if i in seen:
            continue
        seen.add(i)
        if z3.is_quantifier(x):
            stack.append(x.body())
            continue
        if z3.is_app(x):
            d = x.decl()
            if d.kind() == z3.Z3_OP_UNINTERPRETED:
                out.add(d.name())
            stack.extend(x.children())
    _sym_cache[key] = out
    return out


def _slice(ob):
    """Cone of influence: keep the path-condition conjuncts connected (through
    shared uninterpreted symbols) to the goal or to each other.  Dropping
    hypotheses only weakens what is assumed: sound."""
    if isinstance(ob.goal, bool) or len(ob.pc) < 4:
        return ob
    rel = set(_symbols(ob.goal))
    if z3.is_false(z3.simplify(ob.goal)):
        return ob                       # infeasibility arguments need it all
    pcs = [(f, _symbols(f)) for f in ob.pc]
    keep = [False] * len(pcs)
    changed = True
    while changed:
        changed = False
        for i, (f, sy) in enumerate(pcs):
            if not keep[i] and (sy & rel):
                keep[i] = True
                rel |= sy
                changed = True
    if all(keep):
        return ob
    return Obligation(ob.name, ob.kind, [f for (f, _), k in zip(pcs, keep) if k],
                      ob.hyps, ob.goal, ob.path, ob.info)


def _dedupe(obs):
    # (cone-of-influence slicing was tried and dropped: facts reach the goal
    # through the quantified hypotheses, so syntactic slicing loses proofs)
    seen = {}
    uniq = []
    for ob in obs:
        key = (ob.name, hash(tuple(f.sexpr() for f in ob.pc)),
               hash(tuple(f.sexpr() for f in ob.hyps)),
               z3.simplify(ob.goal).sexpr()
               if not isinstance(ob.goal, bool) else str(ob.goal))
        if key in seen:
            continue
        seen[key] = ob
        uniq.append(ob)
    return uniq


def _discharge_bucket(chk, obs, label, is_canary_script=False):
    out = {'results': [], 'undecided': [], 'paths': 0, 'feas_time': 0.0,
           'notes': [], 'canaries': [], 'files': dict(source.files_read)}
    uniq = _dedupe(obs)
    rs = solve.discharge(uniq, chk.timeout, procs=1,
                         both=(chk.tier == 'thorough'))
    if is_canary_script:
        bad = [r for r in rs if r.ob.kind == 'canary' and r.status == 'proved']
        n_can = sum(1 for r in rs if r.ob.kind == 'canary')
        out['canaries'].append((label, not bad and n_can > 0, n_can))
        if bad or n_can == 0:
            out['undecided'].append(
                'canary %s: a deliberately false postcondition was proved '
                '(VC vacuous) or not generated' % label)
        return out
    out['results'] = [_Res(r) for r in rs]
    # vacuity guard: `False` must not follow from the hypotheses of a T/C/G
    cans = {}
    for ob in uniq:
        if ob.kind not in ('T', 'C', 'G'):
            continue
        # consistency of the hypotheses (contracts, invariants, axioms) on
        # their own: an infeasible *path* is legitimate, contradictory
        # hypotheses are not
        key = hash(tuple(f.sexpr() for f in ob.hyps))
        if key not in cans and ob.hyps:
            cans[key] = Obligation('vacuity(%s)' % ob.name, 'canary', [],
                                   ob.hyps, z3.BoolVal(False), ob.path,
                                   {'for': ob.name})
    out['vacuous_only'], out['alive'] = _vacuity_audit(uniq, rs)
    limit = 6
    vs = sorted(cans.values(), key=lambda o: -len(o.hyps))[:limit]
    for r in solve.discharge(vs, 2, procs=1, ground=False):
        vac = (r.status == 'proved')
        out['canaries'].append((r.ob.name, not vac, 1))
        if vac:
            out['undecided'].append('hypotheses of %s are contradictory: the '
                                    'contracts it uses are inconsistent'
                                    % r.ob.info['for'])
    return out


def _vacuity_audit(uniq, rs):
    """Names of obligations that were proved only in contexts (path condition
    + hypotheses) that are contradictory on their own: such a proof says
    nothing about the code.  An infeasible path is legitimate (branch
    feasibility is decided under a time limit), so a name counts only if
    *every* instance of it was proved that way; obligations whose goal is
    literally False (``this path is unreachable``) are exempt."""
    by_name = {}
    for ob, r in zip(uniq, rs):
        if ob.kind == 'canary' or r.status != 'proved' or \
                r.backend == 'simplifier':
            continue
        g = ob.goal
        if isinstance(g, bool):
            if not g:
                continue
        elif z3.is_false(z3.simplify(g)):
            continue
        by_name.setdefault(ob.name, []).append(ob)
    cache = {}
    bad, live = [], []
    for name, obs in sorted(by_name.items()):
        alive = False
        for ob in obs[:8]:
            key = (hash(tuple(f.sexpr() for f in ob.pc)),
                   hash(tuple(f.sexpr() for f in ob.hyps)))
            if key not in cache:
                probe = Obligation('context(%s)' % name, 'canary', ob.pc,
                                   ob.hyps, z3.BoolVal(False), ob.path, {})
                res = solve.discharge([probe], 2, procs=1, ground=False)[0]
                cache[key] = (res.status == 'proved')
            if not cache[key]:
                alive = True
                break
        if alive or len(obs) > 8:
            live.append(name)
        else:
            bad.append(name)
    return bad, live


def _worker(task):
    kind, idx = task
    chk = _CURRENT
    name, fn = (chk.scripts if kind == 'script' else chk.canaries)[idx]
    ex = Explorer()
    ex.check_name = name
    und = []
    t0 = time.time()
    try:
        ex.explore(fn)
    except Undecided as u:
        und.append('%s: %s' % (name, u))
    except Exception:
        tb = traceback.format_exc().splitlines()
        und.append('%s: engine error: %s\n%s' % (name, tb[-1],
                                                 '\n'.join(tb[-14:])))
    for ob in ex.obligations:
        ob.info.setdefault('script', name)
    keep = getattr(chk, 'keep_prefixes', None)
    if keep:
        suf = getattr(chk, 'keep_suffixes', None) or ()
        ex.obligations = [o for o in ex.obligations
                          if o.name.startswith(keep) or
                          (suf and o.name.endswith(suf))]
    out = _discharge_bucket(chk, ex.obligations, name,
                            is_canary_script=(kind == 'canary'))
    out['undecided'] = und + out['undecided']
    out['contracts_hit'] = sorted(getattr(ex, 'contracts_hit', ()))
    out['paths'] = ex.paths
    out['feas_time'] = ex.feas_time
    if os.environ.get('PYVC_DEBUG'):
        print('  script %-55s paths=%d obligations=%d %.1fs' % (
            name, ex.paths, len(ex.obligations), time.time() - t0))
    return out


def _jsonable(x):
    try:
        json.dumps(x)
        return x
    except Exception:
        if isinstance(x, dict):
            return {str(k): _jsonable(v) for k, v in x.items()}
        if isinstance(x, (list, tuple)):
            return [_jsonable(v) for v in x]
        return str(x)


def load_known_findings():
    p = os.path.join(VERIF, 'known_findings.json')
    if not os.path.exists(p):
        return {}
    with open(p) as f:
        data = json.load(f)
    out = {}
    for e in data.get('findings', []):
        for prop in e.get('properties', []):
            out.setdefault(prop, []).append(e)
    return out


def match_known(known, r):
    for kf in known:
        for pat in kf.get('obligations', []):
            if r.ob.name == pat or (pat.endswith('*') and
                                    r.ob.name.startswith(pat[:-1])):
                sigs = kf.get('signatures')
                if sigs is None or r.ob.info.get('signature') in sigs:
                    return kf
    return None


def main(build):
    """Entry point used by props/Cxx.py: build(check) registers scripts."""
    import argparse
    ap = argparse.ArgumentParser()
    ap.add_argument('--tier', default=os.environ.get('VERIF_TIER', 'quick'))
    ap.add_argument('--prop', default=None)
    args = ap.parse_args()
    seed = int(os.environ.get('VERIF_SEED', '0') or 0)
    prop = args.prop
    try:
        chk = build(args.tier, seed)
        code = chk.run()
    except SystemExit:
        raise
    except Exception:
        traceback.print_exc()
        sys.exit(3)
    sys.exit(code)
