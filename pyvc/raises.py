"""Static exception-flow analysis of the working tree: for every function of
the `placement` package, an over-approximation of the set of exception
classes that can leave it through explicit `raise` statements, computed
bottom-up over the call graph (fixpoint), honouring try/except.

Used to cross-check the `raises` clause of sidecar contracts (the contract
must list every class the body can raise), mechanically on every run.

Over-approximation: a call `x.m(...)` on an unknown receiver is resolved to
every method named `m` defined in the package.  Not covered: exceptions
raised by the language or by libraries (KeyError, ValueError from int(), ...);
those are the symbolic executor's business at handler level, and A-nofault /
A-lib otherwise.
"""
import ast
import importlib
import inspect
import os
import pkgutil
import sys
import types

from pyvc import source


class Fn(object):

    def __init__(self, module, qualname, node, globals_, cls):
        self.module = module
        self.qualname = qualname
        self.node = node
        self.globals = globals_
        self.cls = cls
        self.raises = set()


class Analysis(object):
    def __init__(self, package='placement'):
        self.package = package
        self.fns = {}                 # (module, qualname) -> Fn
        self.by_name = {}             # method name -> [Fn]
        self.library = {}             # dotted name -> [classes]
        self._load()
        self._fixpoint()

    def _load(self):
        pkg = importlib.import_module(self.package)
        root = os.path.dirname(pkg.__file__)
        for dirpath, dirs, files in os.walk(root):
            if '/tests' in dirpath or '/migrations' in dirpath or \
                    '/alembic' in dirpath:
                continue
            for f in files:
                if not f.endswith('.py'):
                    continue
                path = os.path.join(dirpath, f)
                rel = os.path.relpath(path, os.path.dirname(root))[:-3]
                modname = rel.replace(os.sep, '.')
                if modname.endswith('.__init__'):
                    modname = modname[:-9]
                try:
                    mod = importlib.import_module(modname)
                except Exception:
                    continue
                tree, _ = source.parse_file(path)
                self._index(tree, modname, mod.__dict__, [], None)

    def _index(self, node, modname, globals_, qual, cls):
        for child in ast.iter_child_nodes(node):
            if isinstance(child, (ast.FunctionDef, ast.AsyncFunctionDef)):
                q = '.'.join(qual + [child.name])
                fn = Fn(modname, q, child, globals_, cls)
                key = (modname, q)
                if key in self.fns:
                    # overloads (version handlers): merge by unioning later
                    n = 2
                    while (modname, '%s#%d' % (q, n)) in self.fns:
                        n += 1
                    key = (modname, '%s#%d' % (q, n))
                self.fns[key] = fn
                self.by_name.setdefault(child.name, []).append(fn)
                self._index(child, modname, globals_,
                            qual + [child.name, '<locals>'], cls)
            elif isinstance(child, ast.ClassDef):
                self._index(child, modname, globals_, qual + [child.name],
                            child.name)
            else:
                self._index(child, modname, globals_, qual, cls)

    # ------------------------------------------------------------------
    def resolve_class(self, expr, fn):
        """Real exception class named by an expression, or None."""
        try:
            v = self._eval_static(expr, fn)
        except Exception:
            return None
        if isinstance(v, type) and issubclass(v, BaseException):
            return v
        return None

    def _eval_static(self, expr, fn):
        if isinstance(expr, ast.Name):
            if expr.id in fn.globals:
                return fn.globals[expr.id]
            import builtins
            return getattr(builtins, expr.id)
        if isinstance(expr, ast.Attribute):
            return getattr(self._eval_static(expr.value, fn), expr.attr)
        if isinstance(expr, ast.Call):
            return self._eval_static(expr.func, fn)
        if isinstance(expr, ast.Subscript):
            base = self._eval_static(expr.value, fn)
            if isinstance(expr.slice, ast.Constant):
                return base[expr.slice.value]
        raise LookupError

    def local_types(self, fn):
        """name -> class name, from `x = Cls(...)` / `x = mod.Cls.get_by_*(...)`
        assignments inside the function (flow-insensitive; only when every
        assignment to the name agrees)."""
        if hasattr(fn, '_ltypes'):
            return fn._ltypes
        seen = {}
        for n in ast.walk(fn.node):
            if isinstance(n, ast.Assign) and len(n.targets) == 1 and \
                    isinstance(n.targets[0], ast.Name) and \
                    isinstance(n.value, ast.Call):
                name = n.targets[0].id
                cls = None
                try:
                    v = self._eval_static(n.value.func, fn)
                    if isinstance(v, type):
                        cls = v
                    elif isinstance(v, types.MethodType) and \
                            isinstance(v.__self__, type):
                        cls = v.__self__          # classmethod: returns cls()
                except Exception:
                    cls = None
                seen.setdefault(name, set()).add(cls)
            elif isinstance(n, (ast.Assign, ast.AugAssign, ast.For, ast.With)):
                for t in ast.walk(n):
                    if isinstance(t, ast.Name) and isinstance(t.ctx, ast.Store):
                        if not (isinstance(n, ast.Assign) and len(n.targets) == 1
                                and n.targets[0] is t and
                                isinstance(n.value, ast.Call)):
                            seen.setdefault(t.id, set()).add(None)
        fn._ltypes = {k: next(iter(v)) for k, v in seen.items()
                      if len(v) == 1 and None not in v}
        return fn._ltypes

    def _methods_of_cache(self, cls, name):
        """Methods of an attribute cache class, with `self._not_found`
        resolved to that class's own attribute."""
        key = ('cache', cls.__name__, name)
        if key not in self.fns:
            base = self._methods_of(cls, name)
            nf = None
            for c in cls.__mro__:
                if '_not_found' in c.__dict__:
                    nf = c.__dict__['_not_found']
                    break
            f = Fn('cache', '%s.%s' % (cls.__name__, name), ast.parse('pass').body[0],
                   {}, cls.__name__)
            f.raises = {nf} if (nf and base and name in (
                'id_from_string', 'string_from_id', 'all_from_string')) else set()
            f.node = ast.parse('def _x():\n    pass').body[0]
            self.fns[key] = f
        return [self.fns[key]]

    def _methods_of(self, cls, name):
        out = []
        for c in cls.__mro__:
            if name in c.__dict__:
                raw = c.__dict__[name]
                t = self._fn_of_real(raw)
                return t or []
        return out

    def callees(self, call, fn):
        f = call.func
        out = []
        if isinstance(f, ast.Attribute) and isinstance(f.value, ast.Attribute) \
                and f.value.attr in ('rc_cache', 'trait_cache', 'ct_cache'):
            cname = {'rc_cache': 'ResourceClassCache', 'trait_cache': 'TraitCache',
                     'ct_cache': 'ConsumerTypeCache'}[f.value.attr]
            import placement.attribute_cache as acache
            return self._methods_of_cache(getattr(acache, cname), f.attr)
        if isinstance(f, ast.Attribute) and isinstance(f.value, ast.Name) and \
                f.value.id in ('rc_cache', 'trait_cache', 'ct_cache'):
            cname = {'rc_cache': 'ResourceClassCache', 'trait_cache': 'TraitCache',
                     'ct_cache': 'ConsumerTypeCache'}[f.value.id]
            import placement.attribute_cache as acache
            return self._methods_of_cache(getattr(acache, cname), f.attr)
        if isinstance(f, ast.Attribute) and isinstance(f.value, ast.Name):
            recv = f.value.id
            if recv in ('self', 'cls') and fn.cls:
                own = [x for x in self.by_name.get(f.attr, [])
                       if x.cls == fn.cls and x.module == fn.module]
                if own:
                    return own
            lt = self.local_types(fn).get(recv)
            if lt is not None:
                return self._methods_of(lt, f.attr)
        try:
            v = self._eval_static(f, fn)
        except Exception:
            v = None
        if v is not None:
            target = self._fn_of_real(v)
            if target is not None:
                return target
        if isinstance(f, ast.Attribute):
            return list(self.by_name.get(f.attr, []))
        if isinstance(f, ast.Name):
            # nested function defined in the same scope
            return [x for x in self.by_name.get(f.id, [])
                    if x.module == fn.module]
        return out

    def _fn_of_real(self, v):
        if isinstance(v, (staticmethod, classmethod)):
            v = v.__func__
        if isinstance(v, types.MethodType):
            v = v.__func__
        if isinstance(v, type):
            mod = getattr(v, '__module__', '')
            if mod.startswith(self.package):
                init = [x for x in self.by_name.get('__init__', [])
                        if x.cls == v.__name__ and x.module == mod]
                return init
            return []
        if isinstance(v, types.FunctionType):
            v = source.unwrap(v)
            if not source.is_repo_function(v):
                return [] if not hasattr(v, '__wrapped__') else None
            try:
                node, q, path = source.get_ast(v)
            except LookupError:
                return None
            return [x for x in self.fns.values() if x.node is node]
        return None

    def _stmt_raises(self, stmts, fn, handling):
        out = set()
        for s in stmts:
            out |= self._node_raises(s, fn, handling)
        return out

    def _node_raises(self, node, fn, handling):
        out = set()
        if isinstance(node, (ast.FunctionDef, ast.AsyncFunctionDef,
                             ast.ClassDef, ast.Lambda)):
            return out
        if isinstance(node, ast.Raise):
            if node.exc is None:
                return set(handling)
            c = self.resolve_class(node.exc, fn)
            if c is not None:
                out.add(c)
                return out
            # `raise var(...)` where var holds classes assigned in this function
            tgt = node.exc.func if isinstance(node.exc, ast.Call) else node.exc
            found = set()
            if isinstance(tgt, ast.Name):
                for n in ast.walk(fn.node):
                    if isinstance(n, ast.Assign) and any(
                            isinstance(t, ast.Name) and t.id == tgt.id
                            for t in n.targets):
                        c2 = self.resolve_class(n.value, fn)
                        if c2 is not None:
                            found.add(c2)
                        else:
                            found.add(Exception)
                for h in ast.walk(fn.node):
                    if isinstance(h, ast.ExceptHandler) and h.name == tgt.id:
                        found |= set(k for k in self._handler_classes(h, fn))
            if isinstance(tgt, ast.Attribute) and isinstance(tgt.value, ast.Name) \
                    and tgt.value.id in ('self', 'cls'):
                # class attribute holding an exception class (any class of
                # the package defining that attribute)
                for m in list(sys.modules.values()):
                    if m is None or not getattr(m, '__name__', '').startswith(
                            self.package):
                        continue
                    for v in list(vars(m).values()):
                        if isinstance(v, type) and v.__module__ == m.__name__:
                            a = v.__dict__.get(tgt.attr)
                            if isinstance(a, type) and issubclass(a, BaseException):
                                found.add(a)
            out |= found or {Exception}
            return out
        if isinstance(node, ast.Try):
            body = self._stmt_raises(node.body, fn, handling)
            remaining = set(body)
            for h in node.handlers:
                caught = self._handler_classes(h, fn)
                matched = set(c for c in remaining
                              if any(issubclass(c, k) for k in caught))
                # a broad handler also "catches" subclasses that the body may
                # raise through unknown paths: record what it declares
                remaining -= matched
                inner_handling = matched | set(
                    k for k in caught if k not in (Exception, BaseException))
                out |= self._stmt_raises(h.body, fn, inner_handling)
            out |= remaining
            out |= self._stmt_raises(node.orelse, fn, handling)
            out |= self._stmt_raises(node.finalbody, fn, handling)
            return out
        if isinstance(node, ast.With):
            for item in node.items:
                ce = item.context_expr
                if isinstance(ce, ast.Call) and isinstance(ce.func, ast.Attribute) \
                        and ce.func.attr == 'save_and_reraise_exception':
                    out |= set(handling)
        for child in ast.iter_child_nodes(node):
            if isinstance(child, ast.Call):
                for callee in (self.callees(child, fn) or []):
                    out |= callee.raises
            if isinstance(child, (ast.stmt, ast.expr, ast.excepthandler,
                                  ast.withitem, ast.keyword, ast.comprehension)):
                out |= self._node_raises(child, fn, handling)
        if isinstance(node, ast.Call):
            pass
        return out

    def _handler_classes(self, h, fn):
        if h.type is None:
            return [BaseException]
        exprs = h.type.elts if isinstance(h.type, ast.Tuple) else [h.type]
        out = []
        for e in exprs:
            c = self.resolve_class(e, fn)
            out.append(c if c is not None else BaseException)
        return out

    def _fixpoint(self):
        changed = True
        rounds = 0
        while changed and rounds < 30:
            changed = False
            rounds += 1
            for fn in list(self.fns.values()):
                new = self._stmt_raises(fn.node.body, fn, set())
                # calls appearing directly as statement-level expressions
                for sub in ast.walk(fn.node):
                    pass
                if not new <= fn.raises:
                    fn.raises |= new
                    changed = True

    # ------------------------------------------------------------------
    def raises_of(self, real_fn):
        """Set of classes for a real function object."""
        targets = self._fn_of_real(real_fn)
        out = set()
        for t in targets or []:
            out |= t.raises
        return out


_cached = None


def analysis():
    global _cached
    if _cached is None:
        _cached = Analysis()
    return _cached
