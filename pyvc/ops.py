"""Primitive operations on values: conversion to/from z3 terms, truthiness,
arithmetic, comparison, membership."""
import z3

from pyvc.core import Undecided
from pyvc.values import (Sym, Obj, VList, VDict, VSet, SList, SSet, SMap,
                         Native, ExcVal, Opaque, Closure, BoundMethod,
                         StrSort, sort_of, str_const)


def is_concrete(v):
    if v is None or isinstance(v, (bool, int, float, str, bytes)):
        return True
    if isinstance(v, tuple):
        return all(is_concrete(x) for x in v)
    return False


def ty_of(v):
    """Static type descriptor of a value that can live in a z3 term."""
    if isinstance(v, bool):
        return 'bool'
    if isinstance(v, int):
        return 'int'
    if isinstance(v, float):
        return 'real'
    if isinstance(v, str):
        return 'str'
    if isinstance(v, Sym):
        return v.ty
    if isinstance(v, Obj):
        return ('obj', v.cls)
    if isinstance(v, tuple):
        return ('tuple', tuple(ty_of(x) for x in v))
    if isinstance(v, SList):
        return ('list', v.ety)
    if isinstance(v, SSet):
        return ('set', v.ety)
    if isinstance(v, SMap) and v.default is None:
        return ('map', v.kty, v.vty)
    raise Undecided('no term type for value %r' % (v,))


def to_term(v, ty=None):
    """z3 term for a value (None-ness is dropped: caller handles it)."""
    if isinstance(v, Sym):
        if ty == 'real' and v.ty == 'int':
            return z3.ToReal(v.t)
        return v.t
    if isinstance(v, bool):
        if ty == 'int':
            return z3.IntVal(1 if v else 0)
        return z3.BoolVal(v)
    if isinstance(v, int):
        if ty == 'real':
            return z3.RealVal(v)
        return z3.IntVal(v)
    if isinstance(v, float):
        return z3.RealVal(repr(v))
    if isinstance(v, str):
        return str_const(v)
    if isinstance(v, Obj):
        return v.ref
    if isinstance(v, tuple):
        if ty is None:
            ty = ty_of(v)
        s = sort_of(ty)
        return s.mk(*[to_term(x, t) for x, t in zip(v, ty[1])])
    raise Undecided('cannot turn %r into a term' % (v,))


def from_term(t, ty):
    """Engine value for a z3 term of type ty."""
    if isinstance(ty, tuple) and ty[0] == 'obj':
        return Obj(ty[1], t)
    if isinstance(ty, tuple) and ty[0] == 'tuple':
        s = sort_of(ty)
        return tuple(from_term(s.accessor(0, i)(t), et)
                     for i, et in enumerate(ty[1]))
    t = z3.simplify(t)
    if ty == 'int' and z3.is_int_value(t):
        return t.as_long()
    if ty == 'bool' and z3.is_true(t):
        return True
    if ty == 'bool' and z3.is_false(t):
        return False
    return Sym(t, ty)


def none_flag(v):
    """z3 Bool (or Python bool) saying whether v is None."""
    if v is None:
        return True
    if isinstance(v, (Sym, Obj)) and v.none is not None:
        return v.none
    return False


def z3bool(b):
    return z3.BoolVal(b) if isinstance(b, bool) else b


def z_and(*xs):
    xs = [x for x in xs if not (isinstance(x, bool) and x)]
    if any(isinstance(x, bool) and not x for x in xs):
        return False
    if not xs:
        return True
    return z3.And(*xs) if len(xs) > 1 else xs[0]


def z_or(*xs):
    xs = [x for x in xs if not (isinstance(x, bool) and not x)]
    if any(isinstance(x, bool) and x for x in xs):
        return True
    if not xs:
        return False
    return z3.Or(*xs) if len(xs) > 1 else xs[0]


def z_not(x):
    if isinstance(x, bool):
        return not x
    return z3.Not(x)


def z_ite(c, a, b):
    if isinstance(c, bool):
        return a if c else b
    return z3.If(c, a, b)


def numeric(v):
    return (isinstance(v, (int, float)) and not isinstance(v, bool)) or \
        (isinstance(v, Sym) and v.ty in ('int', 'real'))


def num_ty(a, b):
    ta = 'real' if isinstance(a, float) or (isinstance(a, Sym) and a.ty == 'real') else 'int'
    tb = 'real' if isinstance(b, float) or (isinstance(b, Sym) and b.ty == 'real') else 'int'
    return 'real' if 'real' in (ta, tb) else 'int'


def values_equal(ex, a, b):
    """z3 Bool / Python bool for `a == b` (structural for scalars, tuples;
    reference identity for objects without __eq__)."""
    na, nb = none_flag(a), none_flag(b)
    if a is None or b is None:
        return z_and(na, nb) if not (a is None and b is None) else True
    if is_concrete(a) and is_concrete(b):
        return a == b
    if isinstance(a, tuple) and isinstance(b, tuple):
        if len(a) != len(b):
            return False
        return z_and(*[values_equal(ex, x, y) for x, y in zip(a, b)])
    if isinstance(a, tuple) or isinstance(b, tuple):
        # tuple vs. term of tuple sort
        other, tup = (b, a) if isinstance(a, tuple) else (a, b)
        if isinstance(other, Sym) and isinstance(other.ty, tuple):
            return to_term(tup, other.ty) == other.t
        return False
    if isinstance(a, Obj) and isinstance(b, Obj):
        core = a.ref == b.ref
    elif isinstance(a, Obj) or isinstance(b, Obj):
        return False
    elif numeric(a) and numeric(b):
        ty = num_ty(a, b)
        core = to_term(a, ty) == to_term(b, ty)
    elif isinstance(a, (Sym, str, bool, int, float)) and \
            isinstance(b, (Sym, str, bool, int, float)):
        ta, tb = ty_of(a), ty_of(b)
        if ta != tb:
            if {ta, tb} <= {'int', 'bool'}:
                core = to_term(a, 'int') == to_term(b, 'int')
            else:
                return False
        else:
            core = to_term(a) == to_term(b)
    elif a is b:
        return True
    else:
        raise Undecided('equality of %r and %r' % (a, b))
    # None-ness: equal iff both none, or neither none and cores equal
    if (isinstance(na, bool) and not na) and (isinstance(nb, bool) and not nb):
        return core
    return z_or(z_and(na, nb), z_and(z_not(na), z_not(nb), core))


_OK_KINDS = None


def _pattern_ok(t, bound_names):
    global _OK_KINDS
    if _OK_KINDS is None:
        _OK_KINDS = {z3.Z3_OP_UNINTERPRETED, z3.Z3_OP_SELECT,
                     z3.Z3_OP_DT_CONSTRUCTOR, z3.Z3_OP_DT_ACCESSOR,
                     z3.Z3_OP_ANUM, z3.Z3_OP_ADD, z3.Z3_OP_TO_REAL}
    stack = [t]
    has_var = False
    while stack:
        x = stack.pop()
        if z3.is_quantifier(x):
            return False
        if z3.is_var(x):
            has_var = True
            continue
        if not z3.is_app(x):
            return False
        if x.num_args() == 0:
            if x.decl().name() in bound_names:
                has_var = True
            continue
        if x.decl().kind() not in _OK_KINDS:
            return False
        stack.extend(x.children())
    return has_var


def forall(vs, body, patterns=None):
    """z3.ForAll that silently drops patterns z3 would reject (patterns over
    lambda / store / boolean structure)."""
    if isinstance(body, bool):
        return z3.BoolVal(body)
    if patterns:
        names = set(v.decl().name() for v in vs)
        ok = []
        for p in patterns:
            if isinstance(p, z3.PatternRef):
                ok.append(p)
                continue
            if _pattern_ok(p, names):
                ok.append(p)
        # every bound variable must occur in each (multi)pattern; z3 checks
        if ok:
            try:
                return z3.ForAll(vs, body, patterns=ok)
            except z3.Z3Exception:
                pass
    return z3.ForAll(vs, body)
