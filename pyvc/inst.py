"""Ground instantiation of the universally quantified parts of a VC.

Used to obtain *models* for broken obligations (a VC with quantifiers makes
z3 answer `unknown` instead of `sat`).  Every universal sub-formula in a
positive position is replaced by the conjunction of its instances at the
ground terms that occur, somewhere in the VC, in the same argument position
of the same function symbol as the bound variable (position-based
E-matching), for a fixed number of rounds.

Soundness: the instantiated formula is implied by the original one, so
  unsat(instantiated)  =>  unsat(original)   (the obligation is proved);
  sat(instantiated)    is only a candidate counter-model: it is reported as
                        a refutation only after replay on the real code.
"""
import itertools

import z3


def _nnf(formulas):
    g = z3.Goal()
    for f in formulas:
        g.add(f)
    t = z3.Then(z3.Tactic('simplify'), z3.Tactic('nnf'))
    res = t(g)
    out = []
    for sub in res:
        out.extend(list(sub))
    return out


def _positions(body, nvars):
    """For de-Bruijn variable index -> set of (decl key, arg position)."""
    pos = {i: set() for i in range(nvars)}
    seen = set()
    stack = [(body, 0)]
    while stack:
        t, depth = stack.pop()
        if z3.is_quantifier(t):
            stack.append((t.body(), depth + t.num_vars()))
            continue
        if not z3.is_app(t):
            continue
        key = (t.get_id(), depth)
        if key in seen:
            continue
        seen.add(key)
        d = t.decl()
        for ai, a in enumerate(t.children()):
            if z3.is_var(a):
                idx = z3.get_var_index(a) - depth
                if 0 <= idx < nvars and _trigger_decl(d):
                    pos[idx].add((_dkey(t, d), ai))
            else:
                stack.append((a, depth))
    return pos


def _trigger_decl(d):
    k = d.kind()
    return k in (z3.Z3_OP_UNINTERPRETED, z3.Z3_OP_SELECT, z3.Z3_OP_STORE,
                 z3.Z3_OP_DT_CONSTRUCTOR, z3.Z3_OP_DT_ACCESSOR,
                 z3.Z3_OP_DT_IS)


def _dkey(t, d):
    if d.kind() in (z3.Z3_OP_SELECT, z3.Z3_OP_STORE):
        return ('select', t.arg(0).sort().name() + str(t.arg(0).sort()))
    return (d.kind(), d.name())


class TooBig(Exception):
    pass


class Instantiator(object):
    def __init__(self, cap=3000, budget=6000, seconds=12.0):
        import time as _t
        self.cap = cap
        self.budget = budget
        # CPU time of this process, not wall time: the verdict must not
        # depend on how busy the machine is
        self.deadline = _t.process_time() + seconds
        self.ground = {}        # (dkey, argpos) -> {term id: term}
        self.by_sort = {}
        self.count = 0
        self.truncated = False

    def collect(self, t):
        seen = set()
        stack = [t]
        while stack:
            x = stack.pop()
            if x.get_id() in seen:
                continue
            seen.add(x.get_id())
            if z3.is_quantifier(x):
                # ground sub-terms inside quantifier bodies count as well
                stack.append(x.body())
                continue
            if not z3.is_app(x):
                continue
            d = x.decl()
            trig = _trigger_decl(d)
            for ai, a in enumerate(x.children()):
                if trig and _is_ground(a):
                    if d.kind() == z3.Z3_OP_STORE and ai == 1:
                        key = (_dkey(x, d), 1)
                    else:
                        key = (_dkey(x, d), ai)
                    self.ground.setdefault(key, {})[a.get_id()] = a
                stack.append(a)

    def candidates(self, positions):
        out = {}
        for p in positions:
            # a Select position also matches terms stored at that index
            out.update(self.ground.get(p, {}))
        return list(out.values())

    def instantiate(self, f, depth=0):
        """f in NNF.  Returns a quantifier-free weakening of f."""
        if z3.is_quantifier(f):
            if not f.is_forall():
                return z3.BoolVal(True)      # should not occur after nnf
            n = f.num_vars()
            body = f.body()
            pos = _positions(body, n)
            # de-Bruijn index 0 is the LAST bound variable
            cands = []
            for vi in range(n):
                idx = n - 1 - vi
                c = self.candidates(pos[idx])
                srt = f.var_sort(vi)
                c = [t for t in c if t.sort().eq(srt)]
                cands.append(c)
            if any(len(c) == 0 for c in cands):
                return z3.BoolVal(True)
            total = 1
            for c in cands:
                total *= len(c)
            combos = itertools.product(*cands)
            if total > self.cap:
                self.truncated = True
                combos = itertools.islice(combos, self.cap)
            insts = []
            import time as _t
            for combo in combos:
                self.count += 1
                if self.count > self.budget or _t.process_time() > self.deadline:
                    raise TooBig()
                inst = z3.substitute_vars(body, *reversed(combo))
                insts.append(self.instantiate(inst, depth + 1))
            return z3.And(*insts) if insts else z3.BoolVal(True)
        if z3.is_and(f):
            return z3.And(*[self.instantiate(c, depth) for c in f.children()])
        if z3.is_or(f):
            return z3.Or(*[self.instantiate(c, depth) for c in f.children()])
        if _has_quant(f):
            # quantifier under a non-monotone connective: drop (weakening is
            # only valid for positive positions; nnf should have removed it)
            if z3.is_not(f):
                return z3.BoolVal(True)
            return z3.BoolVal(True)
        return f


def _is_ground(t):
    seen = set()
    stack = [t]
    while stack:
        x = stack.pop()
        if x.get_id() in seen:
            continue
        seen.add(x.get_id())
        if z3.is_var(x):
            return False
        if z3.is_quantifier(x):
            return False
        stack.extend(x.children())
    return True


def _has_quant(t):
    seen = set()
    stack = [t]
    while stack:
        x = stack.pop()
        if x.get_id() in seen:
            continue
        seen.add(x.get_id())
        if z3.is_quantifier(x):
            return True
        stack.extend(x.children())
    return False


def ground_vc(formulas, rounds=2, cap=3000):
    """formulas: list of z3 Bool (pc + hyps + negated goal).
    Returns (list of quantifier-free formulas, stats)."""
    nnf = _nnf(formulas)
    qf = [f for f in nnf if not _has_quant(f)]
    qs = [f for f in nnf if _has_quant(f)]
    inst = Instantiator(cap)
    for f in nnf:
        inst.collect(f)
    out = list(qf)
    new = []
    try:
        for r in range(rounds):
            cur = []
            for f in qs:
                g = z3.simplify(inst.instantiate(f))
                cur.append(g)
            new = cur
            if r < rounds - 1:
                for g in new:
                    inst.collect(g)
    except TooBig:
        inst.truncated = True
    out.extend(new if qs else [])
    return out, {'instances': inst.count, 'truncated': inst.truncated,
                 'quantified_parts': len(qs)}
