"""Locating the AST of real function objects of the working tree.

Every run parses the files under /repo afresh; a function object obtained
from the imported real module is mapped to its FunctionDef / Lambda node by
code-object position, so the verified text is the text that was imported.
"""
import ast
import hashlib
import inspect
import os
import subprocess
import types

_cache = {}
files_read = {}      # path -> sha1 of content (reported in evidence)


def parse_file(path):
    if path not in _cache:
        with open(path, 'rb') as f:
            data = f.read()
        files_read[path] = hashlib.sha1(data).hexdigest()
        tree = ast.parse(data, filename=path)
        index = {}
        stack = []

        def visit(node, qual):
            for child in ast.iter_child_nodes(node):
                if isinstance(child, (ast.FunctionDef, ast.AsyncFunctionDef)):
                    q = qual + [child.name]
                    first = min([child.lineno] +
                                [d.lineno for d in child.decorator_list])
                    index.setdefault((child.name, first), []).append(
                        (child, '.'.join(q)))
                    index.setdefault((child.name, child.lineno), []).append(
                        (child, '.'.join(q)))
                    visit(child, q + ['<locals>'])
                elif isinstance(child, ast.ClassDef):
                    visit(child, qual + [child.name])
                elif isinstance(child, ast.Lambda):
                    index.setdefault(('<lambda>', child.lineno), []).append(
                        (child, '.'.join(qual + ['<lambda>'])))
                    visit(child, qual + ['<lambda>', '<locals>'])
                else:
                    visit(child, qual)
        visit(tree, [])
        _cache[path] = (tree, index)
    return _cache[path]


def unwrap(func):
    """Innermost function of a functools.wraps chain."""
    seen = set()
    while hasattr(func, '__wrapped__') and id(func) not in seen:
        seen.add(id(func))
        func = func.__wrapped__
    return func


def get_ast(func):
    """(node, qualname, path) for a real Python function object."""
    code = func.__code__
    path = code.co_filename
    tree, index = parse_file(path)
    cands = index.get((code.co_name, code.co_firstlineno), [])
    if not cands:
        raise LookupError('no AST for %s at %s:%d' % (
            code.co_name, path, code.co_firstlineno))
    if len(cands) > 1 and code.co_name == '<lambda>':
        # several lambdas on one line: choose by column
        try:
            col = min(p[2] for p in code.co_positions() if p[2] is not None)
        except Exception:
            col = None
        for node, q in cands:
            if col is not None and node.col_offset <= col <= node.end_col_offset:
                return node, q, path
    return cands[0][0], cands[0][1], path


REPO = os.environ.get('PYVC_REPO', '/repo')


def is_repo_function(func):
    """A Python function whose code lives in the working tree (a functools
    wrapper defined in a library reports the wrapped module name, so the
    code object's file decides)."""
    if not isinstance(func, types.FunctionType):
        return False
    fn = func.__code__.co_filename
    return fn.startswith(REPO + '/placement/') and '/tests/' not in fn


MUTATORS = frozenset(['append', 'add', 'update', 'extend', 'pop', 'remove',
                       'clear', 'setdefault', 'insert', 'discard', 'sort',
                       'popitem', 'reverse', 'difference_update',
                       'intersection_update'])


def assigned_names(nodes):
    """Names (re)bound, and names used as receiver of a mutation, inside a
    list of statements (used for loop havoc)."""
    bound, mutated = set(), set()

    class V(ast.NodeVisitor):
        def visit_Name(self, n):
            if isinstance(n.ctx, (ast.Store, ast.Del)):
                bound.add(n.id)

        def visit_Subscript(self, n):
            if isinstance(n.ctx, (ast.Store, ast.Del)):
                root = n.value
                while isinstance(root, (ast.Subscript, ast.Attribute)):
                    root = root.value
                if isinstance(root, ast.Name):
                    mutated.add(root.id)
            self.generic_visit(n)

        def visit_AugAssign(self, n):
            t = n.target
            if isinstance(t, ast.Name):
                bound.add(t.id)
                mutated.add(t.id)
            else:
                root = t
                while isinstance(root, (ast.Subscript, ast.Attribute)):
                    root = root.value
                if isinstance(root, ast.Name):
                    mutated.add(root.id)
            self.generic_visit(n)

        def visit_Call(self, n):
            f = n.func
            if isinstance(f, ast.Attribute) and f.attr in MUTATORS:
                root = f.value
                while isinstance(root, (ast.Subscript, ast.Attribute)):
                    root = root.value
                if isinstance(root, ast.Name):
                    mutated.add(root.id)
            self.generic_visit(n)

        def visit_FunctionDef(self, n):
            bound.add(n.name)

        def visit_Lambda(self, n):
            pass
    v = V()
    for s in nodes:
        v.visit(s)
    return bound, mutated


def repo_head(repo='/repo'):
    try:
        return subprocess.check_output(
            ['git', '-C', repo, 'rev-parse', 'HEAD'],
            stderr=subprocess.DEVNULL).decode().strip()
    except Exception:
        return None
