"""Value domain of the symbolic executor.

Python constants (int, str, bool, None, float), real modules / classes /
functions of the working tree and tuples of values are used as they are.
Everything else is one of the classes below.
"""
import z3

# --------------------------------------------------------------------------
# sorts

StrSort = z3.DeclareSort('Str')          # opaque strings: equality only
_str_consts = {}


def str_const(s):
    """Distinct constant of sort Str for a Python string literal."""
    if s not in _str_consts:
        _str_consts[s] = z3.Const('str!%d' % len(_str_consts), StrSort)
    return _str_consts[s]


def str_distinct_axioms(used=None):
    cs = list(_str_consts.values())
    if len(cs) < 2:
        return []
    return [z3.Distinct(*cs)]


def str_of_const(term):
    for k, v in _str_consts.items():
        if v.eq(term):
            return k
    return None


_tuple_sorts = {}


def sort_of(ty):
    """ty: 'int' | 'real' | 'bool' | 'str' | ('obj', cls) | ('tuple', (tys))"""
    if ty == 'int':
        return z3.IntSort()
    if ty == 'real':
        return z3.RealSort()
    if ty == 'bool':
        return z3.BoolSort()
    if ty == 'str':
        return StrSort
    if isinstance(ty, tuple) and ty[0] == 'obj':
        return z3.IntSort()
    if isinstance(ty, tuple) and ty[0] in ('list', 'set', 'map'):
        return z3.IntSort()          # collection id (see Interp.coll_*)
    if isinstance(ty, tuple) and ty[0] == 'tuple':
        key = tuple(str(sort_of(t)) for t in ty[1])
        if key not in _tuple_sorts:
            dt = z3.Datatype('Tup_' + '_'.join(key))
            dt.declare('mk', *[('f%d' % i, sort_of(t))
                               for i, t in enumerate(ty[1])])
            _tuple_sorts[key] = dt.create()
        return _tuple_sorts[key]
    raise TypeError('no sort for type %r' % (ty,))


# --------------------------------------------------------------------------
# values

class Sym(object):
    """Scalar symbolic value.  `none` is a z3 Bool (or None = never None)."""
    __slots__ = ('t', 'ty', 'none')

    def __init__(self, t, ty, none=None):
        self.t = t
        self.ty = ty
        self.none = none

    def __repr__(self):
        return 'Sym(%s:%s%s)' % (self.t, self.ty,
                                 '?' if self.none is not None else '')


class Obj(object):
    """Reference to a heap object of class `cls` (a real class or a tag
    class from the sidecar)."""
    __slots__ = ('cls', 'ref', 'none')

    def __init__(self, cls, ref, none=None):
        self.cls = cls
        self.ref = ref
        self.none = none

    def __repr__(self):
        return 'Obj(%s@%s)' % (getattr(self.cls, '__name__', self.cls),
                               self.ref)


class VList(object):
    """List with a concrete number of (possibly symbolic) items."""
    __slots__ = ('items',)

    def __init__(self, items=None):
        self.items = list(items or [])

    def __repr__(self):
        return 'VList(%r)' % (self.items,)


class VDict(object):
    """Dict with concrete (hashable Python) keys."""
    def __init__(self, items=None, default=None):
        self.items = dict(items or {})
        self.default = default       # callable value for defaultdict
        self.present = None          # key -> z3 Bool for optional keys
        self.sym_items = None        # [(symbolic key, value)] association list

    def __repr__(self):
        return 'VDict(%r)' % (self.items,)


class VSet(object):
    """Set of concrete hashable Python values."""
    __slots__ = ('items',)

    def __init__(self, items=None):
        self.items = set(items or ())

    def __repr__(self):
        return 'VSet(%r)' % (self.items,)


class SList(object):
    """List of symbolic length: len : Int, arr : Array(Int -> elem)."""

    def __init__(self, length, arr, ety, name='l'):
        self.len = length
        self.arr = arr
        self.ety = ety
        self.name = name

    def __repr__(self):
        return 'SList(%s,len=%s)' % (self.name, self.len)


class SSet(object):
    """Symbolic set: characteristic array elem -> Bool.  `elems`, when not
    None, is a finite list of terms such that the set is exactly their
    collection (used to unroll iteration)."""

    def __init__(self, arr, ety, elems=None, name='s'):
        self.arr = arr
        self.ety = ety
        self.elems = elems
        self.name = name

    def __repr__(self):
        return 'SSet(%s)' % self.name


class SMap(object):
    """Symbolic dict: dom : key -> Bool, val : key -> value.
    default: None | ('const', value) | ('nested', inner_kty, inner_vty, c)."""

    def __init__(self, dom, val, kty, vty, default=None, name='m'):
        self.dom = dom
        self.val = val
        self.kty = kty
        self.vty = vty
        self.default = default
        self.name = name

    def __repr__(self):
        return 'SMap(%s)' % self.name


class Closure(object):
    __slots__ = ('node', 'env', 'globals', 'name', 'defaults', 'kwdefaults',
                 'qualname', 'module')

    def __init__(self, node, env, globals_, name, defaults, kwdefaults,
                 qualname, module):
        self.node = node
        self.env = env
        self.globals = globals_
        self.name = name
        self.defaults = defaults
        self.kwdefaults = kwdefaults
        self.qualname = qualname
        self.module = module

    def __repr__(self):
        return 'Closure(%s)' % self.qualname


class BoundMethod(object):
    __slots__ = ('self', 'func')

    def __init__(self, self_, func):
        self.self = self_
        self.func = func

    def __repr__(self):
        return 'BoundMethod(%r.%r)' % (self.self, self.func)


class Native(object):
    """Meta-level object with engine-defined behaviour (library stubs,
    contracts).  Subclasses override what they support."""

    def getattr(self, ex, name):
        raise NotImplementedError('%s has no attribute model for %r'
                                  % (type(self).__name__, name))

    def setattr(self, ex, name, value):
        raise NotImplementedError('%s: setattr %r'
                                  % (type(self).__name__, name))

    def call(self, ex, args, kwargs):
        raise NotImplementedError('%s is not callable in the model'
                                  % type(self).__name__)

    def getitem(self, ex, key):
        raise NotImplementedError('%s: getitem' % type(self).__name__)

    def setitem(self, ex, key, value):
        raise NotImplementedError('%s: setitem' % type(self).__name__)

    def contains(self, ex, key):
        raise NotImplementedError('%s: contains' % type(self).__name__)

    def truth(self, ex):
        return True

    def iterate(self, ex):
        raise NotImplementedError('%s: iterate' % type(self).__name__)


class ExcVal(object):
    """An exception instance of a concrete (real) class."""
    __slots__ = ('cls', 'args', 'fields')

    def __init__(self, cls, args=(), fields=None):
        self.cls = cls
        self.args = tuple(args)
        self.fields = dict(fields or {})

    def __repr__(self):
        return 'ExcVal(%s)' % self.cls.__name__


class Opaque(object):
    """A value nothing is known about (result of an uncontracted call)."""
    __slots__ = ('what',)

    def __init__(self, what):
        self.what = what

    def __repr__(self):
        return 'Opaque(%s)' % self.what
