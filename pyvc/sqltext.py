"""Normal form of the text of a statement built by the real code: bind
parameters are replaced by ?k, k numbering the distinct engine values bound
(in order of first appearance)."""
import re

from pyvc.values import Sym, Obj

_TOK = re.compile(r'__\[POSTCOMPILE_(\w+)\]|:(\w+)')


def _same(a, b):
    if a is b:
        return True
    if isinstance(a, Sym) and isinstance(b, Sym):
        return a.t.eq(b.t)
    if isinstance(a, Obj) and isinstance(b, Obj):
        return a.ref.eq(b.ref)
    if type(a) is type(b) and isinstance(a, (int, str, float, bool)):
        return a == b
    return False


def normal_form(stmt, binds):
    compiled = stmt.compile()
    text = str(compiled)
    values = []

    def repl(m):
        name = m.group(1) or m.group(2)
        if name in binds:
            v = binds[name]
        else:
            v = ('literal', compiled.params.get(name))
        for i, x in enumerate(values):
            if _same(x, v) or (isinstance(v, tuple) and v == x):
                return '?%d' % i
        values.append(v)
        return '?%d' % (len(values) - 1)
    text = _TOK.sub(repl, text)
    text = ' '.join(text.split())
    return text, values
