"""Translation of a real SQLAlchemy scalar / boolean expression object into z3
(Tier-A SQL semantics: integers mathematical, REAL columns as reals,
three-valued logic collapsed to 'is TRUE').  Used for lemmas that tie a
clause built by the real code to a contract of another function."""
import z3
from sqlalchemy.sql import elements as sa_el
from sqlalchemy.sql import operators as sa_ops
from sqlalchemy.sql import functions as sa_fn

from pyvc.core import Undecided


def term(expr, env):
    """-> (z3 term, z3 Bool 'is NULL', 'int' | 'real').
    env: {'binds': {key: (term, ty)}, 'cols': {(table, column): (term, null,
    ty)}}"""
    if isinstance(expr, sa_el.Grouping):
        return term(expr.element, env)
    if isinstance(expr, sa_el.BindParameter):
        if expr.key in env['binds']:
            t, ty = env['binds'][expr.key]
            return t, z3.BoolVal(False), ty
        v = expr.value
        if isinstance(v, bool) or not isinstance(v, (int, float)):
            raise Undecided('literal %r in SQL expression' % (v,))
        if isinstance(v, int):
            return z3.IntVal(v), z3.BoolVal(False), 'int'
        return z3.RealVal(v), z3.BoolVal(False), 'real'
    if isinstance(expr, sa_el.ColumnClause) or hasattr(expr, 'table'):
        tn = getattr(getattr(expr, 'table', None), 'name', None)
        key = (tn, expr.name)
        if key not in env['cols']:
            raise Undecided('column %s.%s not bound' % key)
        return env['cols'][key]
    if isinstance(expr, sa_fn.FunctionElement) and \
            expr.name.lower() == 'coalesce':
        args = list(expr.clauses)
        t, n, ty = term(args[-1], env)
        for a in reversed(args[:-1]):
            t2, n2, ty2 = term(a, env)
            if ty2 != ty:
                t2, t = _coerce(t2, ty2, t, ty)
                ty = 'real'
            t = z3.If(n2, t, t2)
            n = z3.And(n2, n)
        return t, n, ty
    if isinstance(expr, sa_el.BinaryExpression):
        op = expr.operator
        arith = {sa_ops.add: lambda a, b: a + b, sa_ops.sub: lambda a, b: a - b,
                 sa_ops.mul: lambda a, b: a * b, sa_ops.mod: lambda a, b: a % b}
        if op in arith:
            lt, ln, lty = term(expr.left, env)
            rt, rn, rty = term(expr.right, env)
            ty = 'real' if 'real' in (lty, rty) else 'int'
            if ty == 'real':
                if op is sa_ops.mod:
                    raise Undecided('modulo over reals')
                lt, rt = _coerce(lt, lty, rt, rty)
            return arith[op](lt, rt), z3.Or(ln, rn), ty
    raise Undecided('SQL scalar expression not interpreted: %s (%s)'
                    % (expr, type(expr).__name__))


def _coerce(lt, lty, rt, rty):
    if lty == 'int':
        lt = z3.ToReal(lt)
    if rty == 'int':
        rt = z3.ToReal(rt)
    return lt, rt


def pred(clause, env):
    """z3 Bool: the clause evaluates to TRUE"""
    if isinstance(clause, sa_el.Grouping):
        return pred(clause.element, env)
    if isinstance(clause, sa_el.BooleanClauseList):
        parts = [pred(c, env) for c in clause.clauses]
        if clause.operator is sa_ops.and_:
            return z3.And(*parts)
        if clause.operator is sa_ops.or_:
            return z3.Or(*parts)
    if isinstance(clause, sa_el.BinaryExpression):
        cmp_ = {sa_ops.eq: lambda a, b: a == b, sa_ops.ne: lambda a, b: a != b,
                sa_ops.lt: lambda a, b: a < b, sa_ops.le: lambda a, b: a <= b,
                sa_ops.gt: lambda a, b: a > b, sa_ops.ge: lambda a, b: a >= b
                }.get(clause.operator)
        if cmp_ is not None:
            lt, ln, lty = term(clause.left, env)
            rt, rn, rty = term(clause.right, env)
            if 'real' in (lty, rty):
                lt, rt = _coerce(lt, lty, rt, rty)
            return z3.And(z3.Not(ln), z3.Not(rn), cmp_(lt, rt))
    raise Undecided('SQL predicate not interpreted: %s (%s)'
                    % (clause, type(clause).__name__))
